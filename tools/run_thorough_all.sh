#!/bin/sh
# runs every thorough tier sequentially (used with `vp run`), summarising exit codes and times
cd "$(dirname "$0")/.."
sh setup.sh >/dev/null 2>&1
: >> thorough-summary.txt
for p in "$@"; do
  s=$(date +%s)
  timeout 1800 ./check $p --tier thorough > thorough-$p.log 2>&1
  rc=$?
  e=$(date +%s)
  echo "$p exit=$rc secs=$((e-s))" >> thorough-summary.txt
  grep -E "^symgo: C|bound exceeded|unreached|validation FAILED|did NOT|VIOLATION" thorough-$p.log | cut -c1-220 >> thorough-summary.txt
done
