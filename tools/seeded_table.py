#!/usr/bin/env python3
"""Prints the markdown table of seeded changes and the checks that catch them (from seeded/*/meta.json and check_result.json)."""
import glob, json, os, re
rows = []
for d in sorted(glob.glob('/verif/seeded/C*-*')):
    sid = os.path.basename(d)
    meta = json.load(open(d + '/meta.json'))
    res = json.load(open(d + '/check_result.json')) if os.path.exists(d + '/check_result.json') else None
    patch = open(d + '/patch.diff').read()
    files = sorted(set(re.findall(r'^\+\+\+ b/(\S+)', patch, re.M)))
    what = ''
    notes = meta.get('needs_to_manifest', '')
    m = re.search(r'^#+ .*\n+(.*?)(\n\n|$)', notes, re.S)
    first = notes.strip().split('\n')
    title = next((l.strip('# ').strip() for l in first if l.strip()), '')[:110]
    if res is None:
        verdict = 'not run'
    elif res['exit_code'] == 1:
        hs = sorted(set(v['harness'] for v in res['violations']))
        verdict = 'caught by ' + ', '.join(hs[:3])
    elif res['exit_code'] == 0:
        verdict = '**missed**'
        o = meta.get('caught_by_other_property')
        if o:
            verdict = f"**missed** by {meta['property']}'s check; caught by {o['harness']} (./check {o['property']})"
    else:
        verdict = 'inconclusive: ' + '; '.join(res.get('inconclusive_reasons', [])[:1])[:80]
    rows.append((sid, ', '.join(os.path.basename(f) for f in files), title, verdict))
print('| seeded | file(s) | what | quick check |')
print('|---|---|---|---|')
for r in rows:
    print('| ' + ' | '.join(x.replace('|', '/') for x in r) + ' |')
caught = sum(1 for r in rows if r[3].startswith('caught'))
other = sum(1 for r in rows if 'caught by' in r[3] and not r[3].startswith('caught'))
print(f'\n{caught} of {len(rows)} caught by the quick tier of the property they were written against' + (f'; {other} more only by the check of another property.' if other else '.'))
