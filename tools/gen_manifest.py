#!/usr/bin/env python3
"""Regenerates /verif/MANIFEST.json from tools/claims.json (kept valid at all times)."""
import json, os
root = os.path.dirname(os.path.dirname(os.path.abspath(__file__)))
claims = json.load(open(os.path.join(root, 'tools', 'claims.json')))
props = [json.loads(l)['id'] for l in open(os.path.join(root, 'properties.jsonl'))]
checks, na = [], []
for pid in props:
    c = claims.get(pid)
    if not c or not c.get('claimed'):
        na.append({"property_id": pid, "reason": (c or {}).get('reason', 'no solver-based check has been built for this property yet')})
        continue
    checks.append({
        "property_id": pid,
        "quick_cmd": f"./check {pid} --tier quick",
        "thorough_cmd": f"./check {pid} --tier thorough",
        "evidence_file": f"evidence/{pid}.json",
        "replay_cmd_template": f"./check {pid} --replay {{path}}",
        "engine": "symgo",
        "level_claimed": {"category": "model_checking", "text": c['text'], "design_ref": c.get('design_ref', 'DESIGN.md §4 ' + pid)},
        "level_note": c['note'],
        "technique": "bounded symbolic execution of the real go/ssa code, every branch and assertion decided by an SMT solver (z3); counterexamples replayed natively",
    })
m = {
    "version": 1,
    "setup_cmd": "sh ./setup.sh",
    "hooks": {
        "guard": "verif",
        "enable": "harness files and the nondeterminism API (//go:build verif) are injected with go/packages Overlay and `go test -tags verif -overlay <generated>`; nothing is committed to /repo",
        "baseline_off_cmd": "cd /repo && go test -mod=mod -json -vet=off -count=1 -timeout 25m ./...",
        "source_commits": [],
        "add_only": True,
    },
    "engines": [{"name": "symgo", "path": "engine/", "serves_properties": [c["property_id"] for c in checks],
                 "kind_free_text": "own symbolic executor for go/ssa (x/tools v0.50.0): bit-vector terms, path exploration by re-execution, z3 decides every branch/assertion, native replay of models through go test -overlay"}],
    "checks": checks,
    "not_applicable": na,
    "notes": "exit 0 = held within the stated bounds; exit 1 = natively reproduced violation (VIOLATION line); exit 2 = inconclusive (bound exceeded, solver unknown, unreached Cover point, or a model that does not replay) — never a pass.",
}
json.dump(m, open(os.path.join(root, 'MANIFEST.json'), 'w'), indent=1)
print(len(checks), "claimed;", len(na), "not applicable")
