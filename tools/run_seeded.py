#!/usr/bin/env python3
"""Runs the quick check of the property each seeded change breaks against a scratch
worktree of /repo with the change applied (equivalent to `git -C /repo apply`, run,
`git -C /repo checkout -- .`, but lets several lanes run in parallel)."""
import json, os, re, subprocess, sys, time

lane = sys.argv[1]
ids = sys.argv[2:]
WT = f'/tmp/seedrun-{lane}'
ENV = dict(os.environ, GOFLAGS='-mod=mod', GOPROXY='off')
ENV.pop('GOTOOLCHAIN', None)

def sh(cmd, cwd=None, timeout=3600):
    p = subprocess.run(cmd, shell=True, cwd=cwd, env=ENV, capture_output=True, text=True, timeout=timeout)
    return p.returncode, p.stdout + p.stderr

if not os.path.isdir(WT):
    rc, out = sh(f'git -C /repo worktree add -q --detach {WT} HEAD')
    assert rc == 0, out
for sid in ids:
    d = f'/verif/seeded/{sid}'
    prop = sid.split('-')[0]
    sh('git checkout -q --detach $(git -C /repo rev-parse HEAD) && git checkout -- . && git clean -fdq', cwd=WT)
    rc, out = sh(f'git apply {d}/patch.diff', cwd=WT)
    if rc != 0:
        print(sid, 'patch failed', out[-200:], flush=True)
        continue
    t0 = time.time()
    try:
        rc, out = sh(f'./bin/symgo -verif /verif -repo {WT} -workers 5 -prop {prop} -tier quick', cwd='/verif', timeout=2400)
    except subprocess.TimeoutExpired:
        rc, out = 124, 'timeout'
    viol = re.findall(r'symgo: violation in (\S+): (.*)', out)
    res = {
        'seeded': sid, 'check': f'./check {prop} --tier quick (run against a scratch worktree with the patch applied)',
        'exit_code': rc, 'detected': rc == 1,
        'violations': [{'harness': h.rstrip(':'), 'message': m} for h, m in viol][:6],
        'inconclusive_reasons': re.findall(r'(bound exceeded: .*|unreached Cover.*|error: .*|translator validation FAILED: .*|did NOT reproduce.*)', out)[:6],
        'wall_s': round(time.time() - t0, 1),
    }
    json.dump(res, open(f'{d}/check_result.json', 'w'), indent=1)
    print(sid, 'exit', rc, 'detected' if rc == 1 else 'MISSED' if rc == 0 else 'inconclusive', [v['harness'] for v in res['violations']][:3], res['wall_s'], flush=True)
sh('git checkout -- . && git clean -fdq', cwd=WT)
