#!/bin/sh
cd /verif
for p in "$@"; do
  s=$(date +%s)
  ./check $p --tier quick > /tmp/batch-$p.log 2>&1
  rc=$?
  e=$(date +%s)
  echo "$p exit=$rc secs=$((e-s))" >> /tmp/batch-summary.log
done
