#!/usr/bin/env python3
"""Confirms seeded changes delivered by the independent sub-agents in a scratch
worktree of /repo (demo passes without the patch, fails with it) and files the
confirmed ones under /verif/seeded/<id>/ (patch.diff, demo, meta.json)."""
import glob, json, os, re, shutil, subprocess, sys

SCRATCH = '/tmp/seedcheck'
ENV = dict(os.environ, GOFLAGS='-mod=mod', GOPROXY='off')
for k in ('GOTOOLCHAIN',):
    ENV.pop(k, None)

def sh(cmd, cwd=None, timeout=900):
    p = subprocess.run(cmd, shell=True, cwd=cwd, env=ENV, capture_output=True, text=True, timeout=timeout)
    return p.returncode, p.stdout + p.stderr

def ensure_scratch():
    if not os.path.isdir(SCRATCH):
        rc, out = sh(f'git -C /repo worktree add -q --detach {SCRATCH} HEAD')
        assert rc == 0, out
    sh('git checkout -q --detach $(git -C /repo rev-parse HEAD) && git checkout -- . && git clean -fdq', cwd=SCRATCH)

PKGDIRS = {'local': 'pkg/blobstore/local', 'configuration': 'pkg/blobstore/configuration', 'buffer': 'pkg/blobstore/buffer',
           'mirrored': 'pkg/blobstore/mirrored', 'sharding': 'pkg/blobstore/sharding', 'replication': 'pkg/blobstore/replication',
           'completenesschecking': 'pkg/blobstore/completenesschecking', 'grpcservers': 'pkg/blobstore/grpcservers',
           'readcaching': 'pkg/blobstore/readcaching', 'grpcclients': 'pkg/blobstore/grpcclients', 'readfallback': 'pkg/blobstore/readfallback',
           'blobstore': 'pkg/blobstore', 'auth': 'pkg/auth', 'digest': 'pkg/digest', 'util': 'pkg/util'}

def pkgdir_of_file(f):
    """Directory a demo file belongs to: from its package clause."""
    m = re.search(r'^package (\w+)', open(f).read(), re.M)
    name = m.group(1) if m else ''
    if name.endswith('_test'):
        name = name[:-5]
    return PKGDIRS.get(name)

def run_demos(pkgdirs):
    rc, out = 0, ''
    for pkgdir in sorted(pkgdirs):
        full = os.path.join(SCRATCH, pkgdir)
        repl = {}
        for f in os.listdir(full):
            if f.endswith('_test.go') and not f.startswith('zz_seeded'):
                repl[os.path.join(full, f)] = ''
        ov = '/tmp/seedcheck-overlay.json'
        json.dump({'Replace': repl}, open(ov, 'w'))
        r, o = sh(f'go test -vet=off -count=1 -timeout 300s -overlay {ov} -run Seeded ./{pkgdir}/', cwd=SCRATCH)
        rc |= r
        out += o
    return rc, out

def main():
    ensure_scratch()
    results = {}
    dirs = sorted(glob.glob('/tmp/mutout-[a-z]*/C[0-9][0-9]-[0-9]*'))
    only = sys.argv[1:]
    for d in dirs:
        sid = os.path.basename(d)
        if only and sid not in only:
            continue
        dest = f'/verif/seeded/{sid}'
        if os.path.exists(os.path.join(dest, 'meta.json')) and not only:
            continue
        sh('git checkout -- . && git clean -fdq', cwd=SCRATCH)
        demos = glob.glob(os.path.join(d, 'zz_seeded*_test.go'))
        where = {f: pkgdir_of_file(f) for f in demos}
        pkgdirs = set(where.values())
        pkgdir = ', '.join(sorted(x for x in pkgdirs if x))
        if not demos or None in pkgdirs:
            results[sid] = 'no pkgdir/demo'
            continue
        rc, out = sh(f'git apply --check {d}/patch.diff', cwd=SCRATCH)
        if rc != 0:
            results[sid] = 'patch does not apply: ' + out[-200:]
            continue
        for f in demos:
            shutil.copy(f, os.path.join(SCRATCH, where[f]))
        rc0, out0 = run_demos(pkgdirs)
        sh(f'git apply {d}/patch.diff', cwd=SCRATCH)
        rcb, outb = sh('go build ./pkg/...', cwd=SCRATCH)
        rc1, out1 = run_demos(pkgdirs)
        ok = rc0 == 0 and rc1 != 0 and rcb == 0
        results[sid] = f'unchanged={"pass" if rc0 == 0 else "FAIL"} patched={"fail" if rc1 != 0 else "PASS"} build={"ok" if rcb == 0 else "BROKEN"}'
        if ok:
            os.makedirs(dest, exist_ok=True)
            shutil.copy(f'{d}/patch.diff', dest)
            for f in demos:
                shutil.copy(f, dest)
            if os.path.exists(f'{d}/notes.md'):
                shutil.copy(f'{d}/notes.md', dest)
            notes = open(f'{d}/notes.md').read() if os.path.exists(f'{d}/notes.md') else ''
            meta = {
                'id': sid, 'property': sid.split('-')[0],
                'origin': 'fresh sub-agent given only the property text and a scratch worktree of /repo',
                'demo_package': pkgdir, 'demo_files': {os.path.basename(f): where[f] for f in demos},
                'demo_command': f'copy the demo file(s) into {pkgdir}/ and run: go test -vet=off -count=1 -overlay <json blanking the other *_test.go of the package> -run Seeded ./{pkgdir}/',
                'needs_to_manifest': notes[:1500],
                'confirmed': {'scratch_worktree': SCRATCH, 'repo_head': subprocess.check_output(['git', '-C', '/repo', 'rev-parse', '--short', 'HEAD']).decode().strip(),
                              'demo_on_unchanged_tree': 'pass', 'demo_with_patch': 'fail', 'go_build_pkg': 'ok',
                              'tail_of_failing_output': out1[-600:]},
            }
            json.dump(meta, open(f'{dest}/meta.json', 'w'), indent=1)
        print(sid, results[sid], flush=True)
    sh('git checkout -- . && git clean -fdq', cwd=SCRATCH)

main()
