#!/usr/bin/env python3
"""Confirms seeded changes delivered by the independent sub-agents in a scratch
worktree of /repo (demo passes without the patch, fails with it) and files the
confirmed ones under /verif/seeded/<id>/ (patch.diff, demo, meta.json)."""
import glob, json, os, re, shutil, subprocess, sys

SCRATCH = '/tmp/seedcheck'
ENV = dict(os.environ, GOFLAGS='-mod=mod', GOPROXY='off')
for k in ('GOTOOLCHAIN',):
    ENV.pop(k, None)

def sh(cmd, cwd=None, timeout=900):
    p = subprocess.run(cmd, shell=True, cwd=cwd, env=ENV, capture_output=True, text=True, timeout=timeout)
    return p.returncode, p.stdout + p.stderr

def ensure_scratch():
    if not os.path.isdir(SCRATCH):
        rc, out = sh(f'git -C /repo worktree add -q --detach {SCRATCH} HEAD')
        assert rc == 0, out
    sh('git checkout -q --detach $(git -C /repo rev-parse HEAD) && git checkout -- . && git clean -fdq', cwd=SCRATCH)

def pkgdir_of(d):
    # from any overlay json in the dir: directory of the masked test files
    for f in glob.glob(os.path.join(d, 'overlay*.json')):
        keys = list(json.load(open(f))['Replace'].keys())
        if keys:
            m = re.match(r'/tmp/mut-g\d+/(.*)/[^/]+$', keys[0])
            if m:
                return m.group(1)
    # from notes
    notes = open(os.path.join(d, 'notes.md')).read() if os.path.exists(os.path.join(d, 'notes.md')) else ''
    m = re.search(r'\./(pkg/[\w/]+)/', notes)
    return m.group(1) if m else None

def run_demo(pkgdir):
    full = os.path.join(SCRATCH, pkgdir)
    repl = {}
    for f in os.listdir(full):
        if f.endswith('_test.go') and not f.startswith('zz_seeded'):
            repl[os.path.join(full, f)] = ''
    ov = '/tmp/seedcheck-overlay.json'
    json.dump({'Replace': repl}, open(ov, 'w'))
    return sh(f'go test -vet=off -count=1 -timeout 300s -overlay {ov} -run Seeded ./{pkgdir}/', cwd=SCRATCH)

def main():
    ensure_scratch()
    results = {}
    dirs = sorted(glob.glob('/tmp/mutout-g*/C[0-9][0-9]-[0-9]'))
    only = sys.argv[1:]
    for d in dirs:
        sid = os.path.basename(d)
        if only and sid not in only:
            continue
        dest = f'/verif/seeded/{sid}'
        if os.path.exists(os.path.join(dest, 'meta.json')) and not only:
            continue
        sh('git checkout -- . && git clean -fdq', cwd=SCRATCH)
        pkgdir = pkgdir_of(d)
        demos = glob.glob(os.path.join(d, 'zz_seeded*_test.go'))
        if not pkgdir or not demos:
            results[sid] = 'no pkgdir/demo'
            continue
        rc, out = sh(f'git apply --check {d}/patch.diff', cwd=SCRATCH)
        if rc != 0:
            results[sid] = 'patch does not apply: ' + out[-200:]
            continue
        for f in demos:
            shutil.copy(f, os.path.join(SCRATCH, pkgdir))
        rc0, out0 = run_demo(pkgdir)
        sh(f'git apply {d}/patch.diff', cwd=SCRATCH)
        rcb, outb = sh('go build ./pkg/...', cwd=SCRATCH)
        rc1, out1 = run_demo(pkgdir)
        ok = rc0 == 0 and rc1 != 0 and rcb == 0
        results[sid] = f'unchanged={"pass" if rc0 == 0 else "FAIL"} patched={"fail" if rc1 != 0 else "PASS"} build={"ok" if rcb == 0 else "BROKEN"}'
        if ok:
            os.makedirs(dest, exist_ok=True)
            shutil.copy(f'{d}/patch.diff', dest)
            for f in demos:
                shutil.copy(f, dest)
            if os.path.exists(f'{d}/notes.md'):
                shutil.copy(f'{d}/notes.md', dest)
            notes = open(f'{d}/notes.md').read() if os.path.exists(f'{d}/notes.md') else ''
            meta = {
                'id': sid, 'property': sid.split('-')[0],
                'origin': 'fresh sub-agent given only the property text and a scratch worktree of /repo',
                'demo_package': pkgdir, 'demo_files': [os.path.basename(f) for f in demos],
                'demo_command': f'copy the demo file(s) into {pkgdir}/ and run: go test -vet=off -count=1 -overlay <json blanking the other *_test.go of the package> -run Seeded ./{pkgdir}/',
                'needs_to_manifest': notes[:1500],
                'confirmed': {'scratch_worktree': SCRATCH, 'repo_head': subprocess.check_output(['git', '-C', '/repo', 'rev-parse', '--short', 'HEAD']).decode().strip(),
                              'demo_on_unchanged_tree': 'pass', 'demo_with_patch': 'fail', 'go_build_pkg': 'ok',
                              'tail_of_failing_output': out1[-600:]},
            }
            json.dump(meta, open(f'{dest}/meta.json', 'w'), indent=1)
        print(sid, results[sid], flush=True)
    sh('git checkout -- . && git clean -fdq', cwd=SCRATCH)

main()
