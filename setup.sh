#!/bin/sh
# builds the symbolic executor offline (x/tools v0.50.0 from the module cache, go1.26.8)
set -e
cd "$(dirname "$0")/engine"
mkdir -p ../bin
GOFLAGS=-mod=mod GOPROXY=off GOTOOLCHAIN=local go1.26.8 build -o ../bin/symgo .
echo "symgo built"
