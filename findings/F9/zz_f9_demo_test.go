package local

// Demonstration of finding F9 against the REAL assembled in-memory store
// (flat access, old/current/new location map, volatile block list, hashing
// index): a composite read whose parent needs no refresh releases the lock
// while slicing; if an upload by another goroutine rotates the block list in
// the meantime, the slice index entries are written with the parent's STALE
// relative block index, and later composite reads of the children return
// bytes of another object.
//
// Run (from /repo): see /verif/findings/F9/run.sh

import (
	"bytes"
	"context"
	"sync"
	"testing"

	remoteexecution "github.com/bazelbuild/remote-apis/build/bazel/remote/execution/v2"
	"github.com/buildbarn/bb-storage/pkg/blobstore/buffer"
	"github.com/buildbarn/bb-storage/pkg/blobstore/slicing"
	"github.com/buildbarn/bb-storage/pkg/digest"
)

type f9Logger struct{ errs []error }

func (l *f9Logger) Log(err error) { l.errs = append(l.errs, err) }

func f9Blob(seed byte, n int) []byte {
	b := make([]byte, n)
	for i := range b {
		b[i] = seed*16 + byte(i)
	}
	return b
}

func f9Digest(data []byte) digest.Digest {
	g := digest.MustNewFunction("", remoteexecution.DigestFunction_MD5).NewGenerator(int64(len(data)))
	g.Write(data)
	return g.Sum()
}

// f9Slicer cuts the parent in two halves; while it works (the store's lock is
// released) it lets the uploader goroutine run.
type f9Slicer struct {
	slicing, resume chan struct{}
}

func (s *f9Slicer) Slice(b buffer.Buffer, childDigest digest.Digest) (buffer.Buffer, []slicing.BlobSlice) {
	parent, err := b.ToByteSlice(1 << 20)
	if err != nil {
		return buffer.NewBufferFromError(err), nil
	}
	if s.slicing != nil {
		close(s.slicing) // slicing in progress ...
		<-s.resume       // ... and it takes a while
	}
	half := int64(len(parent) / 2)
	slices := []slicing.BlobSlice{
		{Digest: f9Digest(parent[:half]), OffsetBytes: 0, SizeBytes: half},
		{Digest: f9Digest(parent[half:]), OffsetBytes: half, SizeBytes: half},
	}
	for _, sl := range slices {
		if sl.Digest == childDigest {
			return buffer.NewValidatedBufferFromByteSlice(parent[sl.OffsetBytes : sl.OffsetBytes+sl.SizeBytes]), slices
		}
	}
	return buffer.NewBufferFromError(nil), slices
}

func TestF9CompositeReadDuringRotation(t *testing.T) {
	const blockSize = 16
	logger := &f9Logger{}
	blockList := NewVolatileBlockList(NewInMemoryBlockAllocator(blockSize))
	lbm := NewOldCurrentNewLocationBlobMap(blockList, NewMutableBlockListGrowthPolicy(1), logger, "f9", blockSize, 2, 1, 0)
	klm := NewHashingKeyLocationMap(NewInMemoryLocationRecordArray(101, lbm), 101, 42, 16, 64, "f9")
	var lock sync.RWMutex
	ba := NewFlatBlobAccess(klm, lbm, digest.KeyWithoutInstance, &lock, "f9", nil)
	ctx := context.Background()
	put := func(data []byte) {
		d := f9Digest(data)
		if err := ba.Put(ctx, d, buffer.NewCASBufferFromByteSlice(d, data, buffer.UserProvided)); err != nil {
			t.Fatalf("Put: %v", err)
		}
	}

	x1, x2, x3, parent, other := f9Blob(1, 16), f9Blob(2, 16), f9Blob(3, 16), f9Blob(4, 16), f9Blob(5, 16)
	for _, b := range [][]byte{x1, x2, x3, parent} {
		put(b)
	}
	// The parent is the newest object: it needs no refresh.
	children := [][]byte{parent[:8], parent[8:]}

	// A composite read slices the parent; while it does, another client uploads an object.
	s := &f9Slicer{slicing: make(chan struct{}), resume: make(chan struct{})}
	done := make(chan struct{})
	go func() {
		<-s.slicing
		put(other)
		close(s.resume)
		close(done)
	}()
	got, err := ba.GetFromComposite(ctx, f9Digest(parent), f9Digest(children[1]), s).ToByteSlice(100)
	<-done
	if err != nil || !bytes.Equal(got, children[1]) {
		t.Fatalf("first composite read: %x, %v", got, err)
	}

	// Later composite reads of the children are served from the recorded slices.
	s2 := &f9Slicer{}
	for i, want := range children {
		got, err := ba.GetFromComposite(ctx, f9Digest(parent), f9Digest(want), s2).ToByteSlice(100)
		if err != nil {
			t.Errorf("composite read of child %d failed: %v", i, err)
		} else if !bytes.Equal(got, want) {
			t.Errorf("composite read of child %d returned %x, want %x (the same range of the OTHER upload is %x)", i, got, want, other[i*8:i*8+8])
		}
	}
	if len(logger.errs) > 0 {
		t.Errorf("store logged errors on an uncorrupted medium: %v", logger.errs)
	}
}
