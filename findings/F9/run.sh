#!/bin/sh
# Runs the F9 demonstration against the working tree of /repo (or $1) without modifying it.
REPO=${1:-/repo}
D=$(cd "$(dirname "$0")" && pwd)
OV=$(mktemp)
python3 - "$REPO" "$D" > "$OV" <<'PY'
import json, os, sys
repo, d = sys.argv[1], sys.argv[2]
pkg = os.path.join(repo, 'pkg/blobstore/local')
repl = {os.path.join(pkg, f): '' for f in os.listdir(pkg) if f.endswith('_test.go')}
repl[os.path.join(pkg, 'zz_f9_demo_test.go')] = os.path.join(d, 'zz_f9_demo_test.go')
print(json.dumps({'Replace': repl}))
PY
cd "$REPO" && env -u GOTOOLCHAIN GOFLAGS=-mod=mod GOPROXY=off go test -vet=off -count=1 -timeout 120s -overlay "$OV" -run TestF9 ./pkg/blobstore/local/
rc=$?
rm -f "$OV"
exit $rc
