package main

import (
	"crypto/sha256"
	"fmt"
	"go/types"
	"math/bits"
	"sort"
	"strings"

	"golang.org/x/tools/go/ssa"
)

type intrinsic func(in *Interp, fr *frame, args []Value) Value

const ndPkg = "github.com/buildbarn/bb-storage/internal/verifnd"

var intrinsics = map[string]intrinsic{}

// prefixIntrinsics match on a prefix of the (origin) function name.
var prefixIntrinsics = []struct {
	prefix string
	f      intrinsic
}{}

func reg(name string, f intrinsic) { intrinsics[name] = f }

func (e *Engine) intrinsicFor(fn *ssa.Function) intrinsic {
	if f, ok := e.intrCache.Load(fn); ok {
		if f == nil {
			return nil
		}
		return f.(intrinsic)
	}
	name := fn.String()
	if o := fn.Origin(); o != nil {
		name = o.String()
	}
	var res intrinsic
	if f, ok := intrinsics[name]; ok {
		res = f
	} else {
		for _, p := range prefixIntrinsics {
			if strings.HasPrefix(name, p.prefix) {
				res = p.f
				break
			}
		}
	}
	if res == nil {
		res = e.protoEnumString(fn)
	}
	if res == nil {
		e.intrCache.Store(fn, nil)
		return nil
	}
	e.intrCache.Store(fn, res)
	e.usedIntrinsics.Store(name, true)
	return res
}

// protoEnumString models the String method of generated protobuf enums (which goes
// through descriptor reflection) by a lookup in the generated <Type>_name table.
func (e *Engine) protoEnumString(fn *ssa.Function) intrinsic {
	if fn.Name() != "String" || fn.Signature.Recv() == nil || fn.Pkg == nil {
		return nil
	}
	named, ok := fn.Signature.Recv().Type().(*types.Named)
	if !ok {
		return nil
	}
	if b, ok := named.Underlying().(*types.Basic); !ok || b.Kind() != types.Int32 {
		return nil
	}
	g, ok := fn.Pkg.Members[named.Obj().Name()+"_name"].(*ssa.Global)
	if !ok {
		return nil
	}
	return func(in *Interp, fr *frame, a []Value) Value {
		m, _ := (*in.globalAddr(g)).(*Map)
		i := in.mapFind(m, types.Typ[types.Int32], a[0])
		if i < 0 {
			v := a[0].(*Term)
			if v.IsConst() {
				return Str{s: fmt.Sprint(int32(v.c))}
			}
			return Str{s: "<sym>"}
		}
		return m.vals[i]
	}
}

func (in *Interp) fresh(prefix string, w int) *Term {
	if in.concrete != nil {
		// concrete re-execution of a recorded counterexample: inputs are the model's values
		var v uint64
		if in.concretePos < len(in.concrete) {
			v = in.concrete[in.concretePos]
		}
		in.concretePos++
		t := in.ts.Const(w, v)
		in.inputs = append(in.inputs, t)
		return t
	}
	in.nvar++
	t := in.ts.Var(fmt.Sprintf("%s_%d", prefix, in.nvar), w)
	in.inputs = append(in.inputs, t)
	return t
}

// freshHidden creates a symbolic value that is not a harness input (environment nondeterminism
// such as random numbers); it does not appear in replay files.
func (in *Interp) freshHidden(prefix string, w int) *Term {
	if in.concrete != nil {
		var v uint64
		if len(in.hidden) < len(in.concreteHidden) {
			v = in.concreteHidden[len(in.hidden)]
		}
		t := in.ts.Const(w, v)
		in.hidden = append(in.hidden, t)
		return t
	}
	in.nvar++
	t := in.ts.Var(fmt.Sprintf("%s_%d", prefix, in.nvar), w)
	in.hidden = append(in.hidden, t)
	return t
}

func (in *Interp) argStr(v Value) string {
	s := v.(Str)
	if !s.Concrete() {
		unsupported("symbolic string where a concrete one is required")
	}
	return s.GoString()
}

func ptrKey(v Value) *Value {
	p, ok := v.(*Value)
	if !ok {
		unsupported("modelled object addressed through %T", v)
	}
	return p
}

func init() {
	// ---- nondeterminism API ----
	reg(ndPkg+".U8", func(in *Interp, fr *frame, a []Value) Value { return in.fresh("u8", 8) })
	reg(ndPkg+".U16", func(in *Interp, fr *frame, a []Value) Value { return in.fresh("u16", 16) })
	reg(ndPkg+".U32", func(in *Interp, fr *frame, a []Value) Value { return in.fresh("u32", 32) })
	reg(ndPkg+".U64", func(in *Interp, fr *frame, a []Value) Value { return in.fresh("u64", 64) })
	reg(ndPkg+".I64", func(in *Interp, fr *frame, a []Value) Value { return in.fresh("i64", 64) })
	reg(ndPkg+".I32", func(in *Interp, fr *frame, a []Value) Value { return in.fresh("i32", 32) })
	reg(ndPkg+".Bool", func(in *Interp, fr *frame, a []Value) Value {
		v := in.fresh("b", 8)
		in.assume(in.ts.Cmp(OpBvULe, v, in.ts.Const(8, 1)))
		return in.ts.Eq(v, in.ts.Const(8, 1))
	})
	reg(ndPkg+".Int", func(in *Interp, fr *frame, a []Value) Value {
		lo, hi := a[0].(*Term), a[1].(*Term)
		v := in.fresh("i", 64)
		in.assume(in.ts.Cmp(OpBvSLe, lo, v))
		in.assume(in.ts.Cmp(OpBvSLe, v, hi))
		return v
	})
	reg(ndPkg+".Choose", func(in *Interp, fr *frame, a []Value) Value {
		n := int(in.concInt(a[0]))
		// recorded as an input too so that native replay follows the same choice
		c := in.choose("ch", n)
		t := in.ts.Const(64, uint64(c))
		in.inputs = append(in.inputs, t)
		if in.concrete != nil {
			in.concretePos++
		}
		return t
	})
	reg(ndPkg+".Concrete", func(in *Interp, fr *frame, a []Value) Value {
		t := a[0].(*Term)
		return in.ts.Const(t.w, in.concretize(t))
	})
	reg(ndPkg+".Bytes", func(in *Interp, fr *frame, a []Value) Value {
		n := int(in.concInt(a[0]))
		out := make([]Value, n)
		for i := range out {
			out[i] = in.fresh("by", 8)
		}
		return Slice{a: out}
	})
	reg(ndPkg+".Assume", func(in *Interp, fr *frame, a []Value) Value {
		in.assume(a[0].(*Term))
		return nil
	})
	reg(ndPkg+".Assert", func(in *Interp, fr *frame, a []Value) Value {
		in.assertProp(fr, a[0].(*Term), in.argStr(a[1]))
		return nil
	})
	reg(ndPkg+".And", func(in *Interp, fr *frame, a []Value) Value { return in.ts.And(a[0].(*Term), a[1].(*Term)) })
	reg(ndPkg+".Or", func(in *Interp, fr *frame, a []Value) Value { return in.ts.Or(a[0].(*Term), a[1].(*Term)) })
	reg(ndPkg+".Not", func(in *Interp, fr *frame, a []Value) Value { return in.ts.Not(a[0].(*Term)) })
	reg(ndPkg+".Implies", func(in *Interp, fr *frame, a []Value) Value {
		return in.ts.Implies(a[0].(*Term), a[1].(*Term))
	})
	reg(ndPkg+".Iff", func(in *Interp, fr *frame, a []Value) Value { return in.ts.Eq(a[0].(*Term), a[1].(*Term)) })
	ite := func(in *Interp, fr *frame, a []Value) Value {
		return in.ts.Ite(a[0].(*Term), a[1].(*Term), a[2].(*Term))
	}
	reg(ndPkg+".Ite", ite)
	reg(ndPkg+".IteInt", ite)
	reg(ndPkg+".IteU8", ite)
	reg(ndPkg+".IteBool", ite)
	reg(ndPkg+".UF", func(in *Interp, fr *frame, a []Value) Value {
		name := in.argStr(a[0])
		var targs []*Term
		for _, v := range a[1].(Slice).a {
			targs = append(targs, v.(*Term))
		}
		t := in.ts.UF("uf_"+name, 64, targs...)
		if t.op == OpUF {
			seen := false
			for _, u := range in.ufApps {
				if u == t {
					seen = true
				}
			}
			if !seen {
				in.ufApps = append(in.ufApps, t)
			}
		}
		return t
	})
	reg(ndPkg+".Cover", func(in *Interp, fr *frame, a []Value) Value {
		in.res.Covers[in.argStr(a[0])] = true
		return nil
	})
	reg(ndPkg+".Observe", func(in *Interp, fr *frame, a []Value) Value {
		var vs []*Term
		for _, v := range a[1].(Slice).a {
			vs = append(vs, v.(*Term))
		}
		in.obs = append(in.obs, obsRec{tag: in.argStr(a[0]), vals: vs})
		return nil
	})
	reg(ndPkg+".ObserveBytes", func(in *Interp, fr *frame, a []Value) Value {
		var vs []*Term
		for _, v := range a[1].(Slice).a {
			vs = append(vs, in.ts.Resize(v.(*Term), 64, false))
		}
		in.obs = append(in.obs, obsRec{tag: in.argStr(a[0]), vals: vs})
		return nil
	})
	reg(ndPkg+".Unreachable", func(in *Interp, fr *frame, a []Value) Value {
		in.assertProp(fr, in.ts.Bool(false), "reached Unreachable: "+in.argStr(a[0]))
		return nil
	})
	reg(ndPkg+".ExploreSchedules", func(in *Interp, fr *frame, a []Value) Value {
		in.explore = a[0].(*Term).c != 0
		if in.preemptionBound == 0 {
			in.preemptionBound = 2
		}
		return nil
	})
	reg(ndPkg+".ExploreMapOrders", func(in *Interp, fr *frame, a []Value) Value {
		in.mapOrders = a[0].(*Term).c != 0
		return nil
	})
	reg(ndPkg+".PreemptionBound", func(in *Interp, fr *frame, a []Value) Value {
		in.preemptionBound = int(in.concInt(a[0]))
		return nil
	})
	reg(ndPkg+".ExpectPanic", func(in *Interp, fr *frame, a []Value) Value {
		in.expectPanic = in.argStr(a[0])
		return nil
	})
	reg(ndPkg+".Symbolic", func(in *Interp, fr *frame, a []Value) Value { return in.ts.Bool(true) })
	reg(ndPkg+".Yield", func(in *Interp, fr *frame, a []Value) Value {
		in.schedPoint("yield")
		return nil
	})
	reg(ndPkg+".Ghost", func(in *Interp, fr *frame, a []Value) Value {
		name := in.argStr(a[0])
		if t, ok := in.ghost[name]; ok {
			return t
		}
		return in.ts.Const(64, 0)
	})
	reg(ndPkg+".SymString", func(in *Interp, fr *frame, a []Value) Value {
		n := int(in.concInt(a[0]))
		if n == 0 {
			return Str{}
		}
		out := make([]*Term, n)
		for i := range out {
			out[i] = in.fresh("sb", 8)
		}
		return Str{b: out}
	})

	// ---- sync ----
	lock := func(write bool) intrinsic {
		return func(in *Interp, fr *frame, a []Value) Value {
			in.schedPoint("lock")
			p := ptrKey(a[0])
			m := in.mutexes[p]
			if m == nil {
				m = &mutexState{}
				in.mutexes[p] = m
			}
			if write {
				in.block("mutex lock", func() bool { return !m.writer && m.readers == 0 })
				m.writer = true
			} else {
				in.block("mutex rlock", func() bool { return !m.writer })
				m.readers++
			}
			return nil
		}
	}
	unlock := func(write bool) intrinsic {
		return func(in *Interp, fr *frame, a []Value) Value {
			p := ptrKey(a[0])
			m := in.mutexes[p]
			if m == nil {
				m = &mutexState{}
				in.mutexes[p] = m
			}
			if write {
				if !m.writer {
					in.goPanic("sync: unlock of unlocked mutex")
				}
				m.writer = false
			} else {
				if m.readers == 0 {
					in.goPanic("sync: RUnlock of unlocked RWMutex")
				}
				m.readers--
			}
			in.schedPoint("unlock")
			return nil
		}
	}
	reg("(*sync.Mutex).Lock", lock(true))
	reg("(*sync.Mutex).Unlock", unlock(true))
	reg("(*sync.Mutex).TryLock", func(in *Interp, fr *frame, a []Value) Value {
		p := ptrKey(a[0])
		m := in.mutexes[p]
		if m == nil {
			m = &mutexState{}
			in.mutexes[p] = m
		}
		if m.writer || m.readers > 0 {
			return in.ts.Bool(false)
		}
		m.writer = true
		return in.ts.Bool(true)
	})
	reg("(*sync.RWMutex).TryLock", func(in *Interp, fr *frame, a []Value) Value {
		p := ptrKey(a[0])
		m := in.mutexes[p]
		if m == nil {
			m = &mutexState{}
			in.mutexes[p] = m
		}
		if m.writer || m.readers > 0 {
			return in.ts.Bool(false)
		}
		m.writer = true
		return in.ts.Bool(true)
	})
	reg("(*sync.RWMutex).Lock", lock(true))
	reg("(*sync.RWMutex).Unlock", unlock(true))
	reg("(*sync.RWMutex).RLock", lock(false))
	reg("(*sync.RWMutex).RUnlock", unlock(false))
	reg("(*sync.Once).Do", func(in *Interp, fr *frame, a []Value) Value {
		p := ptrKey(a[0])
		if in.onces[p] {
			return nil
		}
		in.onces[p] = true
		in.call(fr, 0, a[1], nil)
		return nil
	})
	// sync.Pool: no pooling — Get always calls New (a legal behaviour of a pool)
	reg("(*sync.Pool).Get", func(in *Interp, fr *frame, a []Value) Value {
		st := (*in.ptrDeref(a[0])).(Struct)
		newFn := st[len(st)-1]
		if isNilFunc(newFn) {
			return Iface{}
		}
		return in.call(fr, 0, newFn, nil)
	})
	reg("(*sync.Pool).Put", func(in *Interp, fr *frame, a []Value) Value { return nil })
	// WaitGroup: counter kept in engine
	reg("(*sync.WaitGroup).Add", func(in *Interp, fr *frame, a []Value) Value {
		p := ptrKey(a[0])
		c, _ := in.extra["wg"].(map[*Value]int64)
		if c == nil {
			c = map[*Value]int64{}
			in.extra["wg"] = c
		}
		c[p] += in.concInt(a[1])
		if c[p] < 0 {
			in.goPanic("sync: negative WaitGroup counter")
		}
		return nil
	})
	reg("(*sync.WaitGroup).Done", func(in *Interp, fr *frame, a []Value) Value {
		p := ptrKey(a[0])
		c, _ := in.extra["wg"].(map[*Value]int64)
		if c == nil {
			c = map[*Value]int64{}
			in.extra["wg"] = c
		}
		c[p]--
		if c[p] < 0 {
			in.goPanic("sync: negative WaitGroup counter")
		}
		in.schedPoint("wg.Done")
		return nil
	})
	reg("(*sync.WaitGroup).Wait", func(in *Interp, fr *frame, a []Value) Value {
		p := ptrKey(a[0])
		in.block("WaitGroup.Wait", func() bool {
			c, _ := in.extra["wg"].(map[*Value]int64)
			return c == nil || c[p] == 0
		})
		return nil
	})

	// ---- sync/atomic (single baton: plain operations) ----
	atomicField := func(in *Interp, p Value) *Value {
		// atomic.Int32 etc: struct{ _ noCopy; [_ align64;] v T }
		st := (*in.ptrDeref(p)).(Struct)
		return &st[len(st)-1]
	}
	for _, T := range []string{"Int32", "Int64", "Uint32", "Uint64"} {
		T := T
		reg("(*sync/atomic."+T+").Load", func(in *Interp, fr *frame, a []Value) Value {
			in.schedPoint("atomic")
			return *atomicField(in, a[0])
		})
		reg("(*sync/atomic."+T+").Store", func(in *Interp, fr *frame, a []Value) Value {
			in.schedPoint("atomic")
			*atomicField(in, a[0]) = a[1]
			return nil
		})
		reg("(*sync/atomic."+T+").Add", func(in *Interp, fr *frame, a []Value) Value {
			in.schedPoint("atomic")
			f := atomicField(in, a[0])
			*f = in.ts.BinBV(OpBvAdd, (*f).(*Term), a[1].(*Term))
			return *f
		})
		reg("(*sync/atomic."+T+").Swap", func(in *Interp, fr *frame, a []Value) Value {
			in.schedPoint("atomic")
			f := atomicField(in, a[0])
			old := *f
			*f = a[1]
			return old
		})
		reg("(*sync/atomic."+T+").CompareAndSwap", func(in *Interp, fr *frame, a []Value) Value {
			in.schedPoint("atomic")
			f := atomicField(in, a[0])
			eq := in.ts.Eq((*f).(*Term), a[1].(*Term))
			if in.decide(eq) {
				*f = a[2]
				return in.ts.Bool(true)
			}
			return in.ts.Bool(false)
		})
	}
	reg("(*sync/atomic.Bool).Load", func(in *Interp, fr *frame, a []Value) Value {
		f := atomicField(in, a[0])
		return in.ts.Not(in.ts.Eq((*f).(*Term), in.ts.Const(32, 0)))
	})
	reg("(*sync/atomic.Bool).Store", func(in *Interp, fr *frame, a []Value) Value {
		f := atomicField(in, a[0])
		*f = in.ts.Ite(a[1].(*Term), in.ts.Const(32, 1), in.ts.Const(32, 0))
		return nil
	})
	for _, fn := range []string{"Int32", "Int64", "Uint32", "Uint64"} {
		reg("sync/atomic.Load"+fn, func(in *Interp, fr *frame, a []Value) Value { return in.load(a[0]) })
		reg("sync/atomic.Store"+fn, func(in *Interp, fr *frame, a []Value) Value { in.store(a[0], a[1]); return nil })
		reg("sync/atomic.Add"+fn, func(in *Interp, fr *frame, a []Value) Value {
			v := in.ts.BinBV(OpBvAdd, in.load(a[0]).(*Term), a[1].(*Term))
			in.store(a[0], v)
			return v
		})
		reg("sync/atomic.CompareAndSwap"+fn, func(in *Interp, fr *frame, a []Value) Value {
			cur := in.load(a[0]).(*Term)
			if in.decide(in.ts.Eq(cur, a[1].(*Term))) {
				in.store(a[0], a[2])
				return in.ts.Bool(true)
			}
			return in.ts.Bool(false)
		})
	}

	// ---- fmt / log: native when concrete, placeholder otherwise ----
	reg("fmt.Sprintf", func(in *Interp, fr *frame, a []Value) Value {
		return Str{s: in.sprintf(in.argStrLoose(a[0]), a[1].(Slice).a)}
	})
	reg("fmt.Errorf", func(in *Interp, fr *frame, a []Value) Value {
		msg := in.sprintf(in.argStrLoose(a[0]), a[1].(Slice).a)
		return in.newErrorString(msg)
	})
	reg("fmt.Sprint", func(in *Interp, fr *frame, a []Value) Value {
		var parts []string
		for _, v := range a[0].(Slice).a {
			parts = append(parts, in.fmtArg(v, 'v'))
		}
		return Str{s: strings.Join(parts, "")}
	})
	for _, n := range []string{"log.Print", "log.Printf", "log.Println", "fmt.Printf", "fmt.Println", "fmt.Print", "fmt.Fprintf", "fmt.Fprintln"} {
		reg(n, func(in *Interp, fr *frame, a []Value) Value {
			if fr.fn.Signature.Results().Len() == 2 {
				return Tuple{in.ts.Const(64, 0), Iface{}}
			}
			return nil
		})
	}
	reg("log.Fatal", func(in *Interp, fr *frame, a []Value) Value { in.goPanic("log.Fatal called"); return nil })
	reg("log.Fatalf", func(in *Interp, fr *frame, a []Value) Value { in.goPanic("log.Fatalf called"); return nil })

	// ---- errors.As / errors.Is helpers that use reflection ----
	reg("errors.As", func(in *Interp, fr *frame, a []Value) Value {
		err := a[0].(Iface)
		target := a[1].(Iface)
		pt, ok := target.t.(*types.Pointer)
		if !ok {
			unsupported("errors.As target %s", target.t)
		}
		want := pt.Elem()
		slot := in.ptrDeref(target.v)
		for depth := 0; err.t != nil && depth < 16; depth++ {
			if wi, isI := want.Underlying().(*types.Interface); isI {
				if types.Implements(err.t, wi) {
					*slot = err
					return in.ts.Bool(true)
				}
			} else if types.Identical(err.t, want) {
				*slot = copyVal(err.v)
				return in.ts.Bool(true)
			}
			// As method is ignored (not used by modelled code); follow Unwrap
			m := in.findMethod(err.t, nil, "Unwrap")
			if m == nil || m.Signature.Results().Len() != 1 {
				break
			}
			r := in.callSSA(fr, 0, m, []Value{err.v}, nil)
			next, ok := r.(Iface)
			if !ok {
				break
			}
			err = next
		}
		return in.ts.Bool(false)
	})
	reg("errors.Is", func(in *Interp, fr *frame, a []Value) Value {
		err := a[0].(Iface)
		target := a[1].(Iface)
		if err.t == nil || target.t == nil {
			return in.ts.Bool(err.t == nil && target.t == nil)
		}
		for depth := 0; err.t != nil && depth < 16; depth++ {
			if types.Comparable(target.t) && types.Identical(err.t, target.t) {
				if in.decide(in.equals(err.t, err.v, target.v)) {
					return in.ts.Bool(true)
				}
			}
			if m := in.findMethod(err.t, nil, "Is"); m != nil && m.Signature.Params().Len() == 1 && m.Signature.Results().Len() == 1 {
				r := in.callSSA(fr, 0, m, []Value{err.v, target}, nil)
				if t, ok := r.(*Term); ok && in.decide(t) {
					return in.ts.Bool(true)
				}
			}
			m := in.findMethod(err.t, nil, "Unwrap")
			if m == nil || m.Signature.Results().Len() != 1 {
				break
			}
			r := in.callSSA(fr, 0, m, []Value{err.v}, nil)
			next, ok := r.(Iface)
			if !ok {
				break // Unwrap() []error: not needed by the modelled code
			}
			err = next
		}
		return in.ts.Bool(false)
	})
	reg("internal/reflectlite.TypeOf", func(in *Interp, fr *frame, a []Value) Value {
		unsupported("reflectlite.TypeOf")
		return nil
	})

	// ---- protobuf helpers ----
	reg("google.golang.org/protobuf/proto.Clone", func(in *Interp, fr *frame, a []Value) Value {
		m := a[0].(Iface)
		if m.t == nil {
			return m
		}
		p, ok := m.v.(*Value)
		if !ok {
			unsupported("proto.Clone of %T", m.v)
		}
		if p == nil {
			return m
		}
		return Iface{t: m.t, v: in.deepCopyPtr(p)}
	})

	// proto.Equal on generated message structs: field-wise comparison of the exported
	// (= protobuf) fields; scalars may be symbolic (the verdict is then a term).
	reg("google.golang.org/protobuf/proto.Equal", func(in *Interp, fr *frame, a []Value) Value {
		x, y := a[0].(Iface), a[1].(Iface)
		if x.t == nil || y.t == nil {
			return in.ts.Bool(x.t == nil && y.t == nil)
		}
		if !types.Identical(x.t, y.t) {
			return in.ts.Bool(false)
		}
		return in.protoEqual(x.t, x.v, y.v)
	})

	reg("github.com/buildbarn/bb-storage/pkg/util.DecimalExponentialBuckets", func(in *Interp, fr *frame, a []Value) Value {
		return Slice{nil: true} // histogram bucket boundaries: metrics only
	})

	// ---- crypto on concrete input: run natively ----
	reg("crypto/sha256.Sum256", func(in *Interp, fr *frame, a []Value) Value {
		data := in.concBytes(a[0])
		sum := sha256.Sum256(data)
		out := make(Array, len(sum))
		for i, b := range sum {
			out[i] = in.ts.Const(8, uint64(b))
		}
		return out
	})

	// ---- sort.Slice / SliceStable: real pdqsort from source, native swapper ----
	sortSlice := func(stable bool) intrinsic {
		return func(in *Interp, fr *frame, a []Value) Value {
			sl, ok := a[0].(Iface).v.(Slice)
			if !ok {
				unsupported("sort.Slice on %T", a[0].(Iface).v)
			}
			elems := sl.a
			swap := &nativeFunc{name: "swapper", f: func(in *Interp, caller *frame, args []Value) Value {
				i, j := in.concInt(args[0]), in.concInt(args[1])
				elems[i], elems[j] = elems[j], elems[i]
				return nil
			}}
			ls := Struct{a[1], swap}
			pkg := in.eng.pkgByPath["sort"]
			n := in.ts.Const(64, uint64(len(elems)))
			if stable {
				in.callSSA(fr, 0, pkg.Func("stable_func"), []Value{ls, n}, nil)
			} else {
				limit := in.ts.Const(64, uint64(bits.Len(uint(len(elems)))))
				in.callSSA(fr, 0, pkg.Func("pdqsort_func"), []Value{ls, in.ts.Const(64, 0), n, limit}, nil)
			}
			return nil
		}
	}
	reg("sort.Slice", sortSlice(false))
	reg("sort.SliceStable", sortSlice(true))

	// ---- strings.Builder (uses unsafe to alias its buffer) ----
	reg("(*strings.Builder).copyCheck", func(in *Interp, fr *frame, a []Value) Value { return nil })
	reg("(*strings.Builder).String", func(in *Interp, fr *frame, a []Value) Value {
		st := (*in.ptrDeref(a[0])).(Struct)
		buf := st[1].(Slice)
		if len(buf.a) == 0 {
			return Str{}
		}
		out := make([]*Term, len(buf.a))
		for i, e := range buf.a {
			out[i] = e.(*Term)
		}
		return in.normStr(Str{b: out})
	})
	reg("internal/bytealg.MakeNoZero", func(in *Interp, fr *frame, a []Value) Value {
		n := in.concInt(a[0])
		sl := make([]Value, n)
		z := in.ts.Const(8, 0)
		for i := range sl {
			sl[i] = z
		}
		return Slice{a: sl}
	})
	reg("internal/abi.NoEscape", func(in *Interp, fr *frame, a []Value) Value { return a[0] })
	reg("internal/abi.Escape", func(in *Interp, fr *frame, a []Value) Value { return a[0] })

	reg("github.com/buildbarn/bb-storage/pkg/blobstore/local.unixTime", func(in *Interp, fr *frame, a []Value) Value {
		return float64(0) // wall-clock time: only feeds a metrics gauge
	})

	// ---- randomness: arbitrary values ----
	reg("(github.com/buildbarn/bb-storage/pkg/random.cryptoSource).Uint64", func(in *Interp, fr *frame, a []Value) Value {
		return in.freshHidden("rand", 64)
	})

	// ---- time ----
	reg("time.Now", func(in *Interp, fr *frame, a []Value) Value {
		return in.zero(fr.fn.Signature.Results().At(0).Type()) // real time only feeds metrics; clocks that matter are harness stubs
	})
	reg("time.Since", func(in *Interp, fr *frame, a []Value) Value { return in.ts.Const(64, 0) })
	reg("time.Until", func(in *Interp, fr *frame, a []Value) Value { return in.ts.Const(64, 0) })
	reg("time.Sleep", func(in *Interp, fr *frame, a []Value) Value { in.schedPoint("sleep"); return nil })

	// ---- runtime-ish ----
	reg("runtime.Gosched", func(in *Interp, fr *frame, a []Value) Value { in.schedPoint("gosched"); return nil })
	reg("runtime.SetFinalizer", func(in *Interp, fr *frame, a []Value) Value { return nil })
	reg("runtime.KeepAlive", func(in *Interp, fr *frame, a []Value) Value { return nil })
	reg("internal/race.Enabled", nil)
	reg("internal/bytealg.IndexByte", func(in *Interp, fr *frame, a []Value) Value {
		s := a[0].(Slice)
		c := a[1].(*Term)
		return in.indexByteTerms(sliceTerms(s.a), c)
	})
	reg("internal/bytealg.IndexByteString", func(in *Interp, fr *frame, a []Value) Value {
		s := a[0].(Str)
		c := a[1].(*Term)
		ts := make([]*Term, s.Len())
		for i := range ts {
			ts[i] = in.strByte(s, i)
		}
		return in.indexByteTerms(ts, c)
	})
	reg("internal/bytealg.Equal", func(in *Interp, fr *frame, a []Value) Value {
		x, y := a[0].(Slice), a[1].(Slice)
		if len(x.a) != len(y.a) {
			return in.ts.Bool(false)
		}
		acc := in.ts.Bool(true)
		for i := range x.a {
			acc = in.ts.And(acc, in.ts.Eq(x.a[i].(*Term), y.a[i].(*Term)))
		}
		return acc
	})
	reg("bytes.Equal", intrinsics["internal/bytealg.Equal"])
	reg("internal/bytealg.Compare", func(in *Interp, fr *frame, a []Value) Value {
		x, y := sliceTerms(a[0].(Slice).a), sliceTerms(a[1].(Slice).a)
		lt := in.strLess(Str{b: nonNil(x)}, Str{b: nonNil(y)}, false)
		eq := in.strEq(Str{b: nonNil(x)}, Str{b: nonNil(y)})
		ts := in.ts
		return ts.Ite(eq, ts.Const(64, 0), ts.Ite(lt, ts.Const(64, ^uint64(0)), ts.Const(64, 1)))
	})
	reg("bytes.Compare", intrinsics["internal/bytealg.Compare"])
	reg("internal/bytealg.CompareString", func(in *Interp, fr *frame, a []Value) Value {
		x, y := a[0].(Str), a[1].(Str)
		ts := in.ts
		return ts.Ite(in.strEq(x, y), ts.Const(64, 0), ts.Ite(in.strLess(x, y, false), ts.Const(64, ^uint64(0)), ts.Const(64, 1)))
	})
	reg("strings.Compare", intrinsics["internal/bytealg.CompareString"])
	reg("internal/stringslite.HasPrefix", nil)
	delete(intrinsics, "internal/stringslite.HasPrefix")
	delete(intrinsics, "internal/race.Enabled")
	reg("math/bits.Len64", func(in *Interp, fr *frame, a []Value) Value {
		x := a[0].(*Term)
		ts := in.ts
		acc := ts.Const(64, 0)
		for i := 0; i < 64; i++ {
			bit := ts.Not(ts.Eq(ts.BinBV(OpBvAnd, x, ts.Const(64, uint64(1)<<uint(i))), ts.Const(64, 0)))
			acc = ts.Ite(bit, ts.Const(64, uint64(i+1)), acc)
		}
		return acc
	})

	// ---- prometheus: opaque collectors + ghost counters ----
	promNoop := func(in *Interp, fr *frame, a []Value) Value {
		rs := fr.fn.Signature.Results()
		if rs.Len() == 0 {
			return nil
		}
		if rs.Len() == 1 {
			if _, isI := rs.At(0).Type().Underlying().(*types.Interface); isI {
				// opaque collector: every method call on it is a no-op (see prepareCall)
				return Iface{t: types.Typ[types.UnsafePointer], v: promOpaque{}}
			}
		}
		return in.zero(rs)
	}
	prefixIntrinsics = append(prefixIntrinsics, struct {
		prefix string
		f      intrinsic
	}{"github.com/prometheus/client_golang/prometheus.", promNoop})
	prefixIntrinsics = append(prefixIntrinsics, struct {
		prefix string
		f      intrinsic
	}{"(*github.com/prometheus/client_golang/prometheus.", promNoop})
	prefixIntrinsics = append(prefixIntrinsics, struct {
		prefix string
		f      intrinsic
	}{"(github.com/prometheus/client_golang/prometheus.", promNoop})
}

// promOpaque is the dynamic value of metrics collectors handed out by the prometheus model.
type promOpaque struct{}

// concBytes extracts a concrete byte slice (symbolic content is outside what native models accept).
func (in *Interp) concBytes(v Value) []byte {
	s := v.(Slice)
	out := make([]byte, len(s.a))
	for i, e := range s.a {
		t := e.(*Term)
		if !t.IsConst() {
			unsupported("symbolic bytes passed to a natively modelled function")
		}
		out[i] = byte(t.c)
	}
	return out
}

func nonNil(x []*Term) []*Term {
	if x == nil {
		return []*Term{}
	}
	return x
}

func sliceTerms(a []Value) []*Term {
	out := make([]*Term, len(a))
	for i, v := range a {
		out[i] = v.(*Term)
	}
	return out
}

func (in *Interp) indexByteTerms(s []*Term, c *Term) Value {
	ts := in.ts
	acc := ts.Const(64, ^uint64(0))
	for i := len(s) - 1; i >= 0; i-- {
		acc = ts.Ite(ts.Eq(s[i], c), ts.Const(64, uint64(i)), acc)
	}
	return acc
}

func (in *Interp) argStrLoose(v Value) string {
	return v.(Str).GoString()
}

// newErrorString builds an *errors.errorString value through the real errors.New.
func (in *Interp) newErrorString(msg string) Value {
	pkg := in.eng.pkgByPath["errors"]
	if pkg == nil {
		unsupported("package errors not loaded")
	}
	return in.callSSA(nil, 0, pkg.Func("New"), []Value{Str{s: msg}}, nil)
}

// deepCopyPtr clones the object p points to (pointers inside are cloned recursively).
func (in *Interp) deepCopyPtr(p *Value) *Value {
	memo := map[*Value]*Value{}
	return in.deepCopyPtrM(p, memo)
}

func (in *Interp) deepCopyPtrM(p *Value, memo map[*Value]*Value) *Value {
	if p == nil {
		return nil
	}
	if q, ok := memo[p]; ok {
		return q
	}
	q := new(Value)
	memo[p] = q
	*q = in.deepCopyVal(*p, memo)
	return q
}

func (in *Interp) deepCopyVal(v Value, memo map[*Value]*Value) Value {
	switch v := v.(type) {
	case Struct:
		n := make(Struct, len(v))
		for i := range v {
			n[i] = in.deepCopyVal(v[i], memo)
		}
		return n
	case Array:
		n := make(Array, len(v))
		for i := range v {
			n[i] = in.deepCopyVal(v[i], memo)
		}
		return n
	case Slice:
		if v.nil {
			return v
		}
		n := make([]Value, len(v.a))
		for i := range v.a {
			n[i] = in.deepCopyVal(v.a[i], memo)
		}
		return Slice{a: n}
	case *Value:
		return in.deepCopyPtrM(v, memo)
	case Iface:
		if v.t == nil {
			return v
		}
		return Iface{t: v.t, v: in.deepCopyVal(v.v, memo)}
	}
	return v
}

// sprintf formats natively; symbolic arguments print as a placeholder.
func (in *Interp) sprintf(format string, args []Value) string {
	var out strings.Builder
	ai := 0
	for i := 0; i < len(format); i++ {
		ch := format[i]
		if ch != '%' {
			out.WriteByte(ch)
			continue
		}
		j := i + 1
		for j < len(format) && strings.IndexByte("+-# 0123456789.*", format[j]) >= 0 {
			j++
		}
		if j >= len(format) {
			out.WriteString(format[i:])
			break
		}
		verb := format[j]
		if verb == '%' {
			out.WriteByte('%')
			i = j
			continue
		}
		if ai < len(args) {
			spec := format[i : j+1]
			out.WriteString(in.fmtArgSpec(args[ai], spec, verb))
			ai++
		} else {
			out.WriteString("%!" + string(verb) + "(MISSING)")
		}
		i = j
	}
	return out.String()
}

func (in *Interp) fmtArg(v Value, verb byte) string { return in.fmtArgSpec(v, "%"+string(verb), verb) }

func (in *Interp) fmtArgSpec(v Value, spec string, verb byte) string {
	if itf, ok := v.(Iface); ok {
		if itf.t == nil {
			return "<nil>"
		}
		// error / Stringer
		if verb == 'v' || verb == 's' || verb == 'q' {
			for _, mname := range []string{"Error", "String"} {
				if m := in.findMethod(itf.t, nil, mname); m != nil && m.Signature.Params().Len() == 0 && m.Signature.Results().Len() == 1 {
					if b, ok := m.Signature.Results().At(0).Type().Underlying().(*types.Basic); ok && b.Kind() == types.String {
						r := in.callSSA(nil, 0, m, []Value{itf.v}, nil)
						if verb == 'q' {
							return fmt.Sprintf("%q", r.(Str).GoString())
						}
						return r.(Str).GoString()
					}
				}
			}
		}
		return in.fmtScalar(itf.t, itf.v, spec, verb)
	}
	return in.fmtScalar(nil, v, spec, verb)
}

func (in *Interp) fmtScalar(t types.Type, v Value, spec string, verb byte) string {
	switch v := v.(type) {
	case *Term:
		if !v.IsConst() {
			return "<sym>"
		}
		if v.w == 0 {
			return fmt.Sprintf(spec, v.c != 0)
		}
		signed := true
		if t != nil {
			signed = isSigned(t)
		}
		if verb == 's' || verb == 'v' {
			spec = strings.Replace(spec, string(verb), "d", 1)
		}
		if signed {
			return fmt.Sprintf(spec, sext64(v.c, v.w))
		}
		return fmt.Sprintf(spec, v.c)
	case Str:
		if verb == 'd' {
			return "%!d(string=" + v.GoString() + ")"
		}
		return fmt.Sprintf(spec, v.GoString())
	case float64:
		return fmt.Sprintf(spec, v)
	case Slice:
		// []byte as %x / %s
		allBytes := true
		bs := make([]byte, len(v.a))
		for i, e := range v.a {
			t, ok := e.(*Term)
			if !ok || t.w != 8 {
				allBytes = false
				break
			}
			if !t.IsConst() {
				return "<sym>"
			}
			bs[i] = byte(t.c)
		}
		if allBytes {
			return fmt.Sprintf(spec, bs)
		}
		var parts []string
		for _, e := range v.a {
			parts = append(parts, in.fmtArg(e, 'v'))
		}
		return "[" + strings.Join(parts, " ") + "]"
	case Struct:
		var parts []string
		for _, f := range v {
			parts = append(parts, in.fmtArg(f, 'v'))
		}
		return "{" + strings.Join(parts, " ") + "}"
	case Array:
		var parts []string
		for _, f := range v {
			parts = append(parts, in.fmtArg(f, 'v'))
		}
		return "[" + strings.Join(parts, " ") + "]"
	case *Value:
		if v == nil {
			return "<nil>"
		}
		return "0xc000000000"
	}
	return fmt.Sprintf("<%T>", v)
}

func sortedKeys(m map[string]bool) []string {
	var out []string
	for k := range m {
		out = append(out, k)
	}
	sort.Strings(out)
	return out
}


// protoEqual compares two values of a generated protobuf type structurally.
func (in *Interp) protoEqual(t types.Type, x, y Value) *Term {
	switch u := t.Underlying().(type) {
	case *types.Pointer:
		xp, ok1 := x.(*Value)
		yp, ok2 := y.(*Value)
		if !ok1 || !ok2 {
			unsupported("proto.Equal on %T / %T", x, y)
		}
		if xp == nil || yp == nil {
			return in.ts.Bool(xp == nil && yp == nil)
		}
		return in.protoEqual(u.Elem(), *xp, *yp)
	case *types.Struct:
		xs, ys := x.(Struct), y.(Struct)
		acc := in.ts.Bool(true)
		for i := 0; i < u.NumFields(); i++ {
			if !u.Field(i).Exported() {
				continue // state, sizeCache, unknownFields
			}
			acc = in.ts.And(acc, in.protoEqual(u.Field(i).Type(), xs[i], ys[i]))
		}
		return acc
	case *types.Slice:
		xs, ys := x.(Slice), y.(Slice)
		if len(xs.a) != len(ys.a) {
			return in.ts.Bool(false)
		}
		acc := in.ts.Bool(true)
		for i := range xs.a {
			acc = in.ts.And(acc, in.protoEqual(u.Elem(), xs.a[i], ys.a[i]))
		}
		return acc
	case *types.Basic:
		return in.equals(t, x, y)
	case *types.Interface:
		xi, yi := x.(Iface), y.(Iface)
		if xi.t == nil || yi.t == nil {
			return in.ts.Bool(xi.t == nil && yi.t == nil)
		}
		if !types.Identical(xi.t, yi.t) {
			return in.ts.Bool(false)
		}
		return in.protoEqual(xi.t, xi.v, yi.v)
	}
	unsupported("proto.Equal on a field of type %s", t)
	return nil
}
