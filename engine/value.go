package main

import (
	"fmt"
	"go/types"
	"strings"

	"golang.org/x/tools/go/ssa"
)

// Value model (after x/tools/go/ssa/interp, with symbolic scalars):
//
//	*Term            all integer kinds and bool
//	float64          floats (concrete only)
//	Str              strings: concrete, or fixed length with symbolic bytes
//	*Value           pointers (address of a slot), *SymPtr for symbolic element addresses
//	Struct, Array    value-semantics aggregates ([]Value)
//	Slice            reference to a backing []Value
//	*Map, *Chan      reference objects
//	Iface            interface values
//	Tuple            multiple results
//	*ssa.Function, *ssa.Builtin, *Closure   function values
type Value interface{}

type Struct []Value
type Array []Value
type Slice struct {
	a   []Value
	nil bool
}
type Tuple []Value

type Iface struct {
	t types.Type
	v Value
}

type Closure struct {
	Fn  *ssa.Function
	Env []Value
}

// SymPtr addresses elems[idx] for a symbolic idx known to be in range.
type SymPtr struct {
	elems []Value
	idx   *Term
	path  []int // field/element projection applied to the selected element
}

// slot returns the address selected inside element i.
func (sp *SymPtr) slot(i int) *Value {
	p := &sp.elems[i]
	for _, f := range sp.path {
		switch v := (*p).(type) {
		case Struct:
			p = &v[f]
		case Array:
			p = &v[f]
		default:
			unsupported("SymPtr projection through %T", *p)
		}
	}
	return p
}

type Str struct {
	s string
	b []*Term // non-nil => symbolic bytes (len(b) is the length); s ignored
}

func (s Str) Len() int {
	if s.b != nil {
		return len(s.b)
	}
	return len(s.s)
}
func (s Str) Concrete() bool {
	if s.b == nil {
		return true
	}
	for _, t := range s.b {
		if !t.IsConst() {
			return false
		}
	}
	return true
}
func (s Str) GoString() string {
	if s.b == nil {
		return s.s
	}
	var sb strings.Builder
	for _, t := range s.b {
		if t.IsConst() {
			sb.WriteByte(byte(t.c))
		} else {
			sb.WriteByte('?')
		}
	}
	return sb.String()
}

type Map struct {
	keys    []Value
	vals    []Value
	live    []bool
	index   map[string]int // canonical key -> position, for concrete keys
	symKeys bool           // some stored key is not concrete
	n       int
}

type Chan struct {
	buf    []Value
	cap    int
	closed bool
	// waiting senders for unbuffered channels
	sendq []*sendWait
	recvq int // number of blocked receivers (for rendezvous bookkeeping)
	id    int
}

type sendWait struct {
	v    Value
	done bool
	g    *Goroutine
}

type mapIter struct {
	m     *Map
	pos   int
	order []int // when set: indices into m.keys in the order to visit
}
type strIter struct {
	s   Str
	pos int
}

// engineError aborts the current path as an engine limitation (inconclusive).
type engineError struct{ msg string }

func unsupported(format string, args ...interface{}) {
	panic(engineError{fmt.Sprintf(format, args...)})
}

// targetPanic is a Go panic in the interpreted program.
type targetPanic struct {
	v     Value
	msg   string
	stack []string
}

func (in *Interp) intWidth(t types.Type) (w int, signed bool, ok bool) {
	b, isb := t.Underlying().(*types.Basic)
	if !isb {
		return 0, false, false
	}
	switch b.Kind() {
	case types.Bool, types.UntypedBool:
		return 0, false, true
	case types.Int8:
		return 8, true, true
	case types.Int16:
		return 16, true, true
	case types.Int32, types.UntypedRune:
		return 32, true, true
	case types.Int64, types.Int, types.UntypedInt:
		return 64, true, true
	case types.Uint8:
		return 8, false, true
	case types.Uint16:
		return 16, false, true
	case types.Uint32:
		return 32, false, true
	case types.Uint64, types.Uint, types.Uintptr:
		return 64, false, true
	}
	return 0, false, false
}

func (in *Interp) zero(t types.Type) Value {
	switch t := t.(type) {
	case *types.Basic:
		if t.Kind() == types.UntypedNil {
			unsupported("untyped nil has no zero value")
		}
		if t.Info()&types.IsString != 0 {
			return Str{}
		}
		if t.Info()&types.IsFloat != 0 {
			return float64(0)
		}
		if t.Kind() == types.UnsafePointer {
			return (*Value)(nil)
		}
		if t.Info()&types.IsComplex != 0 {
			return complex128(0)
		}
		w, _, ok := in.intWidth(t)
		if !ok {
			unsupported("zero of basic type %s", t)
		}
		return in.ts.Const(w, 0)
	case *types.Pointer:
		return (*Value)(nil)
	case *types.Array:
		a := make(Array, t.Len())
		for i := range a {
			a[i] = in.zero(t.Elem())
		}
		return a
	case *types.Named, *types.Alias:
		return in.zero(t.Underlying())
	case *types.Interface:
		return Iface{}
	case *types.Slice:
		return Slice{nil: true}
	case *types.Struct:
		s := make(Struct, t.NumFields())
		for i := range s {
			s[i] = in.zero(t.Field(i).Type())
		}
		return s
	case *types.Tuple:
		if t.Len() == 1 {
			return in.zero(t.At(0).Type())
		}
		s := make(Tuple, t.Len())
		for i := range s {
			s[i] = in.zero(t.At(i).Type())
		}
		return s
	case *types.Chan:
		return (*Chan)(nil)
	case *types.Map:
		return (*Map)(nil)
	case *types.Signature:
		return (*ssa.Function)(nil)
	case *types.TypeParam:
		unsupported("zero of type parameter %s", t)
	}
	unsupported("zero of %T %s", t, t)
	return nil
}

// copyVal copies aggregates (value semantics).
func copyVal(v Value) Value {
	switch v := v.(type) {
	case Struct:
		n := make(Struct, len(v))
		for i, f := range v {
			n[i] = copyVal(f)
		}
		return n
	case Array:
		n := make(Array, len(v))
		for i, f := range v {
			n[i] = copyVal(f)
		}
		return n
	case Tuple:
		n := make(Tuple, len(v))
		for i, f := range v {
			n[i] = copyVal(f)
		}
		return n
	}
	return v
}

// storeVal writes v into *addr in place so that interior pointers stay valid.
func storeVal(addr *Value, v Value) {
	switch v := v.(type) {
	case Struct:
		if lhs, ok := (*addr).(Struct); ok && len(lhs) == len(v) {
			for i := range lhs {
				storeVal(&lhs[i], v[i])
			}
			return
		}
		*addr = copyVal(v)
	case Array:
		if lhs, ok := (*addr).(Array); ok && len(lhs) == len(v) {
			for i := range lhs {
				storeVal(&lhs[i], v[i])
			}
			return
		}
		*addr = copyVal(v)
	default:
		*addr = v
	}
}

func isNilFunc(v Value) bool {
	switch f := v.(type) {
	case *ssa.Function:
		return f == nil
	case *Closure:
		return f == nil
	case *ssa.Builtin:
		return f == nil
	case nil:
		return true
	}
	return false
}

func valString(v Value) string {
	switch v := v.(type) {
	case *Term:
		if v.IsConst() {
			if v.w == 0 {
				return fmt.Sprint(v.c != 0)
			}
			return fmt.Sprintf("%d", v.c)
		}
		return "<sym" + sortStr(v.w) + ">"
	case Str:
		return fmt.Sprintf("%q", v.GoString())
	case Struct:
		var parts []string
		for _, f := range v {
			parts = append(parts, valString(f))
		}
		return "{" + strings.Join(parts, " ") + "}"
	case Array:
		var parts []string
		for _, f := range v {
			parts = append(parts, valString(f))
		}
		return "[" + strings.Join(parts, " ") + "]"
	case Slice:
		if v.nil {
			return "[]nil"
		}
		var parts []string
		for i, f := range v.a {
			if i > 16 {
				parts = append(parts, "...")
				break
			}
			parts = append(parts, valString(f))
		}
		return "[" + strings.Join(parts, " ") + "]"
	case Iface:
		if v.t == nil {
			return "<nil>"
		}
		return "iface(" + v.t.String() + ")"
	case *Value:
		if v == nil {
			return "nil"
		}
		return fmt.Sprintf("&%p", v)
	}
	return fmt.Sprintf("%T", v)
}
