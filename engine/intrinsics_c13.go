package main

// Protobuf wire codec for CONCRETE generated messages (open struct API), driven
// by the `protobuf:"..."` struct tags that go/types keeps for the generated
// code. The real proto.Marshal/Unmarshal/Size walk messages by reflection and
// unsafe pointers, which the interpreter does not model; these intrinsics give
// the same observable results for the message features the code under test
// uses (scalars, strings, bytes, nested and repeated messages, packed repeated
// scalars, unknown fields). Maps and populated oneofs end the path as
// unsupported; a symbolic scalar inside a message does too. Harnesses that rely
// on this codec observe its results so that the native replay (real protobuf
// library) cross-checks them.

import (
	"encoding/binary"
	"go/types"
	"math"
	"reflect"
	"sort"
	"strconv"
	"strings"
	"unicode/utf8"
)

const protoPkg = "google.golang.org/protobuf/proto"

type pbField struct {
	idx     int
	num     uint64
	kind    string // varint zigzag32 zigzag64 fixed32 fixed64 bytes group
	rep     bool
	packed  bool
	proto3  bool
	typ     types.Type // Go field type
	unknown bool       // the unknownFields slot
	oneof   bool
	isMap   bool
}

func pbParseFields(st *types.Struct) []pbField {
	var out []pbField
	for i := 0; i < st.NumFields(); i++ {
		f := st.Field(i)
		tag := reflect.StructTag(st.Tag(i))
		if f.Name() == "unknownFields" {
			out = append(out, pbField{idx: i, unknown: true, typ: f.Type()})
			continue
		}
		if _, ok := tag.Lookup("protobuf_oneof"); ok {
			out = append(out, pbField{idx: i, oneof: true, typ: f.Type()})
			continue
		}
		pt, ok := tag.Lookup("protobuf")
		if !ok {
			continue
		}
		parts := strings.Split(pt, ",")
		if len(parts) < 3 {
			unsupported("protobuf tag %q", pt)
		}
		num, err := strconv.ParseUint(parts[1], 10, 32)
		if err != nil {
			unsupported("protobuf tag %q", pt)
		}
		pf := pbField{idx: i, num: num, kind: parts[0], typ: f.Type()}
		for _, p := range parts[2:] {
			switch p {
			case "rep":
				pf.rep = true
			case "packed":
				pf.packed = true
			case "proto3":
				pf.proto3 = true
			}
		}
		if _, isMap := f.Type().Underlying().(*types.Map); isMap {
			pf.isMap = true
		}
		out = append(out, pf)
	}
	sort.SliceStable(out, func(i, j int) bool { return out[i].num < out[j].num })
	return out
}

func pbMsgStruct(t types.Type) (*types.Struct, types.Type) {
	pt, ok := t.Underlying().(*types.Pointer)
	if !ok {
		unsupported("protobuf message of type %s", t)
	}
	st, ok := pt.Elem().Underlying().(*types.Struct)
	if !ok {
		unsupported("protobuf message of type %s", t)
	}
	return st, pt.Elem()
}

func pbAppendVarint(b []byte, v uint64) []byte {
	for v >= 0x80 {
		b = append(b, byte(v)|0x80)
		v >>= 7
	}
	return append(b, byte(v))
}

func (in *Interp) pbConst(v Value) *Term {
	t, ok := v.(*Term)
	if !ok {
		unsupported("protobuf scalar held in %T", v)
	}
	if !t.IsConst() {
		unsupported("symbolic scalar inside a protobuf message that is marshalled")
	}
	return t
}

// pbScalar appends one scalar of the given wire kind (without tag).
func (in *Interp) pbScalar(b []byte, kind string, ft types.Type, v Value) []byte {
	if f, ok := v.(float64); ok {
		if kind == "fixed32" {
			return binary.LittleEndian.AppendUint32(b, math.Float32bits(float32(f)))
		}
		return binary.LittleEndian.AppendUint64(b, math.Float64bits(f))
	}
	t := in.pbConst(v)
	var x uint64
	if t.w == 0 {
		x = t.c & 1
	} else if isSigned(ft) {
		x = uint64(sext64(t.c, t.w))
	} else {
		x = t.c
	}
	switch kind {
	case "varint":
		return pbAppendVarint(b, x)
	case "zigzag32", "zigzag64":
		s := int64(x)
		return pbAppendVarint(b, uint64(s<<1)^uint64(s>>63))
	case "fixed32":
		return binary.LittleEndian.AppendUint32(b, uint32(x))
	case "fixed64":
		return binary.LittleEndian.AppendUint64(b, x)
	}
	unsupported("protobuf wire kind %s", kind)
	return nil
}

func pbWireType(kind string) uint64 {
	switch kind {
	case "varint", "zigzag32", "zigzag64":
		return 0
	case "fixed64":
		return 1
	case "bytes":
		return 2
	case "group":
		return 3
	case "fixed32":
		return 5
	}
	unsupported("protobuf wire kind %s", kind)
	return 0
}

func (in *Interp) pbIsZero(v Value) bool {
	switch v := v.(type) {
	case *Term:
		return in.pbConst(v).c == 0
	case float64:
		return v == 0 && !math.Signbit(v)
	case Str:
		return v.Len() == 0
	case Slice:
		return len(v.a) == 0
	}
	return false
}

func (in *Interp) pbBytesOf(v Value) []byte {
	switch v := v.(type) {
	case Str:
		if !v.Concrete() {
			unsupported("symbolic string inside a protobuf message that is marshalled")
		}
		return []byte(v.GoString())
	case Slice:
		return in.concBytes(v)
	}
	unsupported("protobuf bytes field held in %T", v)
	return nil
}

// pbMarshalMsg appends the encoding of the message p points to.
func (in *Interp) pbMarshalMsg(b []byte, mt types.Type, p *Value) []byte {
	if p == nil {
		return b
	}
	st, _ := pbMsgStruct(mt)
	sv := (*p).(Struct)
	var unknown []byte
	for _, f := range pbParseFields(st) {
		v := sv[f.idx]
		switch {
		case f.unknown:
			if sl, ok := v.(Slice); ok && len(sl.a) > 0 {
				unknown = in.concBytes(sl)
			}
			continue
		case f.oneof:
			if it, ok := v.(Iface); ok && it.t != nil {
				unsupported("populated oneof in a protobuf message that is marshalled")
			}
			continue
		case f.isMap:
			if m, ok := v.(*Map); ok && m != nil && m.n > 0 {
				unsupported("populated map in a protobuf message that is marshalled")
			}
			continue
		}
		tag := f.num<<3 | pbWireType(f.kind)
		ft := f.typ
		if f.rep {
			sl := v.(Slice)
			et := ft.Underlying().(*types.Slice).Elem()
			if len(sl.a) == 0 {
				continue
			}
			if f.kind != "bytes" && f.packed {
				var body []byte
				for _, e := range sl.a {
					body = in.pbScalar(body, f.kind, et, e)
				}
				b = pbAppendVarint(b, f.num<<3|2)
				b = pbAppendVarint(b, uint64(len(body)))
				b = append(b, body...)
				continue
			}
			for _, e := range sl.a {
				b = in.pbOne(b, tag, f.kind, et, e, true)
			}
			continue
		}
		// singular
		if pt, isPtr := ft.Underlying().(*types.Pointer); isPtr {
			if _, isMsg := pt.Elem().Underlying().(*types.Struct); !isMsg {
				// optional scalar
				pv := v.(*Value)
				if pv == nil {
					continue
				}
				b = in.pbOne(b, tag, f.kind, pt.Elem(), *pv, true)
				continue
			}
			if v.(*Value) == nil {
				continue
			}
			b = in.pbOne(b, tag, f.kind, ft, v, true)
			continue
		}
		if in.pbIsZero(v) {
			if sl, isSl := v.(Slice); !isSl || f.proto3 || sl.nil {
				continue
			}
		}
		b = in.pbOne(b, tag, f.kind, ft, v, true)
	}
	return append(b, unknown...)
}

func (in *Interp) pbOne(b []byte, tag uint64, kind string, ft types.Type, v Value, _ bool) []byte {
	b = pbAppendVarint(b, tag)
	if kind != "bytes" {
		if kind == "group" {
			unsupported("protobuf groups")
		}
		return in.pbScalar(b, kind, ft, v)
	}
	var body []byte
	if pt, isPtr := ft.Underlying().(*types.Pointer); isPtr {
		pv := v.(*Value)
		if pv == nil {
			// nil element of a repeated message field encodes as an empty message
			body = nil
		} else {
			body = in.pbMarshalMsg(nil, pt, pv)
		}
	} else {
		body = in.pbBytesOf(v)
	}
	b = pbAppendVarint(b, uint64(len(body)))
	return append(b, body...)
}

// ---- decoding ----

func pbConsumeVarint(b []byte) (uint64, int) {
	var v uint64
	for i := 0; i < len(b) && i < 10; i++ {
		c := b[i]
		if i == 9 && c > 1 {
			return 0, -1 // overflow
		}
		v |= uint64(c&0x7f) << (7 * uint(i))
		if c < 0x80 {
			return v, i + 1
		}
	}
	return 0, -1
}

// pbConsumeFieldValue mirrors protowire.ConsumeFieldValue; -1 on malformed input.
func pbConsumeFieldValue(num, wt uint64, b []byte, depth int) int {
	switch wt {
	case 0:
		_, n := pbConsumeVarint(b)
		return n
	case 1:
		if len(b) < 8 {
			return -1
		}
		return 8
	case 5:
		if len(b) < 4 {
			return -1
		}
		return 4
	case 2:
		l, n := pbConsumeVarint(b)
		if n < 0 || l > uint64(len(b)-n) {
			return -1
		}
		return n + int(l)
	case 3:
		if depth > 10000 {
			return -1
		}
		n0 := len(b)
		for {
			tag, n := pbConsumeVarint(b)
			if n < 0 {
				return -1
			}
			b = b[n:]
			num2, wt2 := tag>>3, tag&7
			if num2 < 1 || num2 > math.MaxInt32 {
				return -1
			}
			if wt2 == 4 {
				if num2 != num {
					return -1
				}
				return n0 - len(b)
			}
			m := pbConsumeFieldValue(num2, wt2, b, depth+1)
			if m < 0 {
				return -1
			}
			b = b[m:]
		}
	}
	return -1
}

func (in *Interp) pbBytesVal(b []byte) Value {
	out := make([]Value, len(b))
	for i, c := range b {
		out[i] = in.ts.Const(8, uint64(c))
	}
	return Slice{a: out}
}

func (in *Interp) pbScalarVal(kind string, ft types.Type, raw uint64) Value {
	if b, ok := ft.Underlying().(*types.Basic); ok && b.Info()&types.IsFloat != 0 {
		if kind == "fixed32" {
			return float64(math.Float32frombits(uint32(raw)))
		}
		return math.Float64frombits(raw)
	}
	w, _, ok := in.intWidth(ft)
	if !ok {
		unsupported("protobuf scalar of Go type %s", ft)
	}
	if kind == "zigzag32" || kind == "zigzag64" {
		raw = uint64(int64(raw>>1) ^ -int64(raw&1))
	}
	if w == 0 {
		return in.ts.Bool(raw != 0)
	}
	if w < 64 {
		raw &= (uint64(1) << uint(w)) - 1
	}
	return in.ts.Const(w, raw)
}

// pbConsumeScalar decodes one scalar of the wire type belonging to kind.
func pbConsumeScalar(kind string, b []byte) (uint64, int) {
	switch pbWireType(kind) {
	case 0:
		return pbConsumeVarint(b)
	case 1:
		if len(b) < 8 {
			return 0, -1
		}
		return binary.LittleEndian.Uint64(b), 8
	case 5:
		if len(b) < 4 {
			return 0, -1
		}
		return uint64(binary.LittleEndian.Uint32(b)), 4
	}
	return 0, -1
}

// pbUnmarshalMsg merges b into the message struct *p; false on malformed input.
func (in *Interp) pbUnmarshalMsg(b []byte, mt types.Type, p *Value, depth int) bool {
	if depth > 10000 {
		return false
	}
	st, _ := pbMsgStruct(mt)
	sv := (*p).(Struct)
	fields := pbParseFields(st)
	byNum := map[uint64]*pbField{}
	var unk *pbField
	for i := range fields {
		f := &fields[i]
		switch {
		case f.unknown:
			unk = f
		case f.oneof:
		default:
			byNum[f.num] = f
		}
	}
	for len(b) > 0 {
		start := b
		tag, n := pbConsumeVarint(b)
		if n < 0 {
			return false
		}
		b = b[n:]
		num, wt := tag>>3, tag&7
		if num < 1 || num > (1<<29-1) {
			return false
		}
		if wt == 4 {
			return false // end-group outside a group
		}
		f := byNum[num]
		consumed := -2 // -2: treat as unknown
		if f != nil {
			if f.isMap {
				unsupported("protobuf map field in a message that is unmarshalled")
			}
			consumed = in.pbUnmarshalField(b, wt, f, sv, depth)
			if consumed == -1 {
				return false
			}
		} else if _, isOneof := in.pbOneofNumber(st, num); isOneof {
			unsupported("protobuf oneof field in a message that is unmarshalled")
		}
		if consumed == -2 {
			m := pbConsumeFieldValue(num, wt, b, 0)
			if m < 0 {
				return false
			}
			if unk != nil {
				raw := start[:n+m]
				old, _ := sv[unk.idx].(Slice)
				merged := append(append([]Value{}, old.a...), in.pbBytesVal(raw).(Slice).a...)
				sv[unk.idx] = Slice{a: merged}
			}
			consumed = m
		}
		b = b[consumed:]
	}
	return true
}

// pbOneofNumber reports whether num belongs to a oneof wrapper of the message
// (those carry their tags on the wrapper types, which are not enumerated here):
// conservatively, any message with a oneof slot and an unmatched number.
func (in *Interp) pbOneofNumber(st *types.Struct, num uint64) (int, bool) {
	for i := 0; i < st.NumFields(); i++ {
		if _, ok := reflect.StructTag(st.Tag(i)).Lookup("protobuf_oneof"); ok {
			return i, true
		}
	}
	return 0, false
}

// pbUnmarshalField: bytes consumed, -1 malformed, -2 wire type mismatch (unknown).
func (in *Interp) pbUnmarshalField(b []byte, wt uint64, f *pbField, sv Struct, depth int) int {
	ft := f.typ
	if f.rep {
		et := ft.Underlying().(*types.Slice).Elem()
		old, _ := sv[f.idx].(Slice)
		if f.kind != "bytes" {
			if wt == 2 { // packed
				l, n := pbConsumeVarint(b)
				if n < 0 || l > uint64(len(b)-n) {
					return -1
				}
				body := b[n : n+int(l)]
				elems := append([]Value{}, old.a...)
				for len(body) > 0 {
					raw, m := pbConsumeScalar(f.kind, body)
					if m < 0 {
						return -1
					}
					elems = append(elems, in.pbScalarVal(f.kind, et, raw))
					body = body[m:]
				}
				sv[f.idx] = Slice{a: elems, nil: old.nil && len(elems) == 0}
				return n + int(l)
			}
			if wt != pbWireType(f.kind) {
				return -2
			}
			raw, m := pbConsumeScalar(f.kind, b)
			if m < 0 {
				return -1
			}
			sv[f.idx] = Slice{a: append(append([]Value{}, old.a...), in.pbScalarVal(f.kind, et, raw))}
			return m
		}
		if wt != 2 {
			return -2
		}
		v, m := in.pbUnmarshalBytesLike(b, et, nil, depth)
		if m < 0 {
			return m
		}
		sv[f.idx] = Slice{a: append(append([]Value{}, old.a...), v)}
		return m
	}
	if f.kind != "bytes" {
		if wt != pbWireType(f.kind) {
			return -2
		}
		raw, m := pbConsumeScalar(f.kind, b)
		if m < 0 {
			return -1
		}
		if pt, isPtr := ft.Underlying().(*types.Pointer); isPtr {
			nv := new(Value)
			*nv = in.pbScalarVal(f.kind, pt.Elem(), raw)
			sv[f.idx] = nv
		} else {
			sv[f.idx] = in.pbScalarVal(f.kind, ft, raw)
		}
		return m
	}
	if wt != 2 {
		return -2
	}
	var existing *Value
	if pv, ok := sv[f.idx].(*Value); ok {
		existing = pv
	}
	v, m := in.pbUnmarshalBytesLike(b, ft, existing, depth)
	if m < 0 {
		return m
	}
	sv[f.idx] = v
	return m
}

// pbUnmarshalBytesLike decodes a length-delimited value of Go type t (string,
// []byte, *string/*[]byte is not generated, *Message).
func (in *Interp) pbUnmarshalBytesLike(b []byte, t types.Type, existing *Value, depth int) (Value, int) {
	l, n := pbConsumeVarint(b)
	if n < 0 || l > uint64(len(b)-n) {
		return nil, -1
	}
	body := b[n : n+int(l)]
	total := n + int(l)
	switch u := t.Underlying().(type) {
	case *types.Basic:
		if u.Info()&types.IsString != 0 {
			if !utf8.Valid(body) {
				return nil, -1
			}
			return Str{s: string(body)}, total
		}
	case *types.Slice:
		return in.pbBytesVal(append([]byte{}, body...)), total
	case *types.Pointer:
		switch e := u.Elem().Underlying().(type) {
		case *types.Struct:
			p := existing
			if p == nil {
				p = new(Value)
				*p = in.zero(u.Elem())
			}
			if !in.pbUnmarshalMsg(body, t, p, depth+1) {
				return nil, -1
			}
			return p, total
		case *types.Basic:
			if e.Info()&types.IsString != 0 {
				if !utf8.Valid(body) {
					return nil, -1
				}
				nv := new(Value)
				*nv = Str{s: string(body)}
				return nv, total
			}
		}
	}
	unsupported("protobuf length-delimited field of Go type %s", t)
	return nil, -1
}

func init() {
	reg(protoPkg+".Marshal", func(in *Interp, fr *frame, a []Value) Value {
		m := a[0].(Iface)
		if m.t == nil {
			return Tuple{Slice{nil: true}, Iface{}}
		}
		p, ok := m.v.(*Value)
		if !ok {
			unsupported("proto.Marshal of %T", m.v)
		}
		if p == nil {
			return Tuple{Slice{nil: true}, Iface{}}
		}
		out := in.pbMarshalMsg(nil, m.t, p)
		return Tuple{in.pbBytesVal(out), Iface{}}
	})
	reg(protoPkg+".Size", func(in *Interp, fr *frame, a []Value) Value {
		m := a[0].(Iface)
		if m.t == nil {
			return in.ts.Const(64, 0)
		}
		p, _ := m.v.(*Value)
		if p == nil {
			return in.ts.Const(64, 0)
		}
		return in.ts.Const(64, uint64(len(in.pbMarshalMsg(nil, m.t, p))))
	})
	reg(protoPkg+".Unmarshal", func(in *Interp, fr *frame, a []Value) Value {
		data := in.concBytes(a[0])
		m := a[1].(Iface)
		p, ok := m.v.(*Value)
		if !ok || m.t == nil || p == nil {
			unsupported("proto.Unmarshal into %T", m.v)
		}
		// Unmarshal resets the message first
		_, elem := pbMsgStruct(m.t)
		storeVal(p, in.zero(elem))
		if !in.pbUnmarshalMsg(data, m.t, p, 0) {
			return in.newErrorString("proto: cannot parse invalid wire-format data")
		}
		return Iface{}
	})
}


// ---- math on concrete floats (configuration code: primes.IsPrime) ----
func init() {
	f1 := func(name string, f func(float64) float64) {
		reg(name, func(in *Interp, fr *frame, a []Value) Value {
			x, ok := a[0].(float64)
			if !ok {
				unsupported("%s on a non-concrete float", name)
			}
			return f(x)
		})
	}
	f1("math.Sqrt", math.Sqrt)
	f1("math.sqrt", math.Sqrt)
	f1("math.Ceil", math.Ceil)
	f1("math.ceil", math.Ceil)
	f1("math.Floor", math.Floor)
	f1("math.floor", math.Floor)
	f1("math.Abs", math.Abs)
	f1("math.Log", math.Log)
	f1("math.Exp", math.Exp)
}
