package main

// Cooperative goroutines: every interpreted goroutine runs on its own real
// goroutine, but exactly one holds the baton at any time. A goroutine keeps
// running until it blocks or (in schedule-exploration mode) reaches a
// synchronisation operation, where the next runnable goroutine is a decision.

import (
	"fmt"
	"go/token"
	"go/types"

	"golang.org/x/tools/go/ssa"
)

type Goroutine struct {
	id      int
	resume  chan struct{}
	done    bool
	waitFn  func() bool // nil = runnable; otherwise runnable when it returns true
	waitWhy string
	stack   []*frame
	started bool
}

type killedPanic struct{}

func (in *Interp) spawn(fn Value, args []Value, pos token.Pos) {
	g := &Goroutine{id: len(in.gs), resume: make(chan struct{}, 1)}
	in.gs = append(in.gs, g)
	go func() {
		<-g.resume
		defer func() {
			r := recover()
			g.done = true
			if r != nil {
				if _, ok := r.(killedPanic); ok {
					return
				}
				if in.abort == nil {
					if tp, ok := r.(targetPanic); ok {
						tp.msg = "panic in goroutine: " + tp.msg
						in.abort = tp
					} else {
						in.abort = r
					}
				}
			}
			// hand the baton on (to main if aborting)
			in.handoff(g)
		}()
		if in.killed {
			panic(killedPanic{})
		}
		in.stack = nil
		in.call(nil, pos, fn, args)
	}()
	if in.explore {
		in.schedPoint("go")
	}
}

// runnable lists goroutines that can make progress.
func (in *Interp) runnable() []*Goroutine {
	var out []*Goroutine
	for _, g := range in.gs {
		if g.done {
			continue
		}
		if g.waitFn == nil || g.waitFn() {
			out = append(out, g)
		}
	}
	return out
}

// switchTo passes the baton from the current goroutine to g and parks the current one.
func (in *Interp) switchTo(g *Goroutine) {
	cur := in.cur
	if g == cur {
		return
	}
	cur.stack = in.stack
	in.cur = g
	in.stack = g.stack
	g.resume <- struct{}{}
	<-cur.resume
	// resumed
	in.cur = cur
	in.stack = cur.stack
	if in.killed {
		panic(killedPanic{})
	}
	if in.abort != nil && cur.id == 0 {
		a := in.abort
		in.abort = nil
		panic(a)
	}
}

// handoff is called by a finished goroutine: give the baton to someone else.
func (in *Interp) handoff(g *Goroutine) {
	if in.killed {
		return
	}
	if in.abort != nil {
		// wake main so that it can abort the path
		main := in.gs[0]
		in.cur = main
		in.stack = main.stack
		main.resume <- struct{}{}
		return
	}
	rs := in.runnable()
	if len(rs) == 0 {
		// nobody can run: wake main, which will detect the deadlock
		main := in.gs[0]
		in.abort = targetPanic{msg: "deadlock: all goroutines are blocked (" + in.blockedSummary() + ")"}
		in.cur = main
		in.stack = main.stack
		main.resume <- struct{}{}
		return
	}
	next := rs[0]
	if in.explore && len(rs) > 1 {
		next = rs[in.choose("sc", len(rs))]
	}
	in.cur = next
	in.stack = next.stack
	next.resume <- struct{}{}
}

func (in *Interp) blockedSummary() string {
	s := ""
	for _, g := range in.gs {
		if !g.done {
			s += fmt.Sprintf("g%d:%s ", g.id, g.waitWhy)
		}
	}
	return s
}

// block parks the current goroutine until ready() holds.
func (in *Interp) block(why string, ready func() bool) {
	for !ready() {
		cur := in.cur
		cur.waitFn = ready
		cur.waitWhy = why
		rs := in.runnable()
		if len(rs) == 0 {
			cur.waitFn = nil
			panic(targetPanic{msg: "deadlock: all goroutines are blocked (" + why + "; " + in.blockedSummary() + ")"})
		}
		next := rs[0]
		if in.explore && len(rs) > 1 {
			next = rs[in.choose("sc", len(rs))]
		}
		in.switchTo(next)
		cur.waitFn = nil
		cur.waitWhy = ""
	}
}

// schedPoint is a possible context switch in exploration mode.
func (in *Interp) schedPoint(why string) {
	if !in.explore || len(in.gs) <= 1 {
		return
	}
	// Only operations that can make another goroutine's progress depend on this one are
	// preemption points (acquire-like: lock, receive, select, blocking send, wait, explicit yield);
	// release-like operations (unlock, close, atomic stores, go) commute with the local steps
	// that follow them under the data-race-freedom assumption.
	switch why {
	case "unlock", "close", "atomic", "go", "wg.Done", "sleep", "gosched":
		return
	}
	if in.preemptions >= in.preemptionBound {
		return
	}
	rs := in.runnable()
	if len(rs) <= 1 {
		return
	}
	// keep current first so decision 0 = no switch
	ordered := []*Goroutine{in.cur}
	for _, g := range rs {
		if g != in.cur {
			ordered = append(ordered, g)
		}
	}
	next := ordered[in.choose("sc", len(ordered))]
	if next != in.cur {
		in.preemptions++
		in.switchTo(next)
	}
}

// drain lets every other goroutine run to completion (called when the harness returns).
func (in *Interp) drain() {
	for {
		var rs []*Goroutine
		for _, g := range in.runnable() {
			if g != in.cur {
				rs = append(rs, g)
			}
		}
		if len(rs) == 0 {
			break
		}
		next := rs[0]
		if in.explore && len(rs) > 1 {
			next = rs[in.choose("sc", len(rs))]
		}
		// main waits until next blocks or finishes
		in.cur.waitFn = func() bool { return true }
		in.switchTo(next)
		in.cur.waitFn = nil
	}
}

func (in *Interp) leaked() []string {
	var out []string
	for _, g := range in.gs[1:] {
		if !g.done {
			out = append(out, fmt.Sprintf("g%d blocked on %s", g.id, g.waitWhy))
		}
	}
	return out
}

// killAll unparks all goroutines so that they unwind and exit.
func (in *Interp) killAll() {
	in.killed = true
	for _, g := range in.gs[1:] {
		if !g.done {
			select {
			case g.resume <- struct{}{}:
			default:
			}
		}
	}
}

// ---- channels -------------------------------------------------------------

func (in *Interp) chanSend(c *Chan, v Value) {
	in.schedPoint("send")
	if c == nil {
		in.block("send on nil channel", func() bool { return false })
	}
	if c.closed {
		in.goPanic("send on closed channel")
	}
	if c.cap > 0 {
		in.block("chan send (full)", func() bool { return len(c.buf) < c.cap || c.closed })
		if c.closed {
			in.goPanic("send on closed channel")
		}
		c.buf = append(c.buf, v)
		return
	}
	// unbuffered: rendezvous
	w := &sendWait{v: v, g: in.cur}
	c.sendq = append(c.sendq, w)
	in.block("chan send (unbuffered)", func() bool { return w.done || c.closed })
	if !w.done {
		in.goPanic("send on closed channel")
	}
}

func (c *Chan) recvReady() bool {
	if c == nil {
		return false
	}
	if len(c.buf) > 0 || c.closed {
		return true
	}
	for _, w := range c.sendq {
		if !w.done {
			return true
		}
	}
	return false
}

func (c *Chan) sendReady() bool {
	if c == nil {
		return false
	}
	if c.closed {
		return true // will panic
	}
	if c.cap > 0 {
		return len(c.buf) < c.cap
	}
	return c.recvq > 0
}

func (in *Interp) chanRecv(c *Chan, elem types.Type) (Value, bool) {
	in.schedPoint("recv")
	if c == nil {
		in.block("receive on nil channel", func() bool { return false })
	}
	if !c.recvReady() {
		c.recvq++
		in.block("chan receive", c.recvReady)
		c.recvq--
	}
	return in.chanTake(c, elem)
}

func (in *Interp) chanTake(c *Chan, elem types.Type) (Value, bool) {
	if len(c.buf) > 0 {
		v := c.buf[0]
		c.buf = c.buf[1:]
		return v, true
	}
	for i, w := range c.sendq {
		if !w.done {
			w.done = true
			c.sendq = append(c.sendq[:i:i], c.sendq[i+1:]...)
			return w.v, true
		}
	}
	if c.closed {
		return in.zero(elem), false
	}
	unsupported("chanTake on channel that is not ready")
	return nil, false
}

func (in *Interp) chanClose(c *Chan) {
	in.schedPoint("close")
	if c == nil {
		in.goPanic("close of nil channel")
	}
	if c.closed {
		in.goPanic("close of closed channel")
	}
	c.closed = true
}

func (in *Interp) selectOp(fr *frame, instr *ssa.Select) Value {
	in.schedPoint("select")
	type st struct {
		c    *Chan
		send bool
		v    Value
	}
	states := make([]st, len(instr.States))
	for i, s := range instr.States {
		states[i].c = fr.get(s.Chan).(*Chan)
		if s.Dir == types.SendOnly {
			states[i].send = true
			states[i].v = copyVal(fr.get(s.Send))
		}
	}
	ready := func() []int {
		var r []int
		for i, s := range states {
			if s.send {
				if s.c.sendReady() {
					r = append(r, i)
				}
			} else if s.c.recvReady() {
				r = append(r, i)
			}
		}
		return r
	}
	rs := ready()
	chosen := -1
	if len(rs) == 0 {
		if instr.Blocking {
			for _, s := range states {
				if !s.send && s.c != nil {
					s.c.recvq++
				}
			}
			in.block("select", func() bool { return len(ready()) > 0 })
			for _, s := range states {
				if !s.send && s.c != nil {
					s.c.recvq--
				}
			}
			rs = ready()
		}
	}
	if len(rs) > 0 {
		// several ready cases: a decision (Go picks pseudo-randomly)
		// Go picks pseudo-randomly among ready cases: a scheduler-like decision ("sl")
		chosen = rs[in.choose("sl", len(rs))]
	}
	r := Tuple{in.ts.Const(64, uint64(int64(chosen))), in.ts.Bool(false)}
	for i, s := range instr.States {
		if s.Dir == types.RecvOnly {
			elem := s.Chan.Type().Underlying().(*types.Chan).Elem()
			var v Value
			if i == chosen {
				var ok bool
				v, ok = in.chanTake(states[i].c, elem)
				r[1] = in.ts.Bool(ok)
			} else {
				v = in.zero(elem)
			}
			r = append(r, v)
		} else if i == chosen {
			c := states[i].c
			if c.closed {
				in.goPanic("send on closed channel")
			}
			if c.cap > 0 {
				c.buf = append(c.buf, states[i].v)
			} else {
				// a receiver is parked: deliver through the send queue
				w := &sendWait{v: states[i].v, g: in.cur}
				c.sendq = append(c.sendq, w)
				in.block("select send", func() bool { return w.done || c.closed })
			}
		}
	}
	return r
}
