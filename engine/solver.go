package main

// One long-lived `z3 -in` process per worker. Terms are sent as named
// definitions (define-fun tN) inside a per-path push scope.

import (
	"bufio"
	"fmt"
	"io"
	"os"
	"os/exec"
	"regexp"
	"strconv"
	"strings"
	"sync/atomic"
	"time"
)

type Solver struct {
	cmd     *exec.Cmd
	in      io.WriteCloser
	out     *bufio.Reader
	defined map[int]bool // term ids defined in current path scope
	nUF     int
	nVars   int
	log     []string // everything sent on the current path (debugging: SYMGO_SLOW)
	rlimit  uint64

	queries   int64
	nsSolver  int64
	sawError  bool
	lastError string
}

type SolverStats struct {
	Queries  int64
	SolverNs int64
	Sat      int64
	Unsat    int64
	Unknown  int64
}

var gStats SolverStats

func NewSolver(rlimit uint64) (*Solver, error) {
	cmd := exec.Command(solverBin, "-in", "-smt2")
	in, err := cmd.StdinPipe()
	if err != nil {
		return nil, err
	}
	outp, err := cmd.StdoutPipe()
	if err != nil {
		return nil, err
	}
	cmd.Stderr = cmd.Stdout
	if err := cmd.Start(); err != nil {
		return nil, err
	}
	s := &Solver{cmd: cmd, in: in, out: bufio.NewReaderSize(outp, 1<<16), defined: map[int]bool{}, rlimit: rlimit}
	return s, nil
}

func (s *Solver) Close() {
	s.in.Close()
	done := make(chan struct{})
	go func() { s.cmd.Wait(); close(done) }()
	select {
	case <-done:
	case <-time.After(2 * time.Second):
		s.cmd.Process.Kill()
	}
}

// send appends a path-level command (declaration, definition, assertion); it is
// transmitted with every query, because each query runs after a (reset): z3's
// one-shot tactic pipeline decides these bit-vector queries orders of magnitude
// faster than its incremental core (measured: 1 s vs > 60 s unknown).
func (s *Solver) send(line string) {
	s.log = append(s.log, line)
}

func (s *Solver) raw(w *bufio.Writer, line string) {
	w.WriteString(line)
	w.WriteByte('\n')
}

// query runs one check-sat over the path commands plus extra; returns values of want when sat.
func (s *Solver) query(extraRef string, want []*Term) (SatResult, []uint64) {
	w := bufio.NewWriterSize(s.in, 1<<16)
	s.raw(w, "(reset)")
	s.raw(w, "(set-option :print-success false)")
	s.raw(w, "(set-option :produce-models true)")
	if s.rlimit > 0 {
		s.raw(w, fmt.Sprintf("(set-option :rlimit %d)", s.rlimit))
	}
	s.raw(w, fmt.Sprintf("(set-option :timeout %d)", queryTimeoutMs))
	for _, l := range s.log {
		s.raw(w, l)
	}
	if extraRef != "" {
		s.raw(w, "(assert "+extraRef+")")
	}
	s.raw(w, "(check-sat)")
	tw := time.Now()
	w.Flush()
	tf := time.Now()
	r := s.readResult()
	if slowQueryLog && time.Since(tw) > time.Second {
		fmt.Printf("symgo: query timing: flush %.3fs result %.3fs lines=%d\n", tf.Sub(tw).Seconds(), time.Since(tf).Seconds(), len(s.log))
	}
	var vals []uint64
	if r == Sat && len(want) > 0 {
		vals = make([]uint64, len(want))
		var sb strings.Builder
		sb.WriteString("(get-value (")
		n := 0
		for _, t := range want {
			if t.op == OpConst {
				continue
			}
			sb.WriteString(t.ref())
			sb.WriteByte(' ')
			n++
		}
		sb.WriteString("))\n")
		var got []uint64
		if n > 0 {
			io.WriteString(s.in, sb.String())
			got = s.readValues(n)
		}
		k := 0
		for i, t := range want {
			if t.op == OpConst {
				vals[i] = t.c
				continue
			}
			if k < len(got) {
				vals[i] = got[k]
			}
			k++
		}
	}
	return r, vals
}

// BeginPath opens a fresh scope.
func (s *Solver) BeginPath() {
	s.log = s.log[:0]
	s.defined = map[int]bool{}
	s.nUF = 0
	s.nVars = 0
}

func (s *Solver) EndPath() {}

// define makes sure t (and its sub-DAG) is defined in the solver; ts gives var/UF declarations.
func (s *Solver) define(ts *TermStore, t *Term) {
	// declare new vars and UFs first
	for s.nVars < len(ts.vars) {
		v := ts.vars[s.nVars]
		s.send("(declare-const " + v.name + " " + sortStr(v.w) + ")")
		s.nVars++
	}
	for s.nUF < len(ts.ufList) {
		d := ts.ufList[s.nUF]
		var sb strings.Builder
		sb.WriteString("(declare-fun " + d.name + " (")
		for i, a := range d.args {
			if i > 0 {
				sb.WriteByte(' ')
			}
			sb.WriteString(sortStr(a))
		}
		sb.WriteString(") " + sortStr(d.ret) + ")")
		s.send(sb.String())
		s.nUF++
	}
	s.defineRec(t)
}

func (s *Solver) defineRec(t *Term) {
	if t.op == OpConst || t.op == OpVar {
		return
	}
	if s.defined[t.id] {
		return
	}
	// iterative post-order to avoid deep recursion
	type item struct {
		t    *Term
		next int
	}
	stack := []item{{t, 0}}
	for len(stack) > 0 {
		top := &stack[len(stack)-1]
		if top.next < len(top.t.args) {
			a := top.t.args[top.next]
			top.next++
			if a.op != OpConst && a.op != OpVar && !s.defined[a.id] {
				stack = append(stack, item{a, 0})
			}
			continue
		}
		tt := top.t
		stack = stack[:len(stack)-1]
		if s.defined[tt.id] {
			continue
		}
		s.defined[tt.id] = true
		s.send("(define-fun t" + strconv.Itoa(tt.id) + " () " + sortStr(tt.w) + " " + tt.body() + ")")
	}
}

func (s *Solver) Assert(ts *TermStore, t *Term) {
	s.define(ts, t)
	s.send("(assert " + t.ref() + ")")
}

type SatResult int

const (
	Unsat SatResult = iota
	Sat
	Unknown
)

func (r SatResult) String() string { return [...]string{"unsat", "sat", "unknown"}[r] }

func (s *Solver) readLine() string {
	line, err := s.out.ReadString('\n')
	if err != nil {
		s.sawError = true
		s.lastError = "solver died: " + err.Error()
		return "unknown"
	}
	return strings.TrimSpace(line)
}

// CheckAssuming checks satisfiability of current assertions plus extra (may be nil).
func (s *Solver) CheckAssuming(ts *TermStore, extra *Term) SatResult {
	r, _ := s.CheckWithModel(ts, extra, nil)
	return r
}

var queryTimeoutMs = 60000
var solverBin = func() string {
	if b := os.Getenv("SYMGO_SOLVER"); b != "" {
		return b
	}
	return "z3"
}()
var slowN int64

var slowQueryLog = os.Getenv("SYMGO_SLOW") != ""

func (s *Solver) readResult() SatResult {
	for {
		line := s.readLine()
		switch {
		case line == "sat":
			return Sat
		case line == "unsat":
			return Unsat
		case line == "unknown":
			return Unknown
		case strings.HasPrefix(line, "(error"):
			s.sawError = true
			s.lastError = line
			// keep reading: result line follows (or another error)
			continue
		case line == "":
			continue
		default:
			s.sawError = true
			s.lastError = "unexpected solver output: " + line
			return Unknown
		}
	}
}

// CheckWithModel: like CheckAssuming but, if sat, returns values of the given terms.
func (s *Solver) CheckWithModel(ts *TermStore, extra *Term, want []*Term) (SatResult, []uint64) {
	t0 := time.Now()
	ref := ""
	if extra != nil {
		s.define(ts, extra)
		ref = extra.ref()
	} else {
		s.define(ts, ts.tt)
	}
	for _, w := range want {
		s.define(ts, w)
	}
	r, vals := s.query(ref, want)
	d := time.Since(t0).Nanoseconds()
	if slowQueryLog && d > 2e9 {
		n := atomic.AddInt64(&slowN, 1)
		fn := fmt.Sprintf("/tmp/symgo-slow-%d.smt2", n)
		os.WriteFile(fn, []byte(strings.Join(s.log, "\n")+"\n(assert "+ref+")\n(check-sat)\n"), 0o644)
		fmt.Printf("symgo: slow query %.2fs (%s) dumped to %s\n", float64(d)/1e9, r, fn)
	}
	atomic.AddInt64(&gStats.Queries, 1)
	atomic.AddInt64(&gStats.SolverNs, d)
	switch r {
	case Sat:
		atomic.AddInt64(&gStats.Sat, 1)
	case Unsat:
		atomic.AddInt64(&gStats.Unsat, 1)
	default:
		atomic.AddInt64(&gStats.Unknown, 1)
	}
	return r, vals
}

var valueRe = regexp.MustCompile(`#x[0-9a-fA-F]+|#b[01]+|\btrue\b|\bfalse\b`)

// readValues reads the answer to a get-value with n terms.
func (s *Solver) readValues(n int) []uint64 {
	var acc strings.Builder
	depth := 0
	started := false
	for {
		line := s.readLine()
		if strings.HasPrefix(line, "(error") {
			s.sawError = true
			s.lastError = line
			return nil
		}
		acc.WriteString(" ")
		acc.WriteString(line)
		for _, ch := range line {
			if ch == '(' {
				depth++
				started = true
			} else if ch == ')' {
				depth--
			}
		}
		if started && depth <= 0 {
			break
		}
		if s.sawError && !started {
			return nil
		}
	}
	// values follow their term names; names never look like literals
	toks := valueRe.FindAllString(acc.String(), -1)
	if len(toks) != n {
		s.sawError = true
		s.lastError = fmt.Sprintf("get-value: expected %d values, parsed %d", n, len(toks))
		return nil
	}
	out := make([]uint64, n)
	for i, v := range toks {
		switch {
		case v == "true":
			out[i] = 1
		case v == "false":
			out[i] = 0
		case strings.HasPrefix(v, "#x"):
			out[i], _ = strconv.ParseUint(v[2:], 16, 64)
		default:
			out[i], _ = strconv.ParseUint(v[2:], 2, 64)
		}
	}
	return out
}

// readValue parses "((name #x..))" / "((name true))" possibly spanning lines.
func (s *Solver) readValue() uint64 {
	var acc string
	depth := 0
	started := false
	for {
		line := s.readLine()
		if strings.HasPrefix(line, "(error") {
			s.sawError = true
			s.lastError = line
			return 0
		}
		acc += " " + line
		for _, ch := range line {
			if ch == '(' {
				depth++
				started = true
			} else if ch == ')' {
				depth--
			}
		}
		if started && depth <= 0 {
			break
		}
		if s.sawError && !started {
			return 0
		}
	}
	acc = strings.TrimSpace(acc)
	// strip outer "((" and "))"
	acc = strings.TrimPrefix(acc, "((")
	acc = strings.TrimSuffix(acc, "))")
	// value is the last token
	idx := strings.LastIndexAny(acc, " \t")
	val := acc
	if idx >= 0 {
		val = acc[idx+1:]
	}
	switch {
	case val == "true":
		return 1
	case val == "false":
		return 0
	case strings.HasPrefix(val, "#x"):
		v, _ := strconv.ParseUint(val[2:], 16, 64)
		return v
	case strings.HasPrefix(val, "#b"):
		v, _ := strconv.ParseUint(val[2:], 2, 64)
		return v
	}
	// (_ bvN w)
	if i := strings.Index(acc, "(_ bv"); i >= 0 {
		rest := acc[i+5:]
		j := strings.IndexByte(rest, ' ')
		if j > 0 {
			v, _ := strconv.ParseUint(rest[:j], 10, 64)
			return v
		}
	}
	s.sawError = true
	s.lastError = "cannot parse value: " + acc
	return 0
}
