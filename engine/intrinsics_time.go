package main

// Linear time model: a time.Time is represented by its nanosecond count in the
// `ext` field (wall = 0, loc = nil); Add/Sub/Before/After/Equal are linear
// arithmetic on it. No saturation on overflow, no monotonic-clock component,
// no calendar. Durations are the ordinary int64 nanosecond counts.

func timeNs(in *Interp, v Value) *Term {
	st := v.(Struct)
	return st[1].(*Term)
}

func mkTime(in *Interp, like Struct, ns *Term) Value {
	out := copyVal(like).(Struct)
	out[0] = in.ts.Const(64, 0)
	out[1] = ns
	return out
}

func init() {
	reg("time.Unix", func(in *Interp, fr *frame, a []Value) Value {
		sec, nsec := a[0].(*Term), a[1].(*Term)
		ns := in.ts.BinBV(OpBvAdd, in.ts.BinBV(OpBvMul, sec, in.ts.Const(64, 1000000000)), nsec)
		z := in.zero(fr.fn.Signature.Results().At(0).Type()).(Struct)
		return mkTime(in, z, ns)
	})
	reg("time.Date", func(in *Interp, fr *frame, a []Value) Value {
		// calendar dates are outside the linear time model; only used for constant timestamps
		return in.zero(fr.fn.Signature.Results().At(0).Type())
	})
	reg("(time.Time).Add", func(in *Interp, fr *frame, a []Value) Value {
		return mkTime(in, a[0].(Struct), in.ts.BinBV(OpBvAdd, timeNs(in, a[0]), a[1].(*Term)))
	})
	reg("(time.Time).Sub", func(in *Interp, fr *frame, a []Value) Value {
		return in.ts.BinBV(OpBvSub, timeNs(in, a[0]), timeNs(in, a[1]))
	})
	reg("(time.Time).Before", func(in *Interp, fr *frame, a []Value) Value {
		return in.ts.Cmp(OpBvSLt, timeNs(in, a[0]), timeNs(in, a[1]))
	})
	reg("(time.Time).After", func(in *Interp, fr *frame, a []Value) Value {
		return in.ts.Cmp(OpBvSLt, timeNs(in, a[1]), timeNs(in, a[0]))
	})
	reg("(time.Time).Equal", func(in *Interp, fr *frame, a []Value) Value {
		return in.ts.Eq(timeNs(in, a[0]), timeNs(in, a[1]))
	})
	reg("(time.Time).IsZero", func(in *Interp, fr *frame, a []Value) Value {
		return in.ts.Eq(timeNs(in, a[0]), in.ts.Const(64, 0))
	})
	reg("(time.Time).UnixNano", func(in *Interp, fr *frame, a []Value) Value { return timeNs(in, a[0]) })
	reg("(time.Time).Compare", func(in *Interp, fr *frame, a []Value) Value {
		x, y := timeNs(in, a[0]), timeNs(in, a[1])
		ts := in.ts
		return ts.Ite(ts.Cmp(OpBvSLt, x, y), ts.Const(64, ^uint64(0)), ts.Ite(ts.Eq(x, y), ts.Const(64, 0), ts.Const(64, 1)))
	})
}
