package main

import (
	"fmt"
	"go/token"
	"go/types"
	"math"
	"strconv"
	"strings"
	"unicode/utf8"

	"golang.org/x/tools/go/ssa"
)

func (in *Interp) unop(fr *frame, instr *ssa.UnOp, x Value) Value {
	switch instr.Op {
	case token.ARROW:
		v, ok := in.chanRecv(x.(*Chan), instr.X.Type().Underlying().(*types.Chan).Elem())
		if instr.CommaOk {
			return Tuple{v, in.ts.Bool(ok)}
		}
		return v
	case token.MUL:
		return in.load(x)
	case token.SUB:
		switch x := x.(type) {
		case *Term:
			return in.ts.BvNeg(x)
		case float64:
			return -x
		}
	case token.NOT:
		return in.ts.Not(x.(*Term))
	case token.XOR:
		return in.ts.BvNot(x.(*Term))
	}
	unsupported("unop %s on %T", instr.Op, x)
	return nil
}

func isSigned(t types.Type) bool {
	if b, ok := t.Underlying().(*types.Basic); ok {
		return b.Info()&types.IsUnsigned == 0
	}
	return false
}

func (in *Interp) binop(op token.Token, t types.Type, x, y Value) Value {
	switch op {
	case token.EQL:
		return in.equals(t, x, y)
	case token.NEQ:
		return in.ts.Not(in.equals(t, x, y))
	}
	switch x := x.(type) {
	case *Term:
		yt := y.(*Term)
		if x.w == 0 {
			unsupported("binop %s on bool", op)
		}
		signed := isSigned(t)
		ts := in.ts
		switch op {
		case token.ADD:
			return ts.BinBV(OpBvAdd, x, yt)
		case token.SUB:
			return ts.BinBV(OpBvSub, x, yt)
		case token.MUL:
			return ts.BinBV(OpBvMul, x, yt)
		case token.QUO, token.REM:
			zero := ts.Const(yt.w, 0)
			if in.decide(ts.Eq(yt, zero)) {
				in.goPanic("integer divide by zero")
			}
			if op == token.QUO {
				if signed {
					return ts.BinBV(OpBvSDiv, x, yt)
				}
				return ts.BinBV(OpBvUDiv, x, yt)
			}
			if signed {
				return ts.BinBV(OpBvSRem, x, yt)
			}
			return ts.BinBV(OpBvURem, x, yt)
		case token.AND:
			return ts.BinBV(OpBvAnd, x, yt)
		case token.OR:
			return ts.BinBV(OpBvOr, x, yt)
		case token.XOR:
			return ts.BinBV(OpBvXor, x, yt)
		case token.AND_NOT:
			return ts.BinBV(OpBvAnd, x, ts.BvNot(yt))
		case token.SHL, token.SHR:
			// y may have any integer type/width. Go: negative count panics; count >= width gives 0 / sign fill.
			cnt := yt
			if cnt.w != x.w {
				if cnt.w > x.w {
					// saturate to x.w
					lim := ts.Const(cnt.w, uint64(x.w))
					big := ts.Cmp(OpBvULt, cnt, lim)
					cnt = ts.Ite(big, ts.Resize(cnt, x.w, false), ts.Const(x.w, uint64(x.w)))
				} else {
					cnt = ts.Resize(cnt, x.w, false)
				}
			}
			if op == token.SHL {
				return ts.BinBV(OpBvShl, x, cnt)
			}
			if signed {
				return ts.BinBV(OpBvAShr, x, cnt)
			}
			return ts.BinBV(OpBvLShr, x, cnt)
		case token.LSS:
			if signed {
				return ts.Cmp(OpBvSLt, x, yt)
			}
			return ts.Cmp(OpBvULt, x, yt)
		case token.LEQ:
			if signed {
				return ts.Cmp(OpBvSLe, x, yt)
			}
			return ts.Cmp(OpBvULe, x, yt)
		case token.GTR:
			if signed {
				return ts.Cmp(OpBvSLt, yt, x)
			}
			return ts.Cmp(OpBvULt, yt, x)
		case token.GEQ:
			if signed {
				return ts.Cmp(OpBvSLe, yt, x)
			}
			return ts.Cmp(OpBvULe, yt, x)
		}
	case float64:
		yf := y.(float64)
		switch op {
		case token.ADD:
			return x + yf
		case token.SUB:
			return x - yf
		case token.MUL:
			return x * yf
		case token.QUO:
			return x / yf
		case token.LSS:
			return in.ts.Bool(x < yf)
		case token.LEQ:
			return in.ts.Bool(x <= yf)
		case token.GTR:
			return in.ts.Bool(x > yf)
		case token.GEQ:
			return in.ts.Bool(x >= yf)
		}
	case Str:
		ys := y.(Str)
		switch op {
		case token.ADD:
			return in.strConcat(x, ys)
		case token.LSS:
			return in.strLess(x, ys, false)
		case token.LEQ:
			return in.strLess(x, ys, true)
		case token.GTR:
			return in.strLess(ys, x, false)
		case token.GEQ:
			return in.strLess(ys, x, true)
		}
	}
	unsupported("binop %s on %T", op, x)
	return nil
}

func (in *Interp) strConcat(a, b Str) Str {
	if a.b == nil && b.b == nil {
		return Str{s: a.s + b.s}
	}
	if a.Len() == 0 {
		return b
	}
	if b.Len() == 0 {
		return a
	}
	out := make([]*Term, 0, a.Len()+b.Len())
	for i := 0; i < a.Len(); i++ {
		out = append(out, in.strByte(a, i))
	}
	for i := 0; i < b.Len(); i++ {
		out = append(out, in.strByte(b, i))
	}
	return in.normStr(Str{b: out})
}

// normStr turns an all-constant symbolic string into a concrete one.
func (in *Interp) normStr(s Str) Str {
	if s.b == nil {
		return s
	}
	if len(s.b) == 0 {
		return Str{}
	}
	for _, t := range s.b {
		if !t.IsConst() {
			return s
		}
	}
	bs := make([]byte, len(s.b))
	for i, t := range s.b {
		bs[i] = byte(t.c)
	}
	return Str{s: string(bs)}
}

// strLess builds lexicographic a<b (or a<=b).
func (in *Interp) strLess(a, b Str, orEq bool) *Term {
	if a.b == nil && b.b == nil {
		if orEq {
			return in.ts.Bool(a.s <= b.s)
		}
		return in.ts.Bool(a.s < b.s)
	}
	ts := in.ts
	n := a.Len()
	if b.Len() < n {
		n = b.Len()
	}
	// result when common prefix equal
	var tail *Term
	if orEq {
		tail = ts.Bool(a.Len() <= b.Len())
	} else {
		tail = ts.Bool(a.Len() < b.Len())
	}
	acc := tail
	for i := n - 1; i >= 0; i-- {
		x, y := in.strByte(a, i), in.strByte(b, i)
		acc = ts.Ite(ts.Eq(x, y), acc, ts.Cmp(OpBvULt, x, y))
	}
	return acc
}

func (in *Interp) strEq(a, b Str) *Term {
	if a.Len() != b.Len() {
		return in.ts.Bool(false)
	}
	if a.b == nil && b.b == nil {
		return in.ts.Bool(a.s == b.s)
	}
	acc := in.ts.Bool(true)
	for i := 0; i < a.Len(); i++ {
		acc = in.ts.And(acc, in.ts.Eq(in.strByte(a, i), in.strByte(b, i)))
	}
	return acc
}

func (in *Interp) equals(t types.Type, x, y Value) *Term {
	switch x := x.(type) {
	case *Term:
		return in.ts.Eq(x, y.(*Term))
	case float64:
		return in.ts.Bool(x == y.(float64))
	case Str:
		return in.strEq(x, y.(Str))
	case *Value:
		switch y := y.(type) {
		case *Value:
			return in.ts.Bool(x == y)
		case *SymPtr:
			return in.ts.Bool(false)
		}
	case *SymPtr:
		if yp, ok := y.(*SymPtr); ok && len(x.elems) > 0 && len(yp.elems) > 0 && &x.elems[0] == &yp.elems[0] {
			return in.ts.Eq(x.idx, yp.idx)
		}
		return in.ts.Bool(false)
	case Struct:
		ys := y.(Struct)
		st := t.Underlying().(*types.Struct)
		acc := in.ts.Bool(true)
		for i := range x {
			if st.Field(i).Name() == "_" {
				continue
			}
			acc = in.ts.And(acc, in.equals(st.Field(i).Type(), x[i], ys[i]))
		}
		return acc
	case Array:
		ya := y.(Array)
		et := t.Underlying().(*types.Array).Elem()
		acc := in.ts.Bool(true)
		for i := range x {
			acc = in.ts.And(acc, in.equals(et, x[i], ya[i]))
		}
		return acc
	case Iface:
		yi := y.(Iface)
		if x.t == nil || yi.t == nil {
			return in.ts.Bool(x.t == nil && yi.t == nil)
		}
		if !types.Identical(x.t, yi.t) {
			return in.ts.Bool(false)
		}
		if !types.Comparable(x.t) {
			in.goPanic("runtime error: comparing uncomparable type " + x.t.String())
		}
		return in.equals(x.t, x.v, yi.v)
	case Slice:
		ys := y.(Slice)
		// only comparison against nil is legal
		if ys.nil && ys.a == nil {
			return in.ts.Bool(x.nil)
		}
		return in.ts.Bool(x.nil && ys.nil)
	case *Map:
		return in.ts.Bool(x == y.(*Map))
	case *Chan:
		return in.ts.Bool(x == y.(*Chan))
	case *ssa.Function:
		return in.ts.Bool(isNilFunc(x) == isNilFunc(y) && isNilFunc(x))
	case *Closure:
		return in.ts.Bool(isNilFunc(x) && isNilFunc(y))
	case *nativeFunc:
		return in.ts.Bool(false)
	}
	unsupported("equals on %T / %T", x, y)
	return nil
}

func (in *Interp) conv(tdst, tsrc types.Type, x Value) Value {
	udst := tdst.Underlying()
	usrc := tsrc.Underlying()
	switch usrc := usrc.(type) {
	case *types.Pointer, *types.Chan, *types.Map, *types.Signature, *types.Interface, *types.Struct, *types.Array:
		return x
	case *types.Slice:
		// []byte/[]rune -> string, or slice -> slice
		if b, ok := udst.(*types.Basic); ok && b.Info()&types.IsString != 0 {
			s := x.(Slice)
			eb, _ := usrc.Elem().Underlying().(*types.Basic)
			if eb != nil && eb.Kind() == types.Uint8 {
				out := make([]*Term, len(s.a))
				for i, e := range s.a {
					out[i] = e.(*Term)
				}
				if len(out) == 0 {
					return Str{}
				}
				return in.normStr(Str{b: out})
			}
			if eb != nil && eb.Kind() == types.Int32 {
				var sb strings.Builder
				for _, e := range s.a {
					sb.WriteRune(rune(in.concInt(e)))
				}
				return Str{s: sb.String()}
			}
		}
		return x
	case *types.Basic:
		if usrc.Info()&types.IsString != 0 {
			s := x.(Str)
			switch d := udst.(type) {
			case *types.Basic:
				return x
			case *types.Slice:
				eb := d.Elem().Underlying().(*types.Basic)
				if eb.Kind() == types.Uint8 {
					out := make([]Value, s.Len())
					for i := range out {
						out[i] = in.strByte(s, i)
					}
					return Slice{a: out}
				}
				if eb.Kind() == types.Int32 {
					if !s.Concrete() {
						unsupported("string->[]rune of symbolic string")
					}
					var out []Value
					for _, r := range s.GoString() {
						out = append(out, in.ts.Const(32, uint64(r)))
					}
					return Slice{a: out}
				}
			}
			unsupported("conversion string -> %s", tdst)
		}
		if usrc.Kind() == types.UnsafePointer {
			return x
		}
		if db, ok := udst.(*types.Basic); ok {
			if db.Kind() == types.UnsafePointer {
				return x
			}
			if db.Info()&types.IsString != 0 {
				// integer -> string (rune)
				c := in.concInt(x)
				return Str{s: string(rune(c))}
			}
			switch xv := x.(type) {
			case *Term:
				if db.Info()&types.IsFloat != 0 {
					c := in.concretize(xv)
					_, signed, _ := in.intWidth(usrc)
					if signed {
						return float64(sext64(c, xv.w))
					}
					return float64(c)
				}
				w, _, ok := in.intWidth(db)
				if !ok || w == 0 {
					unsupported("conversion %s -> %s", tsrc, tdst)
				}
				_, ssigned, _ := in.intWidth(usrc)
				return in.ts.Resize(xv, w, ssigned)
			case float64:
				if db.Info()&types.IsFloat != 0 {
					if db.Kind() == types.Float32 {
						return float64(float32(xv))
					}
					return xv
				}
				w, signed, ok := in.intWidth(db)
				if !ok {
					unsupported("conversion %s -> %s", tsrc, tdst)
				}
				if signed {
					return in.ts.Const(w, uint64(int64(xv)))
				}
				if xv < 0 {
					return in.ts.Const(w, uint64(int64(xv)))
				}
				if xv >= math.MaxInt64 {
					return in.ts.Const(w, uint64(xv))
				}
				return in.ts.Const(w, uint64(xv))
			}
		}
	}
	unsupported("conversion %s -> %s (%T)", tsrc, tdst, x)
	return nil
}

// ---- maps ------------------------------------------------------------

func newMap() *Map { return &Map{index: map[string]int{}} }

// canonKey returns a canonical string for a fully concrete comparable value.
func canonKey(v Value, sb *strings.Builder) bool {
	switch v := v.(type) {
	case *Term:
		if !v.IsConst() {
			return false
		}
		sb.WriteString(strconv.FormatUint(v.c, 16))
		sb.WriteByte(';')
		return true
	case Str:
		if !v.Concrete() {
			return false
		}
		s := v.GoString()
		sb.WriteString(strconv.Itoa(len(s)))
		sb.WriteByte(':')
		sb.WriteString(s)
		return true
	case float64:
		sb.WriteString(strconv.FormatFloat(v, 'g', -1, 64))
		sb.WriteByte(';')
		return true
	case Struct:
		sb.WriteByte('{')
		for _, f := range v {
			if !canonKey(f, sb) {
				return false
			}
		}
		sb.WriteByte('}')
		return true
	case Array:
		sb.WriteByte('[')
		for _, f := range v {
			if !canonKey(f, sb) {
				return false
			}
		}
		sb.WriteByte(']')
		return true
	case *Value:
		sb.WriteString(fmt.Sprintf("p%p;", v))
		return true
	case *Map:
		sb.WriteString(fmt.Sprintf("m%p;", v))
		return true
	case *Chan:
		sb.WriteString(fmt.Sprintf("c%p;", v))
		return true
	case Iface:
		if v.t == nil {
			sb.WriteString("nil;")
			return true
		}
		sb.WriteString("i(" + v.t.String() + ")")
		return canonKey(v.v, sb)
	}
	return false
}

func (in *Interp) mapFind(m *Map, kt types.Type, key Value) int {
	if m == nil {
		return -1
	}
	var sb strings.Builder
	conc := canonKey(key, &sb)
	if conc && !m.symKeys {
		if i, ok := m.index[sb.String()]; ok && m.live[i] {
			return i
		}
		return -1
	}
	// symbolic comparison against each live key, forking
	for i := range m.keys {
		if !m.live[i] {
			continue
		}
		if in.decide(in.equals(kt, key, m.keys[i])) {
			return i
		}
	}
	return -1
}

func (in *Interp) mapInsert(m *Map, key, val Value) {
	in.mapInsertT(m, nil, key, val)
}

func (in *Interp) mapInsertT(m *Map, kt types.Type, key, val Value) {
	var sb strings.Builder
	conc := canonKey(key, &sb)
	if conc && !m.symKeys {
		k := sb.String()
		if i, ok := m.index[k]; ok && m.live[i] {
			m.vals[i] = val
			return
		}
		m.keys = append(m.keys, key)
		m.vals = append(m.vals, val)
		m.live = append(m.live, true)
		m.index[k] = len(m.keys) - 1
		m.n++
		return
	}
	if kt == nil {
		kt = in.guessKeyType(key)
	}
	for i := range m.keys {
		if !m.live[i] {
			continue
		}
		if in.decide(in.equals(kt, key, m.keys[i])) {
			m.vals[i] = val
			return
		}
	}
	m.symKeys = m.symKeys || !conc
	m.keys = append(m.keys, key)
	m.vals = append(m.vals, val)
	m.live = append(m.live, true)
	if conc {
		m.index[sb.String()] = len(m.keys) - 1
	}
	m.n++
}

func (in *Interp) guessKeyType(key Value) types.Type {
	switch key.(type) {
	case *Term:
		return types.Typ[types.Uint64]
	case Str:
		return types.Typ[types.String]
	}
	unsupported("symbolic map key of kind %T without static type", key)
	return nil
}

func (in *Interp) mapDelete(m *Map, kt types.Type, key Value) {
	if m == nil {
		return
	}
	i := in.mapFind(m, kt, key)
	if i < 0 {
		return
	}
	m.live[i] = false
	var sb strings.Builder
	if canonKey(m.keys[i], &sb) {
		delete(m.index, sb.String())
	}
	m.n--
}

func (in *Interp) lookup(instr *ssa.Lookup, x, idx Value) Value {
	switch x := x.(type) {
	case *Map:
		mt := instr.X.Type().Underlying().(*types.Map)
		i := in.mapFind(x, mt.Key(), idx)
		var v Value
		ok := i >= 0
		if ok {
			v = copyVal(x.vals[i])
		} else {
			v = in.zero(mt.Elem())
		}
		if instr.CommaOk {
			return Tuple{v, in.ts.Bool(ok)}
		}
		return v
	case Str:
		i, sym := in.boundsCheck(idx.(*Term), instr.Index.Type(), x.Len())
		if sym == nil {
			return in.strByte(x, i)
		}
		n := x.Len()
		acc := in.strByte(x, n-1)
		for j := n - 2; j >= 0; j-- {
			acc = in.ts.Ite(in.ts.Eq(sym, in.ts.Const(64, uint64(j))), in.strByte(x, j), acc)
		}
		return acc
	}
	unsupported("lookup on %T", x)
	return nil
}

func (in *Interp) rangeIter(x Value) Value {
	switch x := x.(type) {
	case *Map:
		it := &mapIter{m: x}
		if in.mapOrders && x != nil {
			var live []int
			for i := range x.keys {
				if x.live[i] {
					live = append(live, i)
				}
			}
			switch len(live) {
			case 0, 1:
			case 2:
				if in.choose("mo", 2) == 1 {
					live[0], live[1] = live[1], live[0]
				}
				it.order = live
			case 3:
				perms := [][3]int{{0, 1, 2}, {0, 2, 1}, {1, 0, 2}, {1, 2, 0}, {2, 0, 1}, {2, 1, 0}}
				p := perms[in.choose("mo", 6)]
				it.order = []int{live[p[0]], live[p[1]], live[p[2]]}
			default:
				if in.choose("mo", 2) == 1 {
					for i, j := 0, len(live)-1; i < j; i, j = i+1, j-1 {
						live[i], live[j] = live[j], live[i]
					}
				}
				it.order = live
			}
		}
		return it
	case Str:
		return &strIter{s: x}
	}
	unsupported("range over %T", x)
	return nil
}

func (in *Interp) iterNext(it Value, instr *ssa.Next) Value {
	switch it := it.(type) {
	case *mapIter:
		tt := instr.Type().(*types.Tuple)
		if it.m != nil && it.order != nil {
			for it.pos < len(it.order) {
				i := it.order[it.pos]
				it.pos++
				if it.m.live[i] {
					return Tuple{in.ts.Bool(true), copyVal(it.m.keys[i]), copyVal(it.m.vals[i])}
				}
			}
		} else if it.m != nil {
			for it.pos < len(it.m.keys) {
				i := it.pos
				it.pos++
				if it.m.live[i] {
					return Tuple{in.ts.Bool(true), copyVal(it.m.keys[i]), copyVal(it.m.vals[i])}
				}
			}
		}
		var k, v Value
		if tt.At(1).Type() != nil {
			if _, inv := tt.At(1).Type().(*types.Basic); !inv || tt.At(1).Type().(*types.Basic).Kind() != types.Invalid {
				k = in.zero(tt.At(1).Type())
			}
		}
		if b, isb := tt.At(2).Type().(*types.Basic); !isb || b.Kind() != types.Invalid {
			v = in.zero(tt.At(2).Type())
		}
		return Tuple{in.ts.Bool(false), k, v}
	case *strIter:
		if it.pos >= it.s.Len() {
			return Tuple{in.ts.Bool(false), in.ts.Const(64, 0), in.ts.Const(32, 0)}
		}
		pos := it.pos
		if it.s.b == nil {
			r, sz := utf8.DecodeRuneInString(it.s.s[pos:])
			it.pos += sz
			return Tuple{in.ts.Bool(true), in.ts.Const(64, uint64(pos)), in.ts.Const(32, uint64(r))}
		}
		b0 := it.s.b[pos]
		if b0.IsConst() && b0.c < 0x80 {
			it.pos++
			return Tuple{in.ts.Bool(true), in.ts.Const(64, uint64(pos)), in.ts.Const(32, b0.c)}
		}
		// symbolic byte: ASCII stays symbolic; a non-ASCII lead byte concretises the sequence
		if in.decide(in.ts.Cmp(OpBvULt, b0, in.ts.Const(8, 0x80))) {
			it.pos++
			return Tuple{in.ts.Bool(true), in.ts.Const(64, uint64(pos)), in.ts.Resize(b0, 32, false)}
		}
		// concretise up to 4 bytes
		var buf []byte
		for j := pos; j < it.s.Len() && j < pos+4; j++ {
			buf = append(buf, byte(in.concretize(it.s.b[j])))
			if utf8.FullRune(buf) {
				break
			}
		}
		r, sz := utf8.DecodeRune(buf)
		it.pos += sz
		return Tuple{in.ts.Bool(true), in.ts.Const(64, uint64(pos)), in.ts.Const(32, uint64(r))}
	}
	unsupported("next on %T", it)
	return nil
}

// ---- builtins -------------------------------------------------------

func (in *Interp) callBuiltin(caller *frame, fn *ssa.Builtin, args []Value) Value {
	switch fn.Name() {
	case "append":
		if len(args) == 1 {
			return args[0]
		}
		dst := args[0].(Slice)
		var zero Value
		if sig, ok := fn.Type().(*types.Signature); ok {
			if st, ok := sig.Params().At(0).Type().Underlying().(*types.Slice); ok {
				zero = in.zero(st.Elem())
			}
		}
		grow := func(n int) []Value {
			if len(dst.a)+n <= cap(dst.a) {
				return dst.a[:len(dst.a)+n]
			}
			newcap := 2 * cap(dst.a)
			if newcap < len(dst.a)+n {
				newcap = len(dst.a) + n
			}
			out := make([]Value, newcap)
			for i := range dst.a {
				// a new backing array holds COPIES of aggregate elements: writes through
				// pointers into the old array must not show up in the new one
				out[i] = copyVal(dst.a[i])
			}
			for i := len(dst.a); i < newcap; i++ {
				out[i] = copyVal(zero)
			}
			return out[:len(dst.a)+n]
		}
		switch src := args[1].(type) {
		case Str:
			n := src.Len()
			if n == 0 {
				return dst
			}
			out := grow(n)
			for i := 0; i < n; i++ {
				out[len(dst.a)+i] = in.strByte(src, i)
			}
			return Slice{a: out}
		case Slice:
			n := len(src.a)
			if n == 0 {
				return dst
			}
			tmp := make([]Value, n)
			for i := range src.a {
				tmp[i] = copyVal(src.a[i])
			}
			out := grow(n)
			copy(out[len(dst.a):], tmp)
			return Slice{a: out}
		}
	case "copy":
		dst := args[0].(Slice)
		switch src := args[1].(type) {
		case Str:
			n := len(dst.a)
			if src.Len() < n {
				n = src.Len()
			}
			for i := 0; i < n; i++ {
				dst.a[i] = in.strByte(src, i)
			}
			return in.ts.Const(64, uint64(n))
		case Slice:
			n := len(dst.a)
			if len(src.a) < n {
				n = len(src.a)
			}
			tmp := make([]Value, n)
			for i := 0; i < n; i++ {
				tmp[i] = copyVal(src.a[i])
			}
			for i := 0; i < n; i++ {
				storeVal(&dst.a[i], tmp[i])
			}
			return in.ts.Const(64, uint64(n))
		}
	case "close":
		in.chanClose(args[0].(*Chan))
		return nil
	case "delete":
		m := args[0].(*Map)
		var kt types.Type
		if sig, ok := fn.Type().(*types.Signature); ok && sig.Params().Len() == 2 {
			if mt, ok := sig.Params().At(0).Type().Underlying().(*types.Map); ok {
				kt = mt.Key()
			}
		}
		if kt == nil {
			kt = in.guessKeyType(args[1])
		}
		in.mapDelete(m, kt, args[1])
		return nil
	case "clear":
		switch x := args[0].(type) {
		case *Map:
			if x != nil {
				*x = *newMap()
			}
		case Slice:
			unsupported("clear(slice)")
		}
		return nil
	case "print", "println":
		return nil
	case "len":
		switch x := args[0].(type) {
		case Str:
			return in.ts.Const(64, uint64(x.Len()))
		case Slice:
			return in.ts.Const(64, uint64(len(x.a)))
		case Array:
			return in.ts.Const(64, uint64(len(x)))
		case *Value:
			return in.ts.Const(64, uint64(len((*x).(Array))))
		case *Map:
			if x == nil {
				return in.ts.Const(64, 0)
			}
			return in.ts.Const(64, uint64(x.n))
		case *Chan:
			if x == nil {
				return in.ts.Const(64, 0)
			}
			return in.ts.Const(64, uint64(len(x.buf)))
		}
	case "cap":
		switch x := args[0].(type) {
		case Slice:
			return in.ts.Const(64, uint64(cap(x.a)))
		case Array:
			return in.ts.Const(64, uint64(len(x)))
		case *Value:
			return in.ts.Const(64, uint64(len((*x).(Array))))
		case *Chan:
			return in.ts.Const(64, uint64(x.cap))
		}
	case "min", "max":
		isMin := fn.Name() == "min"
		acc := args[0]
		sig := fn.Type().(*types.Signature)
		signed := isSigned(sig.Params().At(0).Type())
		for _, a := range args[1:] {
			switch x := acc.(type) {
			case *Term:
				y := a.(*Term)
				var lt *Term
				if signed {
					lt = in.ts.Cmp(OpBvSLt, x, y)
				} else {
					lt = in.ts.Cmp(OpBvULt, x, y)
				}
				if isMin {
					acc = in.ts.Ite(lt, x, y)
				} else {
					acc = in.ts.Ite(lt, y, x)
				}
			case float64:
				y := a.(float64)
				if isMin {
					acc = math.Min(x, y)
				} else {
					acc = math.Max(x, y)
				}
			default:
				unsupported("min/max on %T", acc)
			}
		}
		return acc
	case "panic":
		panic(targetPanic{v: args[0], msg: in.panicMsg(args[0]), stack: in.stackTrace()})
	case "recover":
		return in.doRecover(caller)
	case "ssa:wrapnilchk":
		recv := args[0]
		if p, ok := recv.(*Value); ok && p == nil {
			in.goPanic(fmt.Sprintf("value method %s.%s called using nil *%s pointer", valString(args[1]), valString(args[2]), valString(args[1])))
		}
		return recv
	}
	unsupported("builtin %s with %d args", fn.Name(), len(args))
	return nil
}

func (in *Interp) doRecover(caller *frame) Value {
	if caller != nil && caller.caller != nil && caller.caller.panicking {
		caller.caller.panicking = false
		p := caller.caller.panic
		caller.caller.panic = nil
		if tp, ok := p.(targetPanic); ok {
			return tp.v
		}
		panic(p)
	}
	return Iface{}
}
