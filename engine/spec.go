package main

// If-conversion of side-effect-free diamonds.
//
// `a || (b && c)`, `if x < y { m = x } else { m = y }` and similar shapes compile to
// small acyclic regions of pure instructions that end in a join block with phis.
// Forking on every such branch multiplies paths (callee paths × callers); instead
// the region is evaluated on both sides under edge guards and the phis at the join
// become ite-terms. Anything not provably pure, any nested decision point or Go
// panic during the speculative evaluation aborts the attempt and the branch is
// forked as usual — so this is an optimisation of the exploration, never a change
// of semantics.

import (
	"go/token"
	"go/types"

	"golang.org/x/tools/go/ssa"
)

type specRegion struct {
	ok    bool
	join  *ssa.BasicBlock
	order []*ssa.BasicBlock // region blocks in topological order (excluding join)
}

type specAbort struct{}

const specMaxBlocks = 14

func pureInstr(instr ssa.Instruction) bool {
	switch i := instr.(type) {
	case *ssa.DebugRef, *ssa.Phi, *ssa.Jump, *ssa.If, *ssa.ChangeType, *ssa.Field, *ssa.FieldAddr:
		return true
	case *ssa.BinOp:
		return i.Op != token.QUO && i.Op != token.REM
	case *ssa.UnOp:
		return i.Op != token.ARROW
	case *ssa.Convert:
		_, ok1 := i.X.Type().Underlying().(*types.Basic)
		_, ok2 := i.Type().Underlying().(*types.Basic)
		if !ok1 || !ok2 {
			return false
		}
		bi := i.X.Type().Underlying().(*types.Basic).Info()
		bo := i.Type().Underlying().(*types.Basic).Info()
		return bi&types.IsInteger != 0 && bo&types.IsInteger != 0
	case *ssa.Call:
		// the fork-free connectives of the harness API are pure
		if callee := i.Call.StaticCallee(); callee != nil {
			switch callee.String() {
			case ndPkg + ".And", ndPkg + ".Or", ndPkg + ".Not", ndPkg + ".Implies", ndPkg + ".Iff",
				ndPkg + ".Ite", ndPkg + ".IteInt", ndPkg + ".IteU8", ndPkg + ".IteBool":
				return true
			}
		}
		return false
	}
	return false
}

func (e *Engine) regionFor(ifBlock *ssa.BasicBlock) *specRegion {
	if r, ok := e.specCache.Load(ifBlock); ok {
		return r.(*specRegion)
	}
	r := computeRegion(ifBlock)
	e.specCache.Store(ifBlock, r)
	return r
}

func computeRegion(ifBlock *ssa.BasicBlock) *specRegion {
	bad := &specRegion{}
	if len(ifBlock.Succs) != 2 {
		return bad
	}
	// bounded forward reachability from each successor
	reach := func(start *ssa.BasicBlock) (map[*ssa.BasicBlock]int, bool) {
		dist := map[*ssa.BasicBlock]int{start: 0}
		queue := []*ssa.BasicBlock{start}
		for len(queue) > 0 {
			b := queue[0]
			queue = queue[1:]
			for _, s := range b.Succs {
				if _, ok := dist[s]; !ok {
					dist[s] = dist[b] + 1
					queue = append(queue, s)
					if len(dist) > 3*specMaxBlocks {
						return dist, false
					}
				}
			}
		}
		return dist, true
	}
	r0, _ := reach(ifBlock.Succs[0])
	r1, _ := reach(ifBlock.Succs[1])
	// candidate joins: common blocks, nearest first
	var cands []*ssa.BasicBlock
	for b := range r0 {
		if _, ok := r1[b]; ok {
			cands = append(cands, b)
		}
	}
	// sort by distance sum
	for i := 1; i < len(cands); i++ {
		for j := i; j > 0 && (r0[cands[j]]+r1[cands[j]] < r0[cands[j-1]]+r1[cands[j-1]] ||
			(r0[cands[j]]+r1[cands[j]] == r0[cands[j-1]]+r1[cands[j-1]] && cands[j].Index < cands[j-1].Index)); j-- {
			cands[j], cands[j-1] = cands[j-1], cands[j]
		}
	}
	for _, J := range cands {
		if J == ifBlock {
			continue
		}
		// region: blocks reachable from succs without passing through J
		region := map[*ssa.BasicBlock]bool{}
		var stack []*ssa.BasicBlock
		for _, s := range ifBlock.Succs {
			if s != J && !region[s] {
				region[s] = true
				stack = append(stack, s)
			}
		}
		okRegion := true
		for len(stack) > 0 && okRegion {
			b := stack[len(stack)-1]
			stack = stack[:len(stack)-1]
			for _, s := range b.Succs {
				if s == J {
					continue
				}
				if s == ifBlock {
					okRegion = false
					break
				}
				if !region[s] {
					region[s] = true
					stack = append(stack, s)
					if len(region) > specMaxBlocks {
						okRegion = false
						break
					}
				}
			}
		}
		if !okRegion {
			continue
		}
		// closedness: every region block's preds are in region or ifBlock; every exit goes to J
		for b := range region {
			if len(b.Succs) == 0 {
				okRegion = false
				break
			}
			for _, p := range b.Preds {
				if p != ifBlock && !region[p] {
					okRegion = false
				}
			}
			for _, instr := range b.Instrs {
				if !pureInstr(instr) {
					okRegion = false
					break
				}
			}
			if !okRegion {
				break
			}
		}
		if !okRegion {
			continue
		}
		// J's preds from outside the region (other than ifBlock) are fine: they are other paths into J.
		// topological order (Kahn) within region
		indeg := map[*ssa.BasicBlock]int{}
		for b := range region {
			for _, p := range b.Preds {
				if region[p] {
					indeg[b]++
				}
			}
		}
		var order []*ssa.BasicBlock
		var ready []*ssa.BasicBlock
		for b := range region {
			if indeg[b] == 0 {
				ready = append(ready, b)
			}
		}
		for len(ready) > 0 {
			// deterministic: smallest index first
			mi := 0
			for i := range ready {
				if ready[i].Index < ready[mi].Index {
					mi = i
				}
			}
			b := ready[mi]
			ready = append(ready[:mi], ready[mi+1:]...)
			order = append(order, b)
			for _, s := range b.Succs {
				if region[s] {
					indeg[s]--
					if indeg[s] == 0 {
						ready = append(ready, s)
					}
				}
			}
		}
		if len(order) != len(region) {
			continue // cycle
		}
		return &specRegion{ok: true, join: J, order: order}
	}
	return bad
}

// trySpeculate evaluates the diamond below an If with symbolic condition. Returns
// true when it succeeded and fr.block has been advanced to the join block.
func (in *Interp) trySpeculate(fr *frame, cond *Term) (done bool) {
	if in.speculating || noSpeculation {
		return false
	}
	ifBlock := fr.block
	reg := in.eng.regionFor(ifBlock)
	if !reg.ok {
		return false
	}
	ts := in.ts
	type edge struct{ from, to *ssa.BasicBlock }
	guard := map[edge]*Term{}
	addEdge := func(from, to *ssa.BasicBlock, g *Term) {
		e := edge{from, to}
		if old, ok := guard[e]; ok {
			guard[e] = ts.Or(old, g)
		} else {
			guard[e] = g
		}
	}
	if ifBlock.Succs[0] == ifBlock.Succs[1] {
		return false
	}
	addEdge(ifBlock, ifBlock.Succs[0], cond)
	addEdge(ifBlock, ifBlock.Succs[1], ts.Not(cond))

	saveSteps := in.steps
	in.speculating = true
	written := []ssa.Value{}
	defer func() {
		in.speculating = false
		if r := recover(); r != nil {
			switch r.(type) {
			case specAbort, targetPanic:
				// undo and fall back to forking
				for _, v := range written {
					delete(fr.env, v)
				}
				in.steps = saveSteps
				done = false
				return
			}
			panic(r)
		}
	}()

	phiValue := func(b *ssa.BasicBlock, phi *ssa.Phi) Value {
		var acc Value
		var have bool
		for i, p := range b.Preds {
			g, ok := guard[edge{p, b}]
			if !ok || (g.IsConst() && g.c == 0) {
				continue
			}
			v := fr.get(phi.Edges[i])
			if !have {
				acc, have = v, true
				continue
			}
			m, ok := in.mergeVal(g, v, acc)
			if !ok {
				panic(specAbort{})
			}
			acc = m
		}
		if !have {
			panic(specAbort{})
		}
		return acc
	}

	for _, b := range reg.order {
		// block guard
		bg := ts.Bool(false)
		for _, p := range b.Preds {
			if g, ok := guard[edge{p, b}]; ok {
				bg = ts.Or(bg, g)
			}
		}
		if bg.IsConst() && bg.c == 0 {
			continue // dead on this path
		}
		// phis (parallel)
		var phis []*ssa.Phi
		var pvals []Value
		for _, instr := range b.Instrs {
			phi, ok := instr.(*ssa.Phi)
			if !ok {
				break
			}
			phis = append(phis, phi)
			pvals = append(pvals, phiValue(b, phi))
		}
		for i, phi := range phis {
			fr.env[phi] = pvals[i]
			written = append(written, phi)
		}
		for _, instr := range b.Instrs {
			in.steps++
			switch instr := instr.(type) {
			case *ssa.Phi, *ssa.DebugRef:
			case *ssa.Jump:
				addEdge(b, b.Succs[0], bg)
			case *ssa.If:
				c := fr.get(instr.Cond).(*Term)
				if b.Succs[0] == b.Succs[1] {
					addEdge(b, b.Succs[0], bg)
				} else {
					addEdge(b, b.Succs[0], ts.And(bg, c))
					addEdge(b, b.Succs[1], ts.And(bg, ts.Not(c)))
				}
			default:
				saved := fr.block
				fr.block = b
				in.visitInstr(fr, instr)
				fr.block = saved
				if v, ok := instr.(ssa.Value); ok {
					written = append(written, v)
				}
			}
		}
	}
	// join: phis over edges coming from the region / the if block
	J := reg.join
	var phis []*ssa.Phi
	var pvals []Value
	for _, instr := range J.Instrs {
		phi, ok := instr.(*ssa.Phi)
		if !ok {
			break
		}
		phis = append(phis, phi)
		pvals = append(pvals, phiValue(J, phi))
	}
	for i, phi := range phis {
		fr.env[phi] = pvals[i]
	}
	in.res.Merged++
	fr.prevBlock, fr.block = ifBlock, J
	return true
}
