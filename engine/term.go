package main

// Term DAG: bit-vector and boolean SMT terms with eager constant folding and
// per-path hash-consing. Width 0 = Bool; widths 1..64 = (_ BitVec w).

import (
	"fmt"
	"math/bits"
	"strconv"
	"strings"
)

type Op uint8

const (
	OpConst Op = iota
	OpVar
	OpNot  // bool
	OpAnd  // bool, n-ary (2)
	OpOr   // bool
	OpIte  // cond, a, b (a,b same sort)
	OpEq   // a, b -> bool
	OpBvAdd
	OpBvSub
	OpBvMul
	OpBvUDiv
	OpBvSDiv
	OpBvURem
	OpBvSRem
	OpBvAnd
	OpBvOr
	OpBvXor
	OpBvNot
	OpBvNeg
	OpBvShl
	OpBvLShr
	OpBvAShr
	OpBvULt
	OpBvULe
	OpBvSLt
	OpBvSLe
	OpZExt    // arg, to width w
	OpSExt    // arg, to width w
	OpExtract // arg, low bits w (extract w-1..0) — aux = low bit
	OpUF      // uninterpreted function application: name, args
)

var opNames = map[Op]string{
	OpNot: "not", OpAnd: "and", OpOr: "or", OpIte: "ite", OpEq: "=",
	OpBvAdd: "bvadd", OpBvSub: "bvsub", OpBvMul: "bvmul", OpBvUDiv: "bvudiv", OpBvSDiv: "bvsdiv",
	OpBvURem: "bvurem", OpBvSRem: "bvsrem", OpBvAnd: "bvand", OpBvOr: "bvor", OpBvXor: "bvxor",
	OpBvNot: "bvnot", OpBvNeg: "bvneg", OpBvShl: "bvshl", OpBvLShr: "bvlshr", OpBvAShr: "bvashr",
	OpBvULt: "bvult", OpBvULe: "bvule", OpBvSLt: "bvslt", OpBvSLe: "bvsle",
}

type Term struct {
	op   Op
	w    int // 0 = bool
	args []*Term
	c    uint64 // constant value (masked), or aux for Extract (low bit)
	name string // var / UF name
	id   int
}

func (t *Term) IsConst() bool { return t.op == OpConst }
func (t *Term) IsBool() bool  { return t.w == 0 }

// TermStore hash-conses terms of one path execution.
type TermStore struct {
	tab    map[string]*Term
	nextID int
	vars   []*Term
	ufs    map[string]*ufDecl
	ufList []*ufDecl
	tt, ff *Term
}

type ufDecl struct {
	name string
	args []int
	ret  int
}

func NewTermStore() *TermStore {
	ts := &TermStore{tab: map[string]*Term{}, ufs: map[string]*ufDecl{}}
	ts.tt = &Term{op: OpConst, w: 0, c: 1, id: ts.newID()}
	ts.ff = &Term{op: OpConst, w: 0, c: 0, id: ts.newID()}
	return ts
}

func (ts *TermStore) newID() int { ts.nextID++; return ts.nextID }

func mask(w int) uint64 {
	if w >= 64 {
		return ^uint64(0)
	}
	return (uint64(1) << uint(w)) - 1
}

func sext64(v uint64, w int) int64 {
	if w >= 64 {
		return int64(v)
	}
	sh := uint(64 - w)
	return int64(v<<sh) >> sh
}

func (ts *TermStore) Bool(b bool) *Term {
	if b {
		return ts.tt
	}
	return ts.ff
}

func (ts *TermStore) Const(w int, v uint64) *Term {
	if w == 0 {
		return ts.Bool(v != 0)
	}
	v &= mask(w)
	key := "c" + strconv.Itoa(w) + ":" + strconv.FormatUint(v, 16)
	if t, ok := ts.tab[key]; ok {
		return t
	}
	t := &Term{op: OpConst, w: w, c: v, id: ts.newID()}
	ts.tab[key] = t
	return t
}

func (ts *TermStore) Var(name string, w int) *Term {
	t := &Term{op: OpVar, w: w, name: name, id: ts.newID()}
	ts.vars = append(ts.vars, t)
	return t
}

func (ts *TermStore) mk(op Op, w int, aux uint64, args ...*Term) *Term {
	var sb strings.Builder
	sb.WriteByte(byte('A' + op))
	sb.WriteString(strconv.Itoa(w))
	if aux != 0 {
		sb.WriteByte('x')
		sb.WriteString(strconv.FormatUint(aux, 10))
	}
	for _, a := range args {
		sb.WriteByte(',')
		sb.WriteString(strconv.Itoa(a.id))
	}
	key := sb.String()
	if t, ok := ts.tab[key]; ok {
		return t
	}
	t := &Term{op: op, w: w, c: aux, args: append([]*Term(nil), args...), id: ts.newID()}
	ts.tab[key] = t
	return t
}

func (ts *TermStore) Not(a *Term) *Term {
	if a.IsConst() {
		return ts.Bool(a.c == 0)
	}
	if a.op == OpNot {
		return a.args[0]
	}
	return ts.mk(OpNot, 0, 0, a)
}

func (ts *TermStore) And(a, b *Term) *Term {
	if a.IsConst() {
		if a.c == 0 {
			return ts.ff
		}
		return b
	}
	if b.IsConst() {
		if b.c == 0 {
			return ts.ff
		}
		return a
	}
	if a == b {
		return a
	}
	return ts.mk(OpAnd, 0, 0, a, b)
}

func (ts *TermStore) Or(a, b *Term) *Term {
	if a.IsConst() {
		if a.c != 0 {
			return ts.tt
		}
		return b
	}
	if b.IsConst() {
		if b.c != 0 {
			return ts.tt
		}
		return a
	}
	if a == b {
		return a
	}
	return ts.mk(OpOr, 0, 0, a, b)
}

func (ts *TermStore) Implies(a, b *Term) *Term { return ts.Or(ts.Not(a), b) }

func (ts *TermStore) Ite(c, a, b *Term) *Term {
	if c.IsConst() {
		if c.c != 0 {
			return a
		}
		return b
	}
	if a == b {
		return a
	}
	if a.w != b.w {
		panic(fmt.Sprintf("ite sort mismatch %d %d", a.w, b.w))
	}
	if a.w == 0 {
		if a.IsConst() && b.IsConst() {
			if a.c != 0 {
				return c
			}
			return ts.Not(c)
		}
	}
	return ts.mk(OpIte, a.w, 0, c, a, b)
}

func (ts *TermStore) Eq(a, b *Term) *Term {
	if a.w != b.w {
		panic(fmt.Sprintf("eq sort mismatch %d %d", a.w, b.w))
	}
	if a == b {
		return ts.tt
	}
	if a.IsConst() && b.IsConst() {
		return ts.Bool(a.c == b.c)
	}
	if a.w == 0 {
		// boolean equality with constant
		if a.IsConst() {
			if a.c != 0 {
				return b
			}
			return ts.Not(b)
		}
		if b.IsConst() {
			if b.c != 0 {
				return a
			}
			return ts.Not(a)
		}
	}
	if a.id > b.id {
		a, b = b, a
	}
	return ts.mk(OpEq, 0, 0, a, b)
}

// BinBV builds a bit-vector binary arithmetic op with folding.
func (ts *TermStore) BinBV(op Op, a, b *Term) *Term {
	if a.w != b.w || a.w == 0 {
		panic(fmt.Sprintf("bv binop %s sort mismatch %d %d", opNames[op], a.w, b.w))
	}
	w := a.w
	if a.IsConst() && b.IsConst() {
		if v, ok := foldBV(op, w, a.c, b.c); ok {
			return ts.Const(w, v)
		}
	}
	// narrow division/remainder by a constant when the dividend is known to be small:
	// a 64-bit divider circuit costs the SAT back end ~0.1 s each
	if (op == OpBvURem || op == OpBvUDiv) && b.IsConst() && b.c != 0 && w > 8 {
		if ua, ok := ubound(a, 6); ok {
			for _, k := range []int{8, 16, 32} {
				if k < w && ua <= mask(k) && b.c <= mask(k) {
					na := ts.Resize(a, k, false)
					r := ts.BinBV(op, na, ts.Const(k, b.c))
					return ts.Resize(r, w, false)
				}
			}
		}
	}
	// light identities
	switch op {
	case OpBvAdd:
		if a.IsConst() && a.c == 0 {
			return b
		}
		if b.IsConst() && b.c == 0 {
			return a
		}
	case OpBvSub:
		if b.IsConst() && b.c == 0 {
			return a
		}
		if a == b {
			return ts.Const(w, 0)
		}
	case OpBvMul:
		if a.IsConst() && a.c == 1 {
			return b
		}
		if b.IsConst() && b.c == 1 {
			return a
		}
		if (a.IsConst() && a.c == 0) || (b.IsConst() && b.c == 0) {
			return ts.Const(w, 0)
		}
	case OpBvAnd:
		if a == b {
			return a
		}
		if (a.IsConst() && a.c == 0) || (b.IsConst() && b.c == 0) {
			return ts.Const(w, 0)
		}
		if a.IsConst() && a.c == mask(w) {
			return b
		}
		if b.IsConst() && b.c == mask(w) {
			return a
		}
	case OpBvOr:
		if a == b {
			return a
		}
		if a.IsConst() && a.c == 0 {
			return b
		}
		if b.IsConst() && b.c == 0 {
			return a
		}
	case OpBvXor:
		if a == b {
			return ts.Const(w, 0)
		}
		if a.IsConst() && a.c == 0 {
			return b
		}
		if b.IsConst() && b.c == 0 {
			return a
		}
	case OpBvShl, OpBvLShr, OpBvAShr:
		if b.IsConst() && b.c == 0 {
			return a
		}
	}
	if (op == OpBvAdd || op == OpBvMul || op == OpBvAnd || op == OpBvOr || op == OpBvXor) && a.id > b.id {
		a, b = b, a
	}
	return ts.mk(op, w, 0, a, b)
}

func foldBV(op Op, w int, a, b uint64) (uint64, bool) {
	m := mask(w)
	switch op {
	case OpBvAdd:
		return (a + b) & m, true
	case OpBvSub:
		return (a - b) & m, true
	case OpBvMul:
		return (a * b) & m, true
	case OpBvUDiv:
		if b == 0 {
			return m, true
		}
		return (a / b) & m, true
	case OpBvURem:
		if b == 0 {
			return a, true
		}
		return (a % b) & m, true
	case OpBvSDiv:
		sa, sb := sext64(a, w), sext64(b, w)
		if sb == 0 {
			if sa < 0 {
				return 1, true
			}
			return m, true
		}
		if sb == -1 {
			return uint64(-sa) & m, true
		}
		return uint64(sa/sb) & m, true
	case OpBvSRem:
		sa, sb := sext64(a, w), sext64(b, w)
		if sb == 0 {
			return a, true
		}
		if sb == -1 {
			return 0, true
		}
		return uint64(sa%sb) & m, true
	case OpBvAnd:
		return a & b, true
	case OpBvOr:
		return a | b, true
	case OpBvXor:
		return a ^ b, true
	case OpBvShl:
		if b >= uint64(w) {
			return 0, true
		}
		return (a << b) & m, true
	case OpBvLShr:
		if b >= uint64(w) {
			return 0, true
		}
		return (a >> b) & m, true
	case OpBvAShr:
		sa := sext64(a, w)
		if b >= uint64(w) {
			if sa < 0 {
				return m, true
			}
			return 0, true
		}
		return uint64(sa>>b) & m, true
	}
	return 0, false
}

// Cmp builds a comparison (result bool).
func (ts *TermStore) Cmp(op Op, a, b *Term) *Term {
	if a.w != b.w || a.w == 0 {
		panic(fmt.Sprintf("bv cmp sort mismatch %d %d", a.w, b.w))
	}
	if a.IsConst() && b.IsConst() {
		switch op {
		case OpBvULt:
			return ts.Bool(a.c < b.c)
		case OpBvULe:
			return ts.Bool(a.c <= b.c)
		case OpBvSLt:
			return ts.Bool(sext64(a.c, a.w) < sext64(b.c, b.w))
		case OpBvSLe:
			return ts.Bool(sext64(a.c, a.w) <= sext64(b.c, b.w))
		}
	}
	if a == b {
		return ts.Bool(op == OpBvULe || op == OpBvSLe)
	}
	// cheap unsigned interval reasoning (index < len after % n, masks, zero extensions)
	if ua, ok := ubound(a, 6); ok {
		if lb, ok2 := lbound(b); ok2 {
			nonneg := ua < 1<<uint(a.w-1) && (b.IsConst() && b.c < 1<<uint(b.w-1))
			switch op {
			case OpBvULt:
				if ua < lb {
					return ts.tt
				}
			case OpBvULe:
				if ua <= lb {
					return ts.tt
				}
			case OpBvSLt:
				if nonneg && ua < lb {
					return ts.tt
				}
			case OpBvSLe:
				if nonneg && ua <= lb {
					return ts.tt
				}
			}
		}
	}
	return ts.mk(op, 0, 0, a, b)
}

func (ts *TermStore) BvNot(a *Term) *Term {
	if a.IsConst() {
		return ts.Const(a.w, ^a.c)
	}
	return ts.mk(OpBvNot, a.w, 0, a)
}

func (ts *TermStore) BvNeg(a *Term) *Term {
	if a.IsConst() {
		return ts.Const(a.w, -a.c)
	}
	return ts.mk(OpBvNeg, a.w, 0, a)
}

// Resize converts a to width w, sign- or zero-extending, or truncating.
func (ts *TermStore) Resize(a *Term, w int, signed bool) *Term {
	if a.w == 0 {
		panic("resize of bool")
	}
	if a.w == w {
		return a
	}
	if a.IsConst() {
		if w < a.w {
			return ts.Const(w, a.c)
		}
		if signed {
			return ts.Const(w, uint64(sext64(a.c, a.w)))
		}
		return ts.Const(w, a.c)
	}
	if w < a.w {
		return ts.mk(OpExtract, w, 0, a)
	}
	if signed {
		return ts.mk(OpSExt, w, 0, a)
	}
	return ts.mk(OpZExt, w, 0, a)
}

func (ts *TermStore) UF(name string, ret int, args ...*Term) *Term {
	d, ok := ts.ufs[name]
	if !ok {
		d = &ufDecl{name: name, ret: ret}
		for _, a := range args {
			d.args = append(d.args, a.w)
		}
		ts.ufs[name] = d
		ts.ufList = append(ts.ufList, d)
	} else {
		if len(d.args) != len(args) || d.ret != ret {
			panic("UF " + name + " used with inconsistent signature")
		}
	}
	var sb strings.Builder
	sb.WriteString("U" + name)
	for _, a := range args {
		sb.WriteByte(',')
		sb.WriteString(strconv.Itoa(a.id))
	}
	key := sb.String()
	if t, ok := ts.tab[key]; ok {
		return t
	}
	t := &Term{op: OpUF, w: ret, name: name, args: append([]*Term(nil), args...), id: ts.newID()}
	ts.tab[key] = t
	return t
}

func sortStr(w int) string {
	if w == 0 {
		return "Bool"
	}
	return "(_ BitVec " + strconv.Itoa(w) + ")"
}

func constStr(w int, v uint64) string {
	if w == 0 {
		if v != 0 {
			return "true"
		}
		return "false"
	}
	if w%4 == 0 {
		return "#x" + fmt.Sprintf("%0*x", w/4, v&mask(w))
	}
	return "#b" + fmt.Sprintf("%0*b", w, v&mask(w))
}

// ref returns the SMT reference of a term: constants inline, everything else by name.
func (t *Term) ref() string {
	switch t.op {
	case OpConst:
		return constStr(t.w, t.c)
	case OpVar:
		return t.name
	}
	return "t" + strconv.Itoa(t.id)
}

// body returns the SMT-LIB expression defining t in terms of refs of its args.
func (t *Term) body() string {
	switch t.op {
	case OpZExt:
		return fmt.Sprintf("((_ zero_extend %d) %s)", t.w-t.args[0].w, t.args[0].ref())
	case OpSExt:
		return fmt.Sprintf("((_ sign_extend %d) %s)", t.w-t.args[0].w, t.args[0].ref())
	case OpExtract:
		return fmt.Sprintf("((_ extract %d 0) %s)", t.w-1, t.args[0].ref())
	case OpUF:
		if len(t.args) == 0 {
			return t.name
		}
		var sb strings.Builder
		sb.WriteString("(" + t.name)
		for _, a := range t.args {
			sb.WriteByte(' ')
			sb.WriteString(a.ref())
		}
		sb.WriteByte(')')
		return sb.String()
	}
	var sb strings.Builder
	sb.WriteString("(" + opNames[t.op])
	for _, a := range t.args {
		sb.WriteByte(' ')
		sb.WriteString(a.ref())
	}
	sb.WriteByte(')')
	return sb.String()
}

// Model is an assignment to inputs and uninterpreted functions.
type Model struct {
	vars map[*Term]uint64
	uf   map[string]uint64 // "name|arg,arg,..." -> value (applications not listed get 0, recorded on demand)
	memo map[*Term]uint64
}

func (m *Model) evalT(t *Term) uint64 {
	return t.evalM(m)
}

func ufKey(name string, args []uint64) string {
	var sb strings.Builder
	sb.WriteString(name)
	for _, a := range args {
		sb.WriteByte('|')
		sb.WriteString(strconv.FormatUint(a, 16))
	}
	return sb.String()
}

func (t *Term) evalM(m *Model) uint64 {
	if t.op == OpConst {
		return t.c
	}
	if v, ok := m.memo[t]; ok {
		return v
	}
	var r uint64
	switch t.op {
	case OpVar:
		r = m.vars[t]
	case OpUF:
		args := make([]uint64, len(t.args))
		for i, a := range t.args {
			args[i] = a.evalM(m)
		}
		k := ufKey(t.name, args)
		v, ok := m.uf[k]
		if !ok {
			m.uf[k] = 0
		}
		r = v
	case OpNot:
		if t.args[0].evalM(m) == 0 {
			r = 1
		}
	case OpAnd:
		if t.args[0].evalM(m) != 0 && t.args[1].evalM(m) != 0 {
			r = 1
		}
	case OpOr:
		if t.args[0].evalM(m) != 0 || t.args[1].evalM(m) != 0 {
			r = 1
		}
	case OpIte:
		if t.args[0].evalM(m) != 0 {
			r = t.args[1].evalM(m)
		} else {
			r = t.args[2].evalM(m)
		}
	default:
		// strict operators: evaluate args then reuse the generic evaluator on constants
		tmp := map[*Term]uint64{}
		for _, a := range t.args {
			tmp[a] = a.evalM(m)
		}
		r = t.evalShallow(tmp)
	}
	m.memo[t] = r
	return r
}

// evalShallow computes t from already evaluated arguments.
func (t *Term) evalShallow(av map[*Term]uint64) uint64 {
	a := func(i int) uint64 { return av[t.args[i]] }
	b2u := func(b bool) uint64 {
		if b {
			return 1
		}
		return 0
	}
	switch t.op {
	case OpEq:
		return b2u(a(0) == a(1))
	case OpBvULt:
		return b2u(a(0) < a(1))
	case OpBvULe:
		return b2u(a(0) <= a(1))
	case OpBvSLt:
		return b2u(sext64(a(0), t.args[0].w) < sext64(a(1), t.args[0].w))
	case OpBvSLe:
		return b2u(sext64(a(0), t.args[0].w) <= sext64(a(1), t.args[0].w))
	case OpBvNot:
		return ^a(0) & mask(t.w)
	case OpBvNeg:
		return -a(0) & mask(t.w)
	case OpZExt:
		return a(0)
	case OpSExt:
		return uint64(sext64(a(0), t.args[0].w)) & mask(t.w)
	case OpExtract:
		return a(0) & mask(t.w)
	}
	v, ok := foldBV(t.op, t.w, a(0), a(1))
	if !ok {
		panic("eval: unhandled op")
	}
	return v
}

// eval evaluates t under a model (vars -> values); UFs need ufEval.
func (t *Term) eval(m map[*Term]uint64, memo map[*Term]uint64) uint64 {
	if t.op == OpConst {
		return t.c
	}
	if v, ok := memo[t]; ok {
		return v
	}
	var r uint64
	a := func(i int) uint64 { return t.args[i].eval(m, memo) }
	b2u := func(b bool) uint64 {
		if b {
			return 1
		}
		return 0
	}
	switch t.op {
	case OpVar:
		r = m[t]
	case OpNot:
		r = b2u(a(0) == 0)
	case OpAnd:
		r = b2u(a(0) != 0 && a(1) != 0)
	case OpOr:
		r = b2u(a(0) != 0 || a(1) != 0)
	case OpIte:
		if a(0) != 0 {
			r = a(1)
		} else {
			r = a(2)
		}
	case OpEq:
		r = b2u(a(0) == a(1))
	case OpBvULt:
		r = b2u(a(0) < a(1))
	case OpBvULe:
		r = b2u(a(0) <= a(1))
	case OpBvSLt:
		r = b2u(sext64(a(0), t.args[0].w) < sext64(a(1), t.args[0].w))
	case OpBvSLe:
		r = b2u(sext64(a(0), t.args[0].w) <= sext64(a(1), t.args[0].w))
	case OpBvNot:
		r = ^a(0) & mask(t.w)
	case OpBvNeg:
		r = -a(0) & mask(t.w)
	case OpZExt:
		r = a(0)
	case OpSExt:
		r = uint64(sext64(a(0), t.args[0].w)) & mask(t.w)
	case OpExtract:
		r = a(0) & mask(t.w)
	case OpUF:
		panic("eval of UF term")
	default:
		v, ok := foldBV(t.op, t.w, a(0), a(1))
		if !ok {
			panic("eval: unhandled op")
		}
		r = v
	}
	memo[t] = r
	return r
}

var _ = bits.Len64

// ubound returns an upper bound of t as an unsigned number, when one is cheaply known.
func ubound(t *Term, depth int) (uint64, bool) {
	if t.w == 0 {
		return 0, false
	}
	switch t.op {
	case OpConst:
		return t.c, true
	}
	if depth == 0 {
		return 0, false
	}
	switch t.op {
	case OpBvURem:
		if t.args[1].IsConst() && t.args[1].c > 0 {
			return t.args[1].c - 1, true
		}
	case OpZExt:
		if u, ok := ubound(t.args[0], depth-1); ok {
			return u, true
		}
		return mask(t.args[0].w), true
	case OpIte:
		a, ok1 := ubound(t.args[1], depth-1)
		b, ok2 := ubound(t.args[2], depth-1)
		if ok1 && ok2 {
			if a > b {
				return a, true
			}
			return b, true
		}
	case OpBvAnd:
		if t.args[0].IsConst() {
			return t.args[0].c, true
		}
		if t.args[1].IsConst() {
			return t.args[1].c, true
		}
	case OpBvLShr:
		if t.args[1].IsConst() && t.args[1].c < uint64(t.w) {
			return mask(t.w) >> t.args[1].c, true
		}
	case OpBvUDiv:
		if t.args[1].IsConst() && t.args[1].c > 0 {
			return mask(t.w) / t.args[1].c, true
		}
	}
	return 0, false
}

func lbound(t *Term) (uint64, bool) {
	if t.op == OpConst {
		return t.c, true
	}
	return 0, false
}
