package main

import (
	"bufio"
	"encoding/json"
	"flag"
	"fmt"
	"go/ast"
	"os"
	"os/exec"
	"path/filepath"
	"regexp"
	"runtime/pprof"
	"sort"
	"strconv"
	"strings"
	"sync/atomic"
	"time"

	"golang.org/x/tools/go/packages"
)

const modPath = "github.com/buildbarn/bb-storage"

type harnessOpts struct {
	tier     string // "" both, "quick", "thorough"
	maxPaths int
	maxSteps int
	maxDec   int
	maxConc  int
	allowLeak bool
}

func main() {
	prop := flag.String("prop", "", "property id (C01..C20)")
	tier := flag.String("tier", "quick", "quick|thorough")
	repo := flag.String("repo", "/repo", "repository root")
	verif := flag.String("verif", "/verif", "verification root")
	only := flag.String("harness", "", "run only harnesses whose name contains this")
	replay := flag.String("replay", "", "replay a recorded counterexample natively")
	trace := flag.Bool("trace", false, "trace interpreted calls")
	workers := flag.Int("workers", 16, "parallel workers")
	noNative := flag.Bool("no-native", false, "skip native witness validation (debugging only; check is then inconclusive)")
	cpuprof := flag.String("cpuprofile", "", "write CPU profile")
	flag.Parse()
	cpuProfile = *cpuprof
	if *prop == "" {
		fmt.Fprintln(os.Stderr, "usage: symgo -prop Cxx [-tier quick|thorough] [-replay file]")
		os.Exit(2)
	}
	if t := os.Getenv("VERIF_TIER"); t != "" && !isFlagSet("tier") {
		*tier = t
	}
	seed := int64(0)
	if s := os.Getenv("VERIF_SEED"); s != "" {
		seed, _ = strconv.ParseInt(s, 10, 64)
	}
	d := &Driver{prop: *prop, tier: *tier, repo: *repo, verif: *verif, only: *only, trace: *trace, workers: *workers, seed: seed, noNative: *noNative}
	os.Exit(d.run(*replay))
}

func isFlagSet(name string) bool {
	set := false
	flag.Visit(func(f *flag.Flag) {
		if f.Name == name {
			set = true
		}
	})
	return set
}

type Driver struct {
	prop, tier, repo, verif, only string
	trace                         bool
	workers                       int
	seed                          int64
	noNative                      bool

	overlay  map[string][]byte // repo path -> content
	realPath map[string]string // repo path -> file under /verif/harness
	pkgDirs  []string          // repo-relative dirs with harness files for this prop
	scratch  string
}

func (d *Driver) collectOverlay() error {
	d.overlay = map[string][]byte{}
	d.realPath = map[string]string{}
	root := filepath.Join(d.verif, "harness")
	pl := strings.ToLower(d.prop)
	dirs := map[string]bool{}
	err := filepath.Walk(root, func(p string, info os.FileInfo, err error) error {
		if err != nil || info.IsDir() || !strings.HasSuffix(p, ".go") {
			return err
		}
		rel, _ := filepath.Rel(root, p)
		base := filepath.Base(p)
		dir := filepath.Dir(rel)
		take := false
		if dir == "internal/verifnd" || dir == "internal/verifstub" {
			take = true
		} else if strings.HasPrefix(base, "zz_verif_"+pl+"_") || strings.HasPrefix(base, "zz_verif_"+pl+".") {
			take = true
			dirs[dir] = true
		} else if strings.HasPrefix(base, "zz_verif_common") || strings.HasPrefix(base, "zz_verif_hook") {
			take = true // helper files: included when their package is loaded
		}
		if take {
			data, err := os.ReadFile(p)
			if err != nil {
				return err
			}
			d.overlay[filepath.Join(d.repo, rel)] = data
			d.realPath[filepath.Join(d.repo, rel)] = p
		}
		return nil
	})
	if err != nil {
		return err
	}
	for dir := range dirs {
		d.pkgDirs = append(d.pkgDirs, dir)
	}
	sort.Strings(d.pkgDirs)
	if len(d.pkgDirs) == 0 {
		return fmt.Errorf("no harness files for %s under %s", d.prop, root)
	}
	return nil
}

func (d *Driver) run(replay string) int {
	t0 := time.Now()
	if err := d.collectOverlay(); err != nil {
		fmt.Fprintln(os.Stderr, "symgo:", err)
		return 2
	}
	scratch, err := os.MkdirTemp("", "symgo-"+d.prop+"-")
	if err != nil {
		fmt.Fprintln(os.Stderr, "symgo:", err)
		return 2
	}
	d.scratch = scratch
	defer os.RemoveAll(scratch)

	if replay != "" {
		return d.replayOnly(replay)
	}

	var patterns []string
	for _, dir := range d.pkgDirs {
		patterns = append(patterns, "./"+dir)
	}
	eng, err := LoadEngine(d.repo, d.overlay, patterns, "verif")
	if err != nil {
		fmt.Fprintln(os.Stderr, "symgo: load:", err)
		return 2
	}
	eng.trace = d.trace
	eng.workers = d.workers
	eng.rlimit = 0
	fmt.Printf("symgo: loaded %d packages, SSA built in %.1fs\n", len(eng.prog.AllPackages()), eng.loadSecs)

	if cpuProfile != "" {
		f, _ := os.Create(cpuProfile)
		pprof.StartCPUProfile(f)
		go func() { time.Sleep(40 * time.Second); pprof.StopCPUProfile(); f.Close() }()
	}
	opts := d.harnessOptions(eng)
	var specs []*HarnessSpec
	for _, dir := range d.pkgDirs {
		for _, h := range eng.findHarnesses(modPath+"/"+dir, nil) {
			if !strings.HasPrefix(h.Name, d.prop+"_") {
				continue
			}
			if d.only != "" && !strings.Contains(h.Name, d.only) {
				continue
			}
			o := opts[h.Name]
			if o.tier != "" && o.tier != d.tier {
				continue
			}
			h.Covers = eng.staticCovers(h.Fn)
			specs = append(specs, h)
		}
	}
	if len(specs) == 0 {
		fmt.Fprintln(os.Stderr, "symgo: no harness functions found for", d.prop)
		return 2
	}
	thorough = d.tier == "thorough"

	var results []*HarnessResult
	inconclusive := false
	for _, h := range specs {
		o := opts[h.Name]
		lim := Limits{MaxSteps: 4_000_000, MaxDecisions: 4000, MaxCallDepth: 400, MaxConcretize: 70}
		maxPaths := 60000
		if d.tier == "thorough" {
			maxPaths = 600000
			lim.MaxSteps = 20_000_000
		}
		if o.maxPaths > 0 {
			maxPaths = o.maxPaths
		}
		if o.maxSteps > 0 {
			lim.MaxSteps = o.maxSteps
		}
		if o.maxDec > 0 {
			lim.MaxDecisions = o.maxDec
		}
		if o.maxConc > 0 {
			lim.MaxConcretize = o.maxConc
		}
		r := eng.RunHarness(h, lim, maxPaths, d.seed)
		results = append(results, r)
		var missing []string
		for _, c := range h.Covers {
			if !r.Covers[c] {
				missing = append(missing, c)
			}
		}
		status := "ok"
		if len(r.Errors) > 0 || len(r.LimitHit) > 0 || len(missing) > 0 {
			status = "INCONCLUSIVE"
			inconclusive = true
		}
		if len(r.Violations) > 0 {
			status = "candidate-violation"
		}
		fmt.Printf("symgo: %-28s %-20s paths=%d infeasible=%d branches=%d asserts=%d(+%d concrete) steps=%d %.1fs\n",
			h.Name, status, r.Paths, r.Infeasible, r.Branches, r.Asserts, r.AssertsConcrete, r.Steps, r.Wall)
		for _, e := range uniq(r.Errors) {
			fmt.Printf("  error: %s\n", e)
		}
		for i, v := range r.Violations {
			if i < 4 {
				fmt.Printf("  candidate: [%s] %s @ %s\n     %s\n", v.Kind, v.Msg, v.Site, strings.Join(v.Stack, "\n     "))
			}
		}
		for _, e := range uniq(r.LimitHit) {
			fmt.Printf("  bound exceeded: %s\n", e)
		}
		if len(missing) > 0 {
			fmt.Printf("  unreached Cover points (vacuity guard): %s\n", strings.Join(missing, ", "))
		}
	}

	// ---- native replay: violations and coverage witnesses --------------------
	replayDir := filepath.Join(d.verif, "replay", d.prop)
	os.MkdirAll(replayDir, 0o755)
	// remove stale candidate files from earlier runs
	if old, _ := filepath.Glob(filepath.Join(replayDir, "*.json")); old != nil {
		for _, f := range old {
			os.Remove(f)
		}
	}
	type cand struct {
		v    *Violation
		file string
		pkg  string
		spec *HarnessSpec
	}
	var cands []cand
	type wit struct {
		w    *CoverWitness
		h    *HarnessSpec
		file string
	}
	var wits []wit
	byPkg := map[string][]string{} // pkg -> replay files (scratch)
	names := map[string][]string{} // pkg -> harness names
	for _, r := range results {
		names[r.Spec.Pkg] = append(names[r.Spec.Pkg], r.Spec.Name)
		seenSite := map[string]bool{}
		for i, v := range r.Violations {
			key := v.Kind + "|" + v.Site + "|" + v.Msg
			if seenSite[key] {
				continue
			}
			seenSite[key] = true
			f := filepath.Join(replayDir, fmt.Sprintf("%s-%d.json", r.Spec.Name, i))
			writeReplay(f, r.Spec.Name, d.tier, v.Inputs, v.UFTable, map[string]interface{}{"kind": v.Kind, "msg": v.Msg, "site": v.Site, "stack": v.Stack, "property": d.prop,
				"decisions": v.Decision, "hidden": v.Hidden, "schedule_dependent": v.Scheduled})
			cands = append(cands, cand{v: v, file: f, pkg: r.Spec.Pkg, spec: r.Spec})
			byPkg[r.Spec.Pkg] = append(byPkg[r.Spec.Pkg], f)
		}
		var tags []string
		for t := range r.Witnesses {
			tags = append(tags, t)
		}
		sort.Strings(tags)
		seenW := map[*CoverWitness]bool{}
		for i, t := range tags {
			w := r.Witnesses[t]
			if seenW[w] {
				continue
			}
			seenW[w] = true
			f := filepath.Join(d.scratch, fmt.Sprintf("wit-%s-%d.json", r.Spec.Name, i))
			writeReplay(f, r.Spec.Name, d.tier, w.Inputs, w.UFTable, nil)
			wits = append(wits, wit{w: w, h: r.Spec, file: f})
			byPkg[r.Spec.Pkg] = append(byPkg[r.Spec.Pkg], f)
		}
	}
	tracesValidated := 0
	schedWitnesses := 0
	traceMismatch := []string{}
	confirmed := []cand{}
	unconfirmed := []cand{}
	if !d.noNative {
		outcomes := map[string]*nativeOutcome{}
		for pkg, files := range byPkg {
			outs, err := d.nativeRun(pkg, names[pkg], files)
			if err != nil {
				fmt.Printf("symgo: native replay build/run failed for %s: %v\n", pkg, err)
				inconclusive = true
				continue
			}
			for k, v := range outs {
				outcomes[k] = v
			}
		}
		for _, w := range wits {
			if w.w.Scheduled {
				// witnesses whose path depends on scheduler or select choices cannot be forced natively
				schedWitnesses++
				continue
			}
			o := outcomes[filepath.Base(w.file)]
			if o == nil {
				traceMismatch = append(traceMismatch, w.h.Name+": no native outcome for witness "+w.w.Tag)
				continue
			}
			if o.status != "ok" {
				traceMismatch = append(traceMismatch, fmt.Sprintf("%s: witness for [%s] ends natively with %s %s", w.h.Name, w.w.Tag, o.status, o.msg))
				continue
			}
			if strings.Join(o.obs, "\n") != strings.Join(w.w.Obs, "\n") {
				if data, err := os.ReadFile(w.file); err == nil {
					os.WriteFile(filepath.Join(replayDir, "mismatch-"+filepath.Base(w.file)), data, 0o644)
				}
				traceMismatch = append(traceMismatch, fmt.Sprintf("%s: Observe trace differs for witness [%s]\n   engine: %v\n   native: %v", w.h.Name, w.w.Tag, w.w.Obs, o.obs))
				continue
			}
			// cover tags predicted must be hit natively
			okc := true
			for _, tag := range strings.Split(w.w.Tag, ",") {
				if tag == "_first" || tag == "" {
					continue
				}
				if !o.covers[tag] {
					okc = false
					traceMismatch = append(traceMismatch, fmt.Sprintf("%s: native run of witness does not reach Cover %q", w.h.Name, tag))
				}
			}
			if okc {
				tracesValidated++
			}
		}
		for _, c := range cands {
			o := outcomes[filepath.Base(c.file)]
			if o != nil && (o.status == "assert" || o.status == "panic") {
				if o.msg != "" && !strings.Contains(c.v.Msg, o.msg) && !strings.Contains(o.msg, c.v.Msg) {
					// the native run is the ground truth: it fails, but at another assertion than predicted
					nm := o.msg
					if len(nm) > 160 {
						nm = nm[:160] + "…"
					}
					c.v.Msg += " [native run of the same inputs fails with: " + nm + "]"
				}
				confirmed = append(confirmed, c)
			} else if (c.v.Scheduled || strings.HasPrefix(c.v.Msg, "lock discipline:")) && c.spec != nil && eng.ReplayConcrete(c.spec, c.v, Limits{MaxSteps: 20_000_000, MaxDecisions: 4000, MaxCallDepth: 400, MaxConcretize: 70}) {
				// schedule-dependent counterexample: Go's own scheduler cannot be forced to follow the
				// recorded interleaving, so it is confirmed by concrete re-execution of the real code
				// in the engine (all inputs fixed to the model's values, recorded schedule)
				c.v.EngineConfirmed = true
				st := "none"
				if o != nil {
					st = o.status
				}
				fmt.Printf("symgo: counterexample for %s that a native run cannot observe (schedule-dependent, or lock state) confirmed by concrete re-execution of the real code in the engine (native run: %s)\n", c.v.Harness, st)
				confirmed = append(confirmed, c)
			} else {
				unconfirmed = append(unconfirmed, c)
				st := "none"
				if o != nil {
					st = o.status + " " + o.msg
				}
				fmt.Printf("symgo: counterexample for %s (%s) did NOT reproduce natively (native outcome: %s) — encoding or stub mismatch, run is inconclusive\n", c.v.Harness, c.v.Msg, st)
			}
		}
	} else {
		inconclusive = true
	}
	if schedWitnesses > 0 {
		fmt.Printf("symgo: %d coverage witnesses depend on scheduler/select choices and were not replayed natively\n", schedWitnesses)
	}
	if len(traceMismatch) > 0 {
		inconclusive = true
		for _, m := range traceMismatch {
			fmt.Println("symgo: translator validation FAILED:", m)
		}
	}
	if len(unconfirmed) > 0 {
		inconclusive = true
	}

	// ---- known findings --------------------------------------------------------
	known := loadKnown(filepath.Join(d.verif, "known_findings.json"))
	newViolations := 0
	var violationLines []string
	for _, c := range confirmed {
		if k := known.match(d.prop, c.v); k != nil {
			violationLines = append(violationLines, fmt.Sprintf("KNOWN-FINDING: property=%s %s", d.prop, k.What))
			os.Remove(c.file)
			continue
		}
		newViolations++
		violationLines = append(violationLines, fmt.Sprintf("VIOLATION property=%s replay=%s", d.prop, c.file))
		fmt.Printf("symgo: violation in %s: %s\n   site: %s\n   stack: %s\n", c.v.Harness, c.v.Msg, c.v.Site, strings.Join(c.v.Stack, " <- "))
	}
	for _, c := range unconfirmed {
		os.Remove(c.file)
	}

	// ---- evidence ---------------------------------------------------------------
	wall := time.Since(t0).Seconds()
	d.writeEvidence(eng, results, tracesValidated, newViolations, wall, inconclusive)

	for _, l := range violationLines {
		fmt.Println(l)
	}
	if newViolations > 0 {
		return 1
	}
	if inconclusive {
		fmt.Printf("symgo: %s INCONCLUSIVE (%.1fs) — not a pass\n", d.prop, wall)
		return 2
	}
	fmt.Printf("symgo: %s held within the stated bounds (%d harnesses, %.1fs)\n", d.prop, len(results), wall)
	return 0
}

func uniq(in []string) []string {
	seen := map[string]bool{}
	var out []string
	for _, s := range in {
		if !seen[s] {
			seen[s] = true
			out = append(out, s)
		}
	}
	return out
}

var thorough bool
var cpuProfile string

func init() {
	reg(ndPkg+".Thorough", func(in *Interp, fr *frame, a []Value) Value { return in.ts.Bool(thorough) })
	reg(ndPkg+".Replace", func(in *Interp, fr *frame, a []Value) Value {
		if in.replaced == nil {
			in.replaced = map[string]Value{}
		}
		in.replaced[in.argStr(a[0])] = a[1].(Iface).v
		return nil
	})
	reg(ndPkg+".Quiesce", func(in *Interp, fr *frame, a []Value) Value {
		in.drain() // let every other goroutine run until it blocks or finishes
		return nil
	})
	reg(ndPkg+".MutexState", func(in *Interp, fr *frame, a []Value) Value {
		// 0 unlocked, 1 read-locked, 2 write-locked (the pointer may address a Mutex or RWMutex)
		p, ok := a[0].(Iface).v.(*Value)
		if !ok {
			return in.ts.Const(64, ^uint64(0))
		}
		m := in.mutexes[p]
		// sync.RWMutex embeds state in fields; Lock/RLock intrinsics key on the pointer passed to them
		if m == nil {
			return in.ts.Const(64, 0)
		}
		if m.writer {
			return in.ts.Const(64, 2)
		}
		if m.readers > 0 {
			return in.ts.Const(64, 1)
		}
		return in.ts.Const(64, 0)
	})
	reg(ndPkg+".RegisterReset", func(in *Interp, fr *frame, a []Value) Value { return nil })
	reg(ndPkg+".AllowLeak", func(in *Interp, fr *frame, a []Value) Value { in.extra["allowLeak"] = true; return nil })
}

// harnessOptions parses "symgo:" directives from harness doc comments.
func (d *Driver) harnessOptions(eng *Engine) map[string]harnessOpts {
	out := map[string]harnessOpts{}
	re := regexp.MustCompile(`(\w+)=(\w+)`)
	packages.Visit(eng.pkgs, nil, func(p *packages.Package) {
		for _, f := range p.Syntax {
			for _, decl := range f.Decls {
				fd, ok := decl.(*ast.FuncDecl)
				if !ok || !strings.HasPrefix(fd.Name.Name, "Verif_") || fd.Doc == nil {
					continue
				}
				var o harnessOpts
				for _, c := range fd.Doc.List {
					i := strings.Index(c.Text, "symgo:")
					if i < 0 {
						continue
					}
					for _, m := range re.FindAllStringSubmatch(c.Text[i:], -1) {
						n, _ := strconv.Atoi(m[2])
						switch m[1] {
						case "tier":
							o.tier = m[2]
						case "maxpaths":
							o.maxPaths = n
						case "maxsteps":
							o.maxSteps = n
						case "maxdecisions":
							o.maxDec = n
						case "maxconcretize":
							o.maxConc = n
						}
					}
				}
				out[strings.TrimPrefix(fd.Name.Name, "Verif_")] = o
			}
		}
	})
	return out
}

func writeReplay(path, harness, tier string, inputs []uint64, uf []UFEntry, meta map[string]interface{}) {
	m := map[string]interface{}{"harness": harness, "tier": tier, "inputs": inputs, "uf": uf}
	if inputs == nil {
		m["inputs"] = []uint64{}
	}
	if uf == nil {
		m["uf"] = []UFEntry{}
	}
	for k, v := range meta {
		m[k] = v
	}
	data, _ := json.MarshalIndent(m, "", " ")
	os.WriteFile(path, data, 0o644)
}

type nativeOutcome struct {
	status string
	msg    string
	obs    []string
	covers map[string]bool
}

// nativeRun compiles the harnesses of pkg natively (go test -overlay) and runs the replay files.
func (d *Driver) nativeRun(pkg string, harnessNames []string, files []string) (map[string]*nativeOutcome, error) {
	rel := strings.TrimPrefix(pkg, modPath+"/")
	pkgDir := filepath.Join(d.repo, rel)
	rdir, err := os.MkdirTemp(d.scratch, "replays-")
	if err != nil {
		return nil, err
	}
	for _, f := range files {
		data, err := os.ReadFile(f)
		if err != nil {
			return nil, err
		}
		os.WriteFile(filepath.Join(rdir, filepath.Base(f)), data, 0o644)
	}
	// overlay json
	repl := map[string]string{}
	for p, real := range d.realPath {
		repl[p] = real
	}
	// mask the package's own tests (they need generated mocks)
	ents, _ := os.ReadDir(pkgDir)
	pkgName := ""
	for _, e := range ents {
		if strings.HasSuffix(e.Name(), "_test.go") {
			repl[filepath.Join(pkgDir, e.Name())] = ""
		}
	}
	// package name from any harness file in that dir
	for p, data := range d.overlay {
		if filepath.Dir(p) == pkgDir {
			for _, line := range strings.Split(string(data), "\n") {
				if strings.HasPrefix(line, "package ") {
					pkgName = strings.TrimSpace(strings.TrimPrefix(line, "package "))
					break
				}
			}
		}
	}
	if pkgName == "" {
		return nil, fmt.Errorf("cannot determine package name of %s", pkgDir)
	}
	// native function hooks (generated from the current source, never committed to /repo)
	if err := d.applyNativeHooks(pkgDir, repl); err != nil {
		return nil, err
	}
	sort.Strings(harnessNames)
	var sb strings.Builder
	sb.WriteString("//go:build verif\n\npackage " + pkgName + "\n\nimport (\n\t\"testing\"\n\tvnd \"" + ndPkg + "\"\n)\n\n")
	sb.WriteString("func TestVerifReplay(t *testing.T) {\n\tvnd.RunReplays(map[string]func(){\n")
	for _, n := range harnessNames {
		sb.WriteString(fmt.Sprintf("\t\t%q: Verif_%s,\n", n, n))
	}
	sb.WriteString("\t})\n}\n")
	testFile := filepath.Join(d.scratch, "zz_verif_replay_"+pkgName+"_test.go")
	os.WriteFile(testFile, []byte(sb.String()), 0o644)
	repl[filepath.Join(pkgDir, "zz_verif_replay_test.go")] = testFile
	ov, _ := json.Marshal(map[string]interface{}{"Replace": repl})
	ovFile := filepath.Join(d.scratch, "overlay-"+pkgName+".json")
	os.WriteFile(ovFile, ov, 0o644)

	cmd := exec.Command("go", "test", "-tags", "verif", "-vet=off", "-count=1", "-overlay", ovFile, "-run", "^TestVerifReplay$", "-timeout", "240s", "-v", "./"+rel)
	cmd.Dir = d.repo
	var env []string
	for _, kv := range os.Environ() {
		if strings.HasPrefix(kv, "GOTOOLCHAIN=") || strings.HasPrefix(kv, "GOFLAGS=") || strings.HasPrefix(kv, "GOSUMDB=") {
			continue
		}
		env = append(env, kv)
	}
	cmd.Env = append(env, "GOFLAGS=-mod=mod", "GOPROXY=off", "VERIFND_REPLAY_DIR="+rdir)
	out, runErr := cmd.CombinedOutput()
	outcomes := map[string]*nativeOutcome{}
	// A replay that crashes the test process (panic in a goroutine) takes the
	// replays after it down with it: rerun with the finished ones removed.
	for attempt := 0; ; attempt++ {
		crashed := d.parseNativeOutput(out, outcomes)
		remaining := 0
		for _, f := range files {
			if outcomes[filepath.Base(f)] != nil {
				os.Remove(filepath.Join(rdir, filepath.Base(f)))
			} else {
				remaining++
			}
		}
		if !crashed || remaining == 0 || attempt >= len(files) {
			break
		}
		cmd2 := exec.Command(cmd.Args[0], cmd.Args[1:]...)
		cmd2.Dir, cmd2.Env = cmd.Dir, cmd.Env
		out, runErr = cmd2.CombinedOutput()
	}
	if len(outcomes) == 0 && len(files) > 0 {
		tail := string(out)
		if len(tail) > 3000 {
			tail = tail[len(tail)-3000:]
		}
		return nil, fmt.Errorf("go test produced no replay output (err=%v):\n%s", runErr, tail)
	}
	return outcomes, nil
}

// parseNativeOutput folds the output of one native replay process into
// outcomes; it reports whether a replay crashed the process.
func (d *Driver) parseNativeOutput(out []byte, outcomes map[string]*nativeOutcome) (crashed bool) {
	var cur *nativeOutcome
	curName := ""
	sc := bufio.NewScanner(strings.NewReader(string(out)))
	sc.Buffer(make([]byte, 1<<20), 1<<24)
	sawBegin := false
	for sc.Scan() {
		line := sc.Text()
		switch {
		case strings.HasPrefix(line, "VERIFND-BEGIN "):
			curName = strings.TrimPrefix(line, "VERIFND-BEGIN ")
			cur = &nativeOutcome{covers: map[string]bool{}, status: "crash"}
			outcomes[curName] = cur
			sawBegin = true
		case strings.HasPrefix(line, "VERIFND-OBS ") && cur != nil:
			cur.obs = append(cur.obs, strings.TrimPrefix(line, "VERIFND-OBS "))
		case strings.HasPrefix(line, "VERIFND-COVER ") && cur != nil:
			cur.covers[strings.TrimPrefix(line, "VERIFND-COVER ")] = true
		case strings.HasPrefix(line, "VERIFND-END "):
			rest := strings.TrimPrefix(line, "VERIFND-END ")
			parts := strings.SplitN(rest, " ", 2)
			o := outcomes[parts[0]]
			if o == nil {
				o = &nativeOutcome{covers: map[string]bool{}}
				outcomes[parts[0]] = o
			}
			if len(parts) > 1 {
				if i := strings.Index(parts[1], "status="); i >= 0 {
					f := strings.Fields(parts[1][i+7:])
					if len(f) > 0 {
						o.status = f[0]
					}
				}
				if i := strings.Index(parts[1], "msg="); i >= 0 {
					o.msg = parts[1][i+4:]
				}
			}
			cur = nil
		}
	}
	_ = sawBegin
	// a process-level crash (e.g. panic in a goroutine, fatal error) leaves a "crash" status:
	// treat as panic and keep the tail of the output as message
	for _, o := range outcomes {
		if o.status == "crash" {
			o.status = "panic"
			tail := string(out)
			if i := strings.Index(tail, "panic:"); i >= 0 {
				tail = tail[i:]
			} else if i := strings.Index(tail, "fatal error:"); i >= 0 {
				tail = tail[i:]
			}
			if len(tail) > 400 {
				tail = tail[:400]
			}
			o.msg = strings.ReplaceAll(tail, "\n", " | ")
			crashed = true
		}
	}
	return crashed
}

// applyNativeHooks rewrites source files for the native build according to harness/native_hooks.json.
func (d *Driver) applyNativeHooks(pkgDir string, repl map[string]string) error {
	data, err := os.ReadFile(filepath.Join(d.verif, "harness", "native_hooks.json"))
	if err != nil {
		return nil
	}
	var hf struct {
		Hooks []struct {
			File      string `json:"file"`
			AfterLine string `json:"after_line"`
			Insert    string `json:"insert"`
		} `json:"hooks"`
	}
	if err := json.Unmarshal(data, &hf); err != nil {
		return err
	}
	content := map[string][]string{}
	var order []string
	for _, h := range hf.Hooks {
		full := filepath.Join(d.repo, h.File)
		if filepath.Dir(full) != pkgDir {
			continue
		}
		lines, ok := content[full]
		if !ok {
			src, err := os.ReadFile(full)
			if err != nil {
				return err
			}
			lines = strings.Split(string(src), "\n")
			order = append(order, full)
		}
		found := false
		var out []string
		for _, l := range lines {
			out = append(out, l)
			if !found && strings.TrimRight(l, " \t") == h.AfterLine {
				out = append(out, h.Insert)
				found = true
			}
		}
		if !found {
			return fmt.Errorf("native hook: line %q not found in %s", h.AfterLine, h.File)
		}
		content[full] = out
	}
	for i, full := range order {
		gen := filepath.Join(d.scratch, fmt.Sprintf("hooked-%d-%s", i, filepath.Base(full)))
		os.WriteFile(gen, []byte(strings.Join(content[full], "\n")), 0o644)
		repl[full] = gen
	}
	return nil
}

func (d *Driver) replayOnly(file string) int {
	data, err := os.ReadFile(file)
	if err != nil {
		fmt.Fprintln(os.Stderr, "symgo:", err)
		return 2
	}
	var rf struct {
		Harness string `json:"harness"`
		Msg     string `json:"msg"`
	}
	json.Unmarshal(data, &rf)
	// which package holds the harness? look through overlay files
	pkg := ""
	for p, data := range d.overlay {
		if strings.Contains(string(data), "func Verif_"+rf.Harness+"(") {
			rel, _ := filepath.Rel(d.repo, filepath.Dir(p))
			pkg = modPath + "/" + rel
		}
	}
	if pkg == "" {
		fmt.Fprintln(os.Stderr, "symgo: harness", rf.Harness, "not found")
		return 2
	}
	// all harness names of that package for this property
	var names []string
	re := regexp.MustCompile(`func Verif_(\w+)\(`)
	for p, data := range d.overlay {
		rel, _ := filepath.Rel(d.repo, filepath.Dir(p))
		if modPath+"/"+rel != pkg {
			continue
		}
		for _, m := range re.FindAllStringSubmatch(string(data), -1) {
			names = append(names, m[1])
		}
	}
	outs, err := d.nativeRun(pkg, names, []string{file})
	if err != nil {
		fmt.Fprintln(os.Stderr, "symgo: replay:", err)
		return 2
	}
	o := outs[filepath.Base(file)]
	if o == nil {
		fmt.Println("symgo: no outcome")
		return 2
	}
	fmt.Printf("symgo: native replay of %s: status=%s msg=%s\n", rf.Harness, o.status, o.msg)
	for _, l := range o.obs {
		fmt.Println("  obs:", l)
	}
	if o.status == "assert" || o.status == "panic" {
		fmt.Printf("VIOLATION property=%s replay=%s\n", d.prop, file)
		return 1
	}
	// schedule-dependent counterexample: re-execute concretely in the engine under the recorded schedule
	var full struct {
		Harness   string     `json:"harness"`
		Tier      string     `json:"tier"`
		Inputs    []uint64   `json:"inputs"`
		Hidden    []uint64   `json:"hidden"`
		Decisions []Decision `json:"decisions"`
		Sched     bool       `json:"schedule_dependent"`
		Kind      string     `json:"kind"`
		Msg       string     `json:"msg"`
	}
	json.Unmarshal(data, &full)
	if !full.Sched {
		return 0
	}
	rel := strings.TrimPrefix(pkg, modPath+"/")
	eng, err := LoadEngine(d.repo, d.overlay, []string{"./" + rel}, "verif")
	if err != nil {
		fmt.Fprintln(os.Stderr, "symgo: load:", err)
		return 2
	}
	thorough = full.Tier == "thorough"
	for _, h := range eng.findHarnesses(pkg, nil) {
		if h.Name != full.Harness {
			continue
		}
		v := &Violation{Harness: h.Name, Kind: full.Kind, Msg: full.Msg, Inputs: full.Inputs, Hidden: full.Hidden, Decision: full.Decisions, Scheduled: true}
		if eng.ReplayConcrete(h, v, Limits{MaxSteps: 20_000_000, MaxDecisions: 4000, MaxCallDepth: 400, MaxConcretize: 70}) {
			fmt.Println("symgo: schedule-dependent counterexample reproduced by concrete re-execution of the real code under the recorded schedule")
			fmt.Printf("VIOLATION property=%s replay=%s\n", d.prop, file)
			return 1
		}
	}
	return 0
}

// ---- known findings ---------------------------------------------------------

type knownEntry struct {
	Property string `json:"property"`
	Harness  string `json:"harness"`
	Match    string `json:"match"` // substring of the violation message/site
	What     string `json:"what"`
}
type knownFile struct {
	Findings []knownEntry `json:"findings"`
	Fixed    []string     `json:"fixed"`
}

func loadKnown(path string) *knownFile {
	k := &knownFile{}
	data, err := os.ReadFile(path)
	if err == nil {
		json.Unmarshal(data, k)
	}
	return k
}

func (k *knownFile) match(prop string, v *Violation) *knownEntry {
	for i := range k.Findings {
		e := &k.Findings[i]
		if e.Property != prop {
			continue
		}
		if e.Harness != "" && e.Harness != v.Harness {
			continue
		}
		if e.Match != "" && !strings.Contains(v.Msg+" "+v.Site+" "+strings.Join(v.Stack, " "), e.Match) {
			continue
		}
		return e
	}
	return nil
}

// ---- evidence ----------------------------------------------------------------

func (d *Driver) writeEvidence(eng *Engine, results []*HarnessResult, tracesValidated, violations int, wall float64, inconclusive bool) {
	states, transitions, asserts := 0, 0, 0
	funcs := map[string]int{}
	var samples []interface{}
	var perHarness []interface{}
	unwindingOK := true
	for _, r := range results {
		states += r.Paths
		transitions += r.Branches
		asserts += r.Asserts
		for f, n := range r.Funcs {
			funcs[f] += n
		}
		if len(r.LimitHit) > 0 {
			unwindingOK = false
		}
		var tags []string
		for t := range r.Witnesses {
			tags = append(tags, t)
		}
		sort.Strings(tags)
		for i, t := range tags {
			if i >= 2 {
				break
			}
			w := r.Witnesses[t]
			in := w.Inputs
			if len(in) > 24 {
				in = in[:24]
			}
			samples = append(samples, map[string]interface{}{"harness": r.Spec.Name, "cover": t, "witness_inputs": in, "observe_trace": w.Obs})
		}
		if r.Obligation != "" {
			samples = append(samples, map[string]interface{}{"harness": r.Spec.Name, "obligation": r.Obligation})
		}
		perHarness = append(perHarness, map[string]interface{}{
			"harness": r.Spec.Name, "package": r.Spec.Pkg, "paths": r.Paths, "infeasible_paths": r.Infeasible,
			"solver_decided_branches": r.Branches, "assertions_discharged_unsat": r.Asserts, "assertions_concrete": r.AssertsConcrete,
			"ssa_instructions_executed": r.Steps, "covers_reached": sortedKeys(r.Covers), "covers_expected": r.Spec.Covers,
			"bounds_exceeded": uniq(r.LimitHit), "errors": uniq(r.Errors), "wall_s": r.Wall, "candidate_violations": len(r.Violations),
		})
	}
	if len(samples) == 0 {
		samples = append(samples, "no sample")
	}
	var fnames []string
	for f := range funcs {
		if strings.Contains(f, "bb-storage") && !strings.Contains(f, "verifnd") {
			fnames = append(fnames, f)
		}
	}
	sort.Strings(fnames)
	var intr []string
	eng.usedIntrinsics.Range(func(k, v interface{}) bool {
		s := k.(string)
		if !strings.HasPrefix(s, ndPkg) {
			intr = append(intr, s)
		}
		return true
	})
	sort.Strings(intr)
	if states < 1 {
		states = 1
	}
	tr := transitions
	if tr < 1 {
		tr = 1
	}
	ev := map[string]interface{}{
		"property_id": d.prop,
		"tier":        d.tier,
		"seed":        d.seed,
		"level":       "model_checking",
		"wall_s":      wall,
		"violations":  violations,
		"coverage": map[string]interface{}{
			"states":                        states,
			"transitions":                   tr,
			"traces_validated_against_impl": tracesValidated,
			"samples":                       samples,
			"exhaustive":                    false,
			"explanation":                   "states = symbolic paths of the real go/ssa code explored to completion; transitions = branch/concretisation points decided by the SMT solver; each path covers all input values satisfying its path condition within the harness bounds",
			"functions_encoded":             fnames,
			"functions_encoded_count":       len(fnames),
			"harnesses":                     perHarness,
			"queries":                       atomic.LoadInt64(&gStats.Queries),
			"solver_time_s":                 float64(atomic.LoadInt64(&gStats.SolverNs)) / 1e9,
			"solver_results":                map[string]int64{"sat": gStats.Sat, "unsat": gStats.Unsat, "unknown": gStats.Unknown},
			"assertions_discharged":         asserts,
			"unwinding_ok":                  unwindingOK,
			"inconclusive":                  inconclusive,
			"intrinsics_and_models":         intr,
			"solver":                        "z3 " + z3Version(),
			"ssa_load_s":                    eng.loadSecs,
		},
		"assumptions": d.assumptions(),
	}
	data, _ := json.MarshalIndent(ev, "", " ")
	// evidence/<id>.json describes a complete run of the registered check against /repo itself;
	// partial runs (-harness, -no-native) and runs against a scratch copy are filed elsewhere.
	dir := filepath.Join(d.verif, "evidence")
	if d.only != "" || d.noNative || filepath.Clean(d.repo) != "/repo" {
		dir = filepath.Join(d.verif, "replay", "partial-evidence")
	}
	os.MkdirAll(dir, 0o755)
	os.WriteFile(filepath.Join(dir, d.prop+".json"), data, 0o644)
}

func z3Version() string {
	out, err := exec.Command("z3", "--version").Output()
	if err != nil {
		return "?"
	}
	return strings.TrimSpace(string(out))
}

// assumptions reads harness/<prop>.assumptions (one per line), plus generic ones.
func (d *Driver) assumptions() []string {
	out := []string{
		"bounded: every claim holds only within the bounds stated in the harness (sizes, counts, unwinding); exceeding a bound makes the run inconclusive, never a pass",
		"engine semantics of go/ssa instructions (validated per run by replaying solver witnesses natively and comparing Observe traces)",
		"models listed under coverage.intrinsics_and_models stand in for code outside the repository",
		"one goroutine runs at a time (cooperative scheduling at synchronisation operations); data-race freedom between them is assumed",
	}
	data, err := os.ReadFile(filepath.Join(d.verif, "harness", "assumptions", d.prop+".txt"))
	if err == nil {
		for _, l := range strings.Split(string(data), "\n") {
			if l = strings.TrimSpace(l); l != "" {
				out = append(out, l)
			}
		}
	}
	return out
}
