package main

// Intrinsics added for property C20 (pkg/digest).

func init() {
	// stringslite.Clone is unsafe.String over a fresh copy; strings are immutable
	// values in the engine, so the clone is the string itself.
	reg("internal/stringslite.Clone", func(in *Interp, fr *frame, a []Value) Value { return a[0] })
	reg("strings.Clone", func(in *Interp, fr *frame, a []Value) Value { return a[0] })
}
