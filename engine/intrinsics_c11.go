package main

// Models added for C11/C17 (errgroup + context cancellation interpreted from
// source need sync/atomic.Value; sync/atomic.Pointer-free).

func init() {
	// sync/atomic.Value is struct{ v any }; the real code type-puns it through
	// unsafe. One goroutine runs at a time, so plain accesses are atomic.
	valueField := func(in *Interp, p Value) *Value {
		st := (*in.ptrDeref(p)).(Struct)
		return &st[0]
	}
	reg("(*sync/atomic.Value).Load", func(in *Interp, fr *frame, a []Value) Value {
		in.schedPoint("atomic")
		v := *valueField(in, a[0])
		if v == nil {
			return Iface{}
		}
		return v
	})
	reg("(*sync/atomic.Value).Store", func(in *Interp, fr *frame, a []Value) Value {
		in.schedPoint("atomic")
		v, _ := a[1].(Iface)
		if v.t == nil {
			in.goPanic("sync/atomic: store of nil value into Value")
		}
		*valueField(in, a[0]) = v
		return nil
	})
	reg("(*sync/atomic.Value).Swap", func(in *Interp, fr *frame, a []Value) Value {
		in.schedPoint("atomic")
		v, _ := a[1].(Iface)
		if v.t == nil {
			in.goPanic("sync/atomic: swap of nil value into Value")
		}
		f := valueField(in, a[0])
		old := *f
		*f = v
		if old == nil {
			return Iface{}
		}
		return old
	})
}
