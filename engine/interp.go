package main

import (
	"fmt"
	"go/constant"
	"go/token"
	"go/types"
	"os"
	"strings"

	"golang.org/x/tools/go/ssa"
)

// Decision is one entry of a path's decision vector.
type Decision struct {
	Kind string `json:"k"` // "br" branch, "cz" concretisation, "ch" choose, "sc" schedule
	Val  uint64 `json:"v"`
}

type Limits struct {
	MaxSteps     int
	MaxDecisions int
	MaxCallDepth int
	MaxConcretize int
}

type Violation struct {
	Hidden    []uint64
	Scheduled bool // the path contains schedule decisions
	EngineConfirmed bool
	Harness  string
	Msg      string
	Site     string // source position of the failing assertion / panic
	Kind     string // "assert" | "panic" | "deadlock" | "leak"
	Inputs   []uint64
	UFTable  []UFEntry
	Decision []Decision
	Stack    []string
}

type UFEntry struct {
	Name string   `json:"name"`
	Args []uint64 `json:"args"`
	Ret  uint64   `json:"ret"`
}

type CoverWitness struct {
	Scheduled bool // the path depends on scheduler / select choices that a native run cannot be forced to repeat
	Tag     string
	Inputs  []uint64
	UFTable []UFEntry
	Obs     []string // predicted Observe trace under the witness model
}

// PathResult is what one symbolic path produced.
type PathResult struct {
	Pending    [][]Decision
	Violations []*Violation
	Covers     map[string]bool
	Witness    *CoverWitness // model of the complete path, when requested
	Status     string        // "ok" | "infeasible" | "limit" | "error"
	Err        string
	Steps      int
	Branches   int // solver-decided branch points
	Asserts    int // assertions discharged (unsat)
	AssertsConcrete int
	Funcs      map[*ssa.Function]int
	Obligation string // one sample obligation text
	Merged     int    // diamonds evaluated by if-conversion instead of forking
}

type obsRec struct {
	tag  string
	vals []*Term
}

type Interp struct {
	prog    *ssa.Program
	eng     *Engine
	ts      *TermStore
	solver  *Solver
	lim     Limits
	harness string

	prefix []Decision
	dec    []Decision
	res    *PathResult

	pc       []*Term // asserted path condition conjuncts (already sent to solver)
	pcLazy   []*Term // not yet sent
	inputs   []*Term // nondet inputs in creation order
	ufApps   []*Term
	obs      []obsRec
	steps    int
	depth    int
	nvar     int
	globals  map[*ssa.Global]*Value
	inited   map[*ssa.Package]bool
	initing  map[*ssa.Package]bool
	stack    []*frame
	wantWitness bool
	expectPanic string

	// goroutines
	gs      []*Goroutine
	cur     *Goroutine
	killed  bool
	abort   interface{}
	explore bool // schedule exploration on
	mapOrders bool // iteration order of small maps is a decision
	preemptions, preemptionBound int
	nextChanID int

	// modelled runtime objects
	mutexes map[*Value]*mutexState
	onces   map[*Value]bool
	ghost   map[string]*Term // ghost counters (metrics)
	extra   map[string]interface{}
	replaced map[string]Value
	curModel *Model
	hidden   []*Term
	// concrete re-execution of a recorded counterexample
	concrete       []uint64
	concreteHidden []uint64
	concretePos    int
	tolerantInit *ssa.Function
	speculating bool
}

type mutexState struct {
	writer  bool
	readers int
}

type frame struct {
	in        *Interp
	caller    *frame
	fn        *ssa.Function
	block     *ssa.BasicBlock
	prevBlock *ssa.BasicBlock
	env       map[ssa.Value]Value
	locals    []Value
	defers    *deferred
	result    Value
	panicking bool
	panic     interface{}
	callpos   token.Pos
}

type deferred struct {
	fn    Value
	args  []Value
	instr *ssa.Defer
	tail  *deferred
}

func (fr *frame) get(key ssa.Value) Value {
	switch key := key.(type) {
	case nil:
		return nil
	case *ssa.Function:
		return key
	case *ssa.Builtin:
		return key
	case *ssa.Const:
		return fr.in.constValue(key)
	case *ssa.Global:
		return fr.in.globalAddr(key)
	}
	if r, ok := fr.env[key]; ok {
		return r
	}
	unsupported("get: no value for %T: %v in %s", key, key.Name(), fr.fn)
	return nil
}

func (in *Interp) constValue(c *ssa.Const) Value {
	if c.Value == nil {
		return in.zero(c.Type())
	}
	t := c.Type().Underlying()
	if tp, ok := t.(*types.TypeParam); ok {
		_ = tp
		unsupported("constant of type parameter type")
	}
	if b, ok := t.(*types.Basic); ok {
		if b.Info()&types.IsString != 0 {
			if c.Value.Kind() == constant.String {
				return Str{s: constant.StringVal(c.Value)}
			}
			// rune->string constant
			return Str{s: string(rune(c.Int64()))}
		}
		if b.Info()&types.IsFloat != 0 {
			return c.Float64()
		}
		if b.Info()&types.IsComplex != 0 {
			return c.Complex128()
		}
		if b.Kind() == types.Bool || b.Kind() == types.UntypedBool {
			return in.ts.Bool(constant.BoolVal(c.Value))
		}
		w, signed, ok := in.intWidth(b)
		if ok {
			if signed {
				return in.ts.Const(w, uint64(c.Int64()))
			}
			return in.ts.Const(w, c.Uint64())
		}
	}
	unsupported("constant %v of type %s", c, c.Type())
	return nil
}

// ---- decisions ---------------------------------------------------------

func (in *Interp) flushPC() {
	for _, c := range in.pcLazy {
		in.solver.Assert(in.ts, c)
		in.pc = append(in.pc, c)
	}
	in.pcLazy = in.pcLazy[:0]
}

func (in *Interp) assume(c *Term) {
	if c.IsConst() {
		if c.c == 0 {
			panic(pathInfeasible{})
		}
		return
	}
	in.pcLazy = append(in.pcLazy, c)
	if in.curModel != nil && in.curModel.evalT(c) == 0 {
		in.curModel = nil // cached model no longer satisfies the path condition
	}
}

// ensureModel makes in.curModel a model of the current path condition.
func (in *Interp) ensureModel() bool {
	if in.curModel != nil {
		return true
	}
	in.flushPC()
	r, m := in.solveModel(nil)
	if r == Unknown {
		panic(pathLimit{"solver unknown on path condition: " + in.solver.lastError})
	}
	if r == Unsat {
		return false
	}
	in.curModel = m
	return true
}

// solveModel checks pc ∧ extra and returns a model when sat.
func (in *Interp) solveModel(extra *Term) (SatResult, *Model) {
	want := append([]*Term(nil), in.inputs...)
	want = append(want, in.hidden...)
	for _, u := range in.ufApps {
		want = append(want, u)
		want = append(want, u.args...)
	}
	r, vals := in.solver.CheckWithModel(in.ts, extra, want)
	if r != Sat {
		return r, nil
	}
	m := &Model{vars: map[*Term]uint64{}, uf: map[string]uint64{}, memo: map[*Term]uint64{}}
	for i, t := range in.inputs {
		if t.op == OpVar {
			m.vars[t] = vals[i]
		}
	}
	for i, t := range in.hidden {
		m.vars[t] = vals[len(in.inputs)+i]
	}
	k := len(in.inputs) + len(in.hidden)
	for _, u := range in.ufApps {
		ret := vals[k]
		k++
		args := make([]uint64, len(u.args))
		for i := range u.args {
			args[i] = vals[k]
			k++
		}
		m.uf[ufKey(u.name, args)] = ret
	}
	return r, m
}

type pathInfeasible struct{}
type pathLimit struct{ what string }

// decide resolves a symbolic branch condition, forking if both sides are feasible.
func (in *Interp) decide(cond *Term) bool {
	if cond.IsConst() {
		return cond.c != 0
	}
	if in.speculating {
		panic(specAbort{})
	}
	pos := len(in.dec)
	if pos < len(in.prefix) {
		d := in.prefix[pos]
		if d.Kind != "br" {
			unsupported("decision vector mismatch at %d: have %s want br (non-deterministic execution?)", pos, d.Kind)
		}
		in.dec = append(in.dec, d)
		if d.Val != 0 {
			in.assume(cond)
			return true
		}
		in.assume(in.ts.Not(cond))
		return false
	}
	if len(in.dec) >= in.lim.MaxDecisions {
		panic(pathLimit{"decision limit"})
	}
	in.flushPC()
	in.res.Branches++
	if !in.ensureModel() {
		panic(pathInfeasible{})
	}
	// the cached model tells which side is certainly feasible; only the other side needs a query
	mside := in.curModel.evalT(cond) != 0
	other := cond
	if mside {
		other = in.ts.Not(cond)
	}
	ro, mo := in.solveModel(other)
	if ro == Unknown {
		panic(pathLimit{"solver unknown on branch feasibility: " + in.solver.lastError})
	}
	if ro == Unsat {
		v := uint64(0)
		if mside {
			v = 1
		}
		in.dec = append(in.dec, Decision{"br", v})
		if mside {
			in.assume(cond)
		} else {
			in.assume(in.ts.Not(cond))
		}
		return mside
	}
	// both feasible: take true now, queue false
	if debugForks {
		fmt.Printf("symgo: fork at %s cond=%s\n", in.whereDetailed(), termPreview(cond, 4))
	}
	alt := append(append([]Decision(nil), in.dec...), Decision{"br", 0})
	in.res.Pending = append(in.res.Pending, alt)
	in.dec = append(in.dec, Decision{"br", 1})
	if !mside {
		in.curModel = mo // model of pc ∧ cond
	}
	in.assume(cond)
	return true
}

// choose forks over n concrete alternatives without consulting the solver.
func (in *Interp) choose(kind string, n int) int {
	if n <= 0 {
		unsupported("choose(%d)", n)
	}
	if n == 1 {
		return 0
	}
	if in.speculating {
		panic(specAbort{})
	}
	pos := len(in.dec)
	if pos < len(in.prefix) {
		d := in.prefix[pos]
		if d.Kind != kind {
			unsupported("decision vector mismatch at %d: have %s want %s", pos, d.Kind, kind)
		}
		in.dec = append(in.dec, d)
		return int(d.Val)
	}
	if len(in.dec) >= in.lim.MaxDecisions {
		panic(pathLimit{"decision limit"})
	}
	for i := 1; i < n; i++ {
		alt := append(append([]Decision(nil), in.dec...), Decision{kind, uint64(i)})
		in.res.Pending = append(in.res.Pending, alt)
	}
	in.dec = append(in.dec, Decision{kind, 0})
	return 0
}

// concretize returns a concrete value for t, forking over all feasible values.
func (in *Interp) concretize(t *Term) uint64 {
	if t.IsConst() {
		return t.c
	}
	if in.speculating {
		panic(specAbort{})
	}
	pos := len(in.dec)
	if pos < len(in.prefix) {
		d := in.prefix[pos]
		if d.Kind != "cz" {
			unsupported("decision vector mismatch at %d: have %s want cz", pos, d.Kind)
		}
		in.dec = append(in.dec, d)
		in.assume(in.ts.Eq(t, in.ts.Const(t.w, d.Val)))
		return d.Val
	}
	if len(in.dec) >= in.lim.MaxDecisions {
		panic(pathLimit{"decision limit"})
	}
	in.flushPC()
	in.res.Branches++
	// enumerate feasible values
	var vals []uint64
	excl := in.ts.Bool(true)
	for {
		r, m := in.solver.CheckWithModel(in.ts, excl, []*Term{t})
		if r == Unknown {
			panic(pathLimit{"solver unknown during concretisation"})
		}
		if r == Unsat {
			break
		}
		vals = append(vals, m[0])
		excl = in.ts.And(excl, in.ts.Not(in.ts.Eq(t, in.ts.Const(t.w, m[0]))))
		if len(vals) > in.lim.MaxConcretize {
			panic(pathLimit{fmt.Sprintf("concretisation of a value with more than %d feasible values at %s", in.lim.MaxConcretize, in.where())})
		}
	}
	if len(vals) == 0 {
		panic(pathInfeasible{})
	}
	// deterministic order
	for i := 1; i < len(vals); i++ {
		for j := i; j > 0 && vals[j] < vals[j-1]; j-- {
			vals[j], vals[j-1] = vals[j-1], vals[j]
		}
	}
	for _, v := range vals[1:] {
		alt := append(append([]Decision(nil), in.dec...), Decision{"cz", v})
		in.res.Pending = append(in.res.Pending, alt)
	}
	in.dec = append(in.dec, Decision{"cz", vals[0]})
	in.assume(in.ts.Eq(t, in.ts.Const(t.w, vals[0])))
	return vals[0]
}

func (in *Interp) concInt(v Value) int64 {
	t := v.(*Term)
	c := in.concretize(t)
	return sext64(c, t.w)
}

var noSpeculation = os.Getenv("SYMGO_NOSPEC") != ""
var debugForks = os.Getenv("SYMGO_FORKS") != ""

func (in *Interp) whereDetailed() string {
	var parts []string
	for i := len(in.stack) - 1; i >= 0 && len(parts) < 3; i-- {
		fr := in.stack[i]
		parts = append(parts, fr.fn.Name())
	}
	return strings.Join(parts, "<-")
}

func (in *Interp) where() string {
	if len(in.stack) == 0 {
		return "?"
	}
	fr := in.stack[len(in.stack)-1]
	return fr.fn.String()
}

func (in *Interp) stackTrace() []string {
	var out []string
	for i := len(in.stack) - 1; i >= 0 && len(out) < 12; i-- {
		fr := in.stack[i]
		pos := ""
		if fr.callpos != token.NoPos {
			p := in.prog.Fset.Position(fr.callpos)
			pos = fmt.Sprintf(" (called at %s:%d)", shortFile(p.Filename), p.Line)
		}
		out = append(out, fr.fn.String()+pos)
	}
	return out
}

func shortFile(f string) string {
	if i := strings.Index(f, "/repo/"); i >= 0 {
		return f[i+6:]
	}
	if i := strings.LastIndex(f, "/pkg/mod/"); i >= 0 {
		return f[i+9:]
	}
	return f
}

// ---- globals / package init ------------------------------------------

func (in *Interp) globalAddr(g *ssa.Global) *Value {
	if p, ok := in.globals[g]; ok {
		return p
	}
	// lazily initialise the package
	in.ensureInit(g.Pkg)
	if p, ok := in.globals[g]; ok {
		return p
	}
	p := new(Value)
	*p = in.zero(deref(g.Type()))
	in.globals[g] = p
	return p
}

func deref(t types.Type) types.Type {
	if p, ok := t.Underlying().(*types.Pointer); ok {
		return p.Elem()
	}
	panic("deref of non-pointer " + t.String())
}

func (in *Interp) ensureInit(pkg *ssa.Package) {
	if pkg == nil || in.inited[pkg] || in.initing[pkg] {
		return
	}
	in.initing[pkg] = true
	// allocate all globals (zero)
	for _, m := range pkg.Members {
		if g, ok := m.(*ssa.Global); ok {
			if _, ok := in.globals[g]; !ok {
				p := new(Value)
				*p = in.zero(deref(g.Type()))
				in.globals[g] = p
			}
		}
	}
	initFn := pkg.Func("init")
	if initFn != nil && initFn.Blocks != nil && !in.eng.initSkipped(pkg) {
		saveStack := in.stack
		if in.eng.initAllowed(pkg) {
			in.callSSA(nil, token.NoPos, initFn, nil, nil)
		} else {
			// other packages: evaluate the package-level initialisers, tolerating calls
			// the engine has no model for (reflection-based registration and the like)
			in.tolerantInit = initFn
			func() {
				defer func() {
					if r := recover(); r != nil {
						switch r.(type) {
						case engineError, targetPanic, pathLimit:
						default:
							panic(r)
						}
					}
				}()
				in.callSSA(nil, token.NoPos, initFn, nil, nil)
			}()
			in.tolerantInit = nil
		}
		in.stack = saveStack
	}
	in.inited[pkg] = true
	delete(in.initing, pkg)
}

// ---- calls ---------------------------------------------------------------

func (in *Interp) call(caller *frame, pos token.Pos, fn Value, args []Value) Value {
	switch fn := fn.(type) {
	case *ssa.Function:
		if fn == nil {
			in.goPanic("call of nil function")
		}
		return in.callSSA(caller, pos, fn, args, nil)
	case *Closure:
		if fn == nil {
			in.goPanic("call of nil function")
		}
		return in.callSSA(caller, pos, fn.Fn, args, fn.Env)
	case *ssa.Builtin:
		return in.callBuiltin(caller, fn, args)
	case *nativeFunc:
		return fn.f(in, caller, args)
	}
	unsupported("cannot call %T", fn)
	return nil
}

type nativeFunc struct {
	name string
	f    func(in *Interp, caller *frame, args []Value) Value
}

func (in *Interp) goPanic(msg string) {
	panic(targetPanic{v: Iface{t: types.Typ[types.String], v: Str{s: msg}}, msg: msg, stack: in.stackTrace()})
}

func (in *Interp) callSSA(caller *frame, callpos token.Pos, fn *ssa.Function, args []Value, env []Value) Value {
	if in.eng.trace {
		fmt.Printf("%*s-> %s\n", len(in.stack), "", fn)
	}
	if caller != nil && fn.Pkg != nil && fn.Name() == "init" && fn.Pkg.Func("init") == fn {
		// dependency initialisers are not chained: packages are initialised lazily on first use
		return nil
	}
	if len(in.replaced) > 0 {
		if r, ok := in.replaced[fn.String()]; ok {
			return in.call(caller, callpos, r, args)
		}
	}
	if ext := in.eng.intrinsicFor(fn); ext != nil {
		fr := &frame{in: in, caller: caller, fn: fn, callpos: callpos}
		in.stack = append(in.stack, fr)
		r := ext(in, fr, args)
		in.stack = in.stack[:len(in.stack)-1]
		return r
	}
	if fn.Blocks == nil {
		unsupported("call to external function without body or model: %s", fn)
	}
	if len(in.stack) > in.lim.MaxCallDepth {
		panic(pathLimit{"call depth limit in " + fn.String()})
	}
	if fn.Pkg != nil {
		in.ensureInit(fn.Pkg)
	}
	in.res.Funcs[fn]++
	fr := &frame{in: in, caller: caller, fn: fn, callpos: callpos}
	fr.env = make(map[ssa.Value]Value, len(fn.Blocks)*4)
	fr.block = fn.Blocks[0]
	fr.locals = make([]Value, len(fn.Locals))
	for i, l := range fn.Locals {
		fr.locals[i] = in.zero(deref(l.Type()))
		fr.env[l] = &fr.locals[i]
	}
	for i, p := range fn.Params {
		fr.env[p] = args[i]
	}
	for i, fv := range fn.FreeVars {
		fr.env[fv] = env[i]
	}
	in.stack = append(in.stack, fr)
	depth := len(in.stack)
	for fr.block != nil {
		in.runFrame(fr)
	}
	in.stack = in.stack[:depth-1]
	// drop locals to help GC
	fr.env = nil
	return fr.result
}

// runFrame executes fr until it returns, handling target panics via defers.
func (in *Interp) runFrame(fr *frame) {
	depth := len(in.stack)
	defer func() {
		if fr.block == nil {
			return // normal return
		}
		r := recover()
		if r == nil {
			return
		}
		if _, ok := r.(targetPanic); !ok {
			panic(r) // engine-level: propagate
		}
		in.stack = in.stack[:depth]
		fr.panicking = true
		fr.panic = r
		fr.runDefers()
		// recovered: continue at the Recover block
		fr.block = fr.fn.Recover
		if fr.block == nil {
			// function without named results/recover block: return zero result
			fr.result = in.zero(fr.fn.Signature.Results())
			if fr.fn.Signature.Results().Len() == 0 {
				fr.result = nil
			}
		}
	}()

	for {
		if in.eng.trace {
			fmt.Printf("%*s.%s:\n", len(in.stack), "", fr.block)
		}
	block:
		for _, instr := range fr.block.Instrs {
			in.steps++
			if in.steps > in.lim.MaxSteps {
				panic(pathLimit{"step limit"})
			}
			switch in.visitInstr(fr, instr) {
			case kReturn:
				return
			case kNext:
			case kJump:
				break block
			}
		}
	}
}

func (fr *frame) runDefer(d *deferred) {
	var ok bool
	defer func() {
		if !ok {
			r := recover()
			if tp, isTP := r.(targetPanic); isTP {
				// deferred call panicked: replace current panic
				fr.panicking = true
				fr.panic = tp
			} else if r != nil {
				panic(r)
			}
		}
	}()
	fr.in.call(fr, d.instr.Pos(), d.fn, d.args)
	ok = true
}

func (fr *frame) runDefers() {
	for d := fr.defers; d != nil; d = d.tail {
		fr.runDefer(d)
	}
	fr.defers = nil
	if fr.panicking {
		panic(fr.panic)
	}
}

type continuation int

const (
	kNext continuation = iota
	kReturn
	kJump
)

func (in *Interp) prepareCall(fr *frame, call *ssa.CallCommon) (fn Value, args []Value) {
	v := fr.get(call.Value)
	if call.Method == nil {
		fn = v
	} else {
		recv := v.(Iface)
		if recv.t == nil {
			in.goPanic("invalid memory address or nil pointer dereference (method call on nil interface " + call.Method.Name() + ")")
		}
		if no, ok := recv.v.(nativeObj); ok {
			res := call.Signature().Results()
			mname := call.Method.Name()
			var margs []Value
			for _, arg := range call.Args {
				margs = append(margs, copyVal(fr.get(arg)))
			}
			return &nativeFunc{name: "native-method", f: func(in *Interp, caller *frame, args []Value) Value {
				return no.callMethod(in, mname, args, res)
			}}, margs
		}
		f := in.findMethod(recv.t, call.Method.Pkg(), call.Method.Name())
		if f == nil {
			unsupported("method set for dynamic type %v does not contain %s", recv.t, call.Method)
		}
		fn = f
		args = append(args, recv.v)
	}
	for _, arg := range call.Args {
		args = append(args, copyVal(fr.get(arg)))
	}
	return
}

func (in *Interp) visitInstr(fr *frame, instr ssa.Instruction) continuation {
	switch instr := instr.(type) {
	case *ssa.DebugRef:
	case *ssa.UnOp:
		fr.env[instr] = in.unop(fr, instr, fr.get(instr.X))
	case *ssa.BinOp:
		fr.env[instr] = in.binop(instr.Op, instr.X.Type(), fr.get(instr.X), fr.get(instr.Y))
	case *ssa.Call:
		fn, args := in.prepareCall(fr, &instr.Call)
		if in.tolerantInit != nil && fr.fn == in.tolerantInit {
			fr.env[instr] = in.tolerantCall(fr, instr, fn, args)
			break
		}
		fr.env[instr] = in.call(fr, instr.Pos(), fn, args)
	case *ssa.ChangeInterface:
		fr.env[instr] = fr.get(instr.X)
	case *ssa.ChangeType:
		fr.env[instr] = fr.get(instr.X)
	case *ssa.Convert:
		fr.env[instr] = in.conv(instr.Type(), instr.X.Type(), fr.get(instr.X))
	case *ssa.MultiConvert:
		fr.env[instr] = in.conv(instr.Type(), instr.X.Type(), fr.get(instr.X))
	case *ssa.SliceToArrayPointer:
		s := fr.get(instr.X).(Slice)
		n := deref(instr.Type()).Underlying().(*types.Array).Len()
		if int64(len(s.a)) < n {
			in.goPanic("cannot convert slice to array pointer: length too short")
		}
		if s.nil {
			fr.env[instr] = (*Value)(nil)
		} else {
			// share storage: represent array as Array aliasing the slice backing
			var cell Value = Array(s.a[:n:n])
			fr.env[instr] = &cell
		}
	case *ssa.MakeInterface:
		fr.env[instr] = Iface{t: instr.X.Type(), v: copyVal(fr.get(instr.X))}
	case *ssa.Extract:
		fr.env[instr] = fr.get(instr.Tuple).(Tuple)[instr.Index]
	case *ssa.Slice:
		fr.env[instr] = in.sliceOp(fr, instr)
	case *ssa.Return:
		switch len(instr.Results) {
		case 0:
		case 1:
			fr.result = copyVal(fr.get(instr.Results[0]))
		default:
			res := make(Tuple, 0, len(instr.Results))
			for _, r := range instr.Results {
				res = append(res, copyVal(fr.get(r)))
			}
			fr.result = res
		}
		fr.block = nil
		return kReturn
	case *ssa.RunDefers:
		fr.runDefers()
	case *ssa.Panic:
		v := fr.get(instr.X)
		panic(targetPanic{v: v, msg: in.panicMsg(v), stack: in.stackTrace()})
	case *ssa.Send:
		in.chanSend(fr.get(instr.Chan).(*Chan), copyVal(fr.get(instr.X)))
	case *ssa.Store:
		in.store(fr.get(instr.Addr), fr.get(instr.Val))
	case *ssa.If:
		succ := 1
		c := fr.get(instr.Cond).(*Term)
		if !c.IsConst() && in.trySpeculate(fr, c) {
			return kJump
		}
		if in.decide(c) {
			succ = 0
		}
		fr.jump(fr.block.Succs[succ])
		return kJump
	case *ssa.Jump:
		fr.jump(fr.block.Succs[0])
		return kJump
	case *ssa.Defer:
		fn, args := in.prepareCall(fr, &instr.Call)
		defers := &fr.defers
		if instr.DeferStack != nil {
			if into := fr.get(instr.DeferStack); into != nil {
				unsupported("defer with explicit DeferStack")
			}
		}
		*defers = &deferred{fn: fn, args: args, instr: instr, tail: *defers}
	case *ssa.Go:
		fn, args := in.prepareCall(fr, &instr.Call)
		in.spawn(fn, args, instr.Pos())
	case *ssa.MakeChan:
		n := in.concInt(fr.get(instr.Size))
		in.nextChanID++
		fr.env[instr] = &Chan{cap: int(n), id: in.nextChanID}
	case *ssa.Alloc:
		var addr *Value
		if instr.Heap {
			addr = new(Value)
			fr.env[instr] = addr
		} else {
			addr = fr.env[instr].(*Value)
		}
		*addr = in.zero(deref(instr.Type()))
	case *ssa.MakeSlice:
		n := in.concInt(fr.get(instr.Len))
		c := in.concInt(fr.get(instr.Cap))
		if n < 0 || c < n {
			in.goPanic("makeslice: len out of range")
		}
		if c > 1<<22 {
			unsupported("make slice of %d elements", c)
		}
		sl := make([]Value, c)
		z := in.zero(instr.Type().Underlying().(*types.Slice).Elem())
		for i := range sl {
			sl[i] = copyVal(z)
		}
		fr.env[instr] = Slice{a: sl[:n]}
	case *ssa.MakeMap:
		fr.env[instr] = newMap()
	case *ssa.Range:
		fr.env[instr] = in.rangeIter(fr.get(instr.X))
	case *ssa.Next:
		fr.env[instr] = in.iterNext(fr.get(instr.Iter), instr)
	case *ssa.FieldAddr:
		p := fr.get(instr.X)
		if sp, ok := p.(*SymPtr); ok {
			fr.env[instr] = &SymPtr{elems: sp.elems, idx: sp.idx, path: append(append([]int(nil), sp.path...), instr.Field)}
			break
		}
		pv := in.ptrDeref(p)
		st, ok := (*pv).(Struct)
		if !ok {
			unsupported("FieldAddr on %T in %s", *pv, fr.fn)
		}
		fr.env[instr] = &st[instr.Field]
	case *ssa.Field:
		fr.env[instr] = copyVal(fr.get(instr.X).(Struct)[instr.Field])
	case *ssa.IndexAddr:
		fr.env[instr] = in.indexAddr(fr, instr)
	case *ssa.Index:
		fr.env[instr] = in.index(fr, instr)
	case *ssa.Lookup:
		fr.env[instr] = in.lookup(instr, fr.get(instr.X), fr.get(instr.Index))
	case *ssa.MapUpdate:
		m := fr.get(instr.Map).(*Map)
		if m == nil {
			in.goPanic("assignment to entry in nil map")
		}
		in.mapInsert(m, copyVal(fr.get(instr.Key)), copyVal(fr.get(instr.Value)))
	case *ssa.TypeAssert:
		fr.env[instr] = in.typeAssert(instr, fr.get(instr.X).(Iface))
	case *ssa.MakeClosure:
		var bindings []Value
		for _, b := range instr.Bindings {
			bindings = append(bindings, fr.get(b))
		}
		fr.env[instr] = &Closure{instr.Fn.(*ssa.Function), bindings}
	case *ssa.Phi:
		// evaluated at block entry (jump)
	case *ssa.Select:
		fr.env[instr] = in.selectOp(fr, instr)
	default:
		unsupported("unexpected instruction: %T", instr)
	}
	return kNext
}

// jump moves to block b and evaluates its phis in parallel.
func (fr *frame) jump(b *ssa.BasicBlock) {
	prev := fr.block
	fr.prevBlock, fr.block = prev, b
	var idx = -1
	for i, p := range b.Preds {
		if p == prev {
			idx = i
			break
		}
	}
	var vals []Value
	var phis []*ssa.Phi
	for _, instr := range b.Instrs {
		phi, ok := instr.(*ssa.Phi)
		if !ok {
			break
		}
		phis = append(phis, phi)
		vals = append(vals, fr.get(phi.Edges[idx]))
	}
	for i, phi := range phis {
		fr.env[phi] = vals[i]
	}
}

func (in *Interp) panicMsg(v Value) string {
	if i, ok := v.(Iface); ok {
		if s, ok := i.v.(Str); ok {
			return s.GoString()
		}
		if i.t != nil {
			// error values: try Error()
			if m := in.findMethod(i.t, nil, "Error"); m != nil {
				defer func() { recover() }()
				r := in.callSSA(nil, token.NoPos, m, []Value{i.v}, nil)
				if s, ok := r.(Str); ok {
					return s.GoString()
				}
			}
			return "panic value of type " + i.t.String()
		}
		return "panic(nil)"
	}
	return fmt.Sprintf("%v", valString(v))
}

// ptrDeref returns the slot a pointer addresses, raising a nil-dereference panic.
func (in *Interp) ptrDeref(p Value) *Value {
	switch p := p.(type) {
	case *Value:
		if p == nil {
			in.goPanic("invalid memory address or nil pointer dereference")
		}
		return p
	case *SymPtr:
		// concretise the index
		i := in.concretize(p.idx)
		return p.slot(int(i))
	}
	unsupported("dereference of %T", p)
	return nil
}

func (in *Interp) load(p Value) Value {
	if sp, ok := p.(*SymPtr); ok {
		if v, ok := in.symLoad(sp); ok {
			return v
		}
	}
	return copyVal(*in.ptrDeref(p))
}

func (in *Interp) store(p Value, v Value) {
	if sp, ok := p.(*SymPtr); ok {
		if in.symStore(sp, v) {
			return
		}
	}
	storeVal(in.ptrDeref(p), v)
}

// symLoad builds an ITE chain over the elements.
func (in *Interp) symLoad(sp *SymPtr) (Value, bool) {
	n := len(sp.elems)
	if n == 0 {
		return nil, false
	}
	acc := copyVal(*sp.slot(n - 1))
	for i := n - 2; i >= 0; i-- {
		c := in.ts.Eq(sp.idx, in.ts.Const(sp.idx.w, uint64(i)))
		m, ok := in.mergeVal(c, *sp.slot(i), acc)
		if !ok {
			return nil, false
		}
		acc = m
	}
	return acc, true
}

func (in *Interp) symStore(sp *SymPtr, v Value) bool {
	// check mergeability first
	news := make([]Value, len(sp.elems))
	for i := range sp.elems {
		c := in.ts.Eq(sp.idx, in.ts.Const(sp.idx.w, uint64(i)))
		m, ok := in.mergeVal(c, v, *sp.slot(i))
		if !ok {
			return false
		}
		news[i] = m
	}
	for i := range sp.elems {
		storeVal(sp.slot(i), news[i])
	}
	return true
}

// mergeVal returns ite(c, a, b) for values, when representable.
func (in *Interp) mergeVal(c *Term, a, b Value) (Value, bool) {
	if c.IsConst() {
		if c.c != 0 {
			return copyVal(a), true
		}
		return copyVal(b), true
	}
	switch a := a.(type) {
	case *Term:
		bt, ok := b.(*Term)
		if !ok || bt.w != a.w {
			return nil, false
		}
		return in.ts.Ite(c, a, bt), true
	case Struct:
		bs, ok := b.(Struct)
		if !ok || len(bs) != len(a) {
			return nil, false
		}
		out := make(Struct, len(a))
		for i := range a {
			m, ok := in.mergeVal(c, a[i], bs[i])
			if !ok {
				return nil, false
			}
			out[i] = m
		}
		return out, true
	case Array:
		bs, ok := b.(Array)
		if !ok || len(bs) != len(a) {
			return nil, false
		}
		out := make(Array, len(a))
		for i := range a {
			m, ok := in.mergeVal(c, a[i], bs[i])
			if !ok {
				return nil, false
			}
			out[i] = m
		}
		return out, true
	case Str:
		bs, ok := b.(Str)
		if !ok || bs.Len() != a.Len() {
			return nil, false
		}
		if a.b == nil && bs.b == nil && a.s == bs.s {
			return a, true
		}
		out := make([]*Term, a.Len())
		for i := range out {
			out[i] = in.ts.Ite(c, in.strByte(a, i), in.strByte(bs, i))
		}
		return Str{b: out}, true
	case float64:
		if bf, ok := b.(float64); ok && bf == a {
			return a, true
		}
		return nil, false
	case *Value:
		if bp, ok := b.(*Value); ok && bp == a {
			return a, true
		}
		return nil, false
	case Iface:
		bi, ok := b.(Iface)
		if !ok {
			return nil, false
		}
		if a.t == nil && bi.t == nil {
			return a, true
		}
		if a.t == nil || bi.t == nil || !types.Identical(a.t, bi.t) {
			return nil, false
		}
		m, ok := in.mergeVal(c, a.v, bi.v)
		if !ok {
			return nil, false
		}
		return Iface{t: a.t, v: m}, true
	case Slice:
		bs, ok := b.(Slice)
		if ok && a.nil && bs.nil {
			return a, true
		}
		if ok && len(a.a) == len(bs.a) && (len(a.a) == 0 || &a.a[0] == &bs.a[0]) && a.nil == bs.nil {
			return a, true
		}
		return nil, false
	case *Map:
		if bm, ok := b.(*Map); ok && bm == a {
			return a, true
		}
		return nil, false
	case *ssa.Function:
		if bf, ok := b.(*ssa.Function); ok && bf == a {
			return a, true
		}
		return nil, false
	}
	return nil, false
}

func (in *Interp) strByte(s Str, i int) *Term {
	if s.b != nil {
		return s.b[i]
	}
	return in.ts.Const(8, uint64(s.s[i]))
}

func (in *Interp) indexAddr(fr *frame, instr *ssa.IndexAddr) Value {
	x := fr.get(instr.X)
	idx := fr.get(instr.Index).(*Term)
	var elems []Value
	switch x := x.(type) {
	case Slice:
		elems = x.a
	case *Value:
		if x == nil {
			in.goPanic("invalid memory address or nil pointer dereference")
		}
		elems = []Value((*x).(Array))
	case *SymPtr:
		elems = []Value((*in.ptrDeref(x)).(Array))
	default:
		unsupported("IndexAddr on %T", x)
	}
	i, sym := in.boundsCheck(idx, instr.Index.Type(), len(elems))
	if sym == nil {
		return &elems[i]
	}
	// symbolic index: mergeable element kinds get a SymPtr, others are concretised
	if len(elems) > 0 {
		switch elems[0].(type) {
		case *Term, Struct, Array:
			return &SymPtr{elems: elems, idx: sym}
		}
	}
	c := in.concretize(sym)
	return &elems[c]
}

// boundsCheck forks on out-of-range (panic path). Returns a concrete index, or a
// symbolic 64-bit index term known to be within [0,n).
func (in *Interp) boundsCheck(idx *Term, t types.Type, n int) (int, *Term) {
	w, signed, _ := in.intWidth(t)
	_ = w
	i64 := in.ts.Resize(idx, 64, signed)
	if i64.IsConst() {
		v := int64(i64.c)
		if v < 0 || v >= int64(n) {
			in.goPanic(fmt.Sprintf("index out of range [%d] with length %d", v, n))
		}
		return int(v), nil
	}
	inRange := in.ts.Cmp(OpBvULt, i64, in.ts.Const(64, uint64(n)))
	if !in.decide(inRange) {
		in.goPanic(fmt.Sprintf("index out of range [symbolic] with length %d", n))
	}
	return 0, i64
}

func (in *Interp) index(fr *frame, instr *ssa.Index) Value {
	x := fr.get(instr.X)
	idx := fr.get(instr.Index).(*Term)
	switch x := x.(type) {
	case Array:
		i, sym := in.boundsCheck(idx, instr.Index.Type(), len(x))
		if sym == nil {
			return copyVal(x[i])
		}
		if v, ok := in.symLoad(&SymPtr{elems: x, idx: sym}); ok {
			return v
		}
		return copyVal(x[in.concretize(sym)])
	case Str:
		i, sym := in.boundsCheck(idx, instr.Index.Type(), x.Len())
		if sym == nil {
			return in.strByte(x, i)
		}
		n := x.Len()
		acc := in.strByte(x, n-1)
		for j := n - 2; j >= 0; j-- {
			acc = in.ts.Ite(in.ts.Eq(sym, in.ts.Const(64, uint64(j))), in.strByte(x, j), acc)
		}
		return acc
	}
	unsupported("Index on %T", x)
	return nil
}

func (in *Interp) sliceOp(fr *frame, instr *ssa.Slice) Value {
	x := fr.get(instr.X)
	var lo, hi, max int64 = 0, -1, -1
	if instr.Low != nil {
		lo = in.concInt(fr.get(instr.Low))
	}
	if instr.High != nil {
		hi = in.concInt(fr.get(instr.High))
	}
	if instr.Max != nil {
		max = in.concInt(fr.get(instr.Max))
	}
	switch x := x.(type) {
	case Str:
		n := int64(x.Len())
		if hi < 0 {
			hi = n
		}
		if lo < 0 || lo > hi || hi > n {
			in.goPanic(fmt.Sprintf("slice bounds out of range [%d:%d] with length %d", lo, hi, n))
		}
		if x.b != nil {
			if lo == hi {
				return Str{}
			}
			return Str{b: x.b[lo:hi:hi]}
		}
		return Str{s: x.s[lo:hi]}
	case Slice:
		c := int64(cap(x.a))
		if hi < 0 {
			hi = int64(len(x.a))
		}
		if max < 0 {
			max = c
		}
		if lo < 0 || lo > hi || hi > max || max > c {
			in.goPanic(fmt.Sprintf("slice bounds out of range [%d:%d:%d] with capacity %d", lo, hi, max, c))
		}
		if x.nil {
			return Slice{nil: true}
		}
		return Slice{a: x.a[lo:hi:max]}
	case *Value:
		if x == nil {
			in.goPanic("invalid memory address or nil pointer dereference")
		}
		arr := []Value((*x).(Array))
		c := int64(len(arr))
		if hi < 0 {
			hi = c
		}
		if max < 0 {
			max = c
		}
		if lo < 0 || lo > hi || hi > max || max > c {
			in.goPanic(fmt.Sprintf("slice bounds out of range [%d:%d:%d] with capacity %d", lo, hi, max, c))
		}
		return Slice{a: arr[lo:hi:max]}
	}
	unsupported("slice of %T", x)
	return nil
}

func (in *Interp) typeAssert(instr *ssa.TypeAssert, itf Iface) Value {
	var v Value
	var ok bool
	if idst, isIface := instr.AssertedType.Underlying().(*types.Interface); isIface {
		if itf.t != nil && types.Implements(itf.t, idst) {
			v = itf
			ok = true
		} else if itf.t != nil && idst.NumMethods() == 0 {
			v = itf
			ok = true
		}
	} else if itf.t != nil && types.Identical(itf.t, instr.AssertedType) {
		v = copyVal(itf.v)
		ok = true
	}
	if !ok {
		if !instr.CommaOk {
			ts := "nil"
			if itf.t != nil {
				ts = itf.t.String()
			}
			in.goPanic(fmt.Sprintf("interface conversion: interface is %s, not %s", ts, instr.AssertedType))
		}
		v = in.zero(instr.AssertedType)
	}
	if instr.CommaOk {
		return Tuple{v, in.ts.Bool(ok)}
	}
	return v
}

// findMethod looks a method up in the method set of t; nil when absent.
func (in *Interp) findMethod(t types.Type, pkg *types.Package, name string) *ssa.Function {
	sel := in.prog.MethodSets.MethodSet(t).Lookup(pkg, name)
	if sel == nil {
		return nil
	}
	return in.prog.MethodValue(sel)
}

// tolerantCall runs a call made directly by a tolerated package initialiser; if the
// callee cannot be interpreted the call yields zero values.
func (in *Interp) tolerantCall(fr *frame, instr *ssa.Call, fn Value, args []Value) (res Value) {
	depth := len(in.stack)
	saved := in.tolerantInit
	in.tolerantInit = nil
	defer func() {
		in.tolerantInit = saved
		if r := recover(); r != nil {
			switch r.(type) {
			case engineError, targetPanic:
				in.stack = in.stack[:depth]
				rs := instr.Call.Signature().Results()
				if rs.Len() == 0 {
					res = nil
				} else {
					res = in.zero(rs)
				}
			default:
				panic(r)
			}
		}
	}()
	return in.call(fr, instr.Pos(), fn, args)
}
