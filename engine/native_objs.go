package main

// Engine-native objects that stand behind interface values: method calls on them
// are intercepted in prepareCall (used for cryptographic hashers on concrete data
// and for opaque metrics collectors).

import (
	"crypto/md5"
	"crypto/sha1"
	"crypto/sha256"
	"crypto/sha512"
	"go/types"
	"hash"
)

type nativeObj interface {
	callMethod(in *Interp, name string, args []Value, res *types.Tuple) Value
}

type nativeHash struct {
	h    hash.Hash
	name string
}

func (nh *nativeHash) callMethod(in *Interp, name string, args []Value, res *types.Tuple) Value {
	switch name {
	case "Write":
		data := in.concBytes(args[0])
		nh.h.Write(data)
		return Tuple{in.ts.Const(64, uint64(len(data))), Iface{}}
	case "Sum":
		prefix := args[0].(Slice)
		sum := nh.h.Sum(nil)
		out := make([]Value, 0, len(prefix.a)+len(sum))
		out = append(out, prefix.a...)
		for _, b := range sum {
			out = append(out, in.ts.Const(8, uint64(b)))
		}
		return Slice{a: out}
	case "Reset":
		nh.h.Reset()
		return nil
	case "Size":
		return in.ts.Const(64, uint64(nh.h.Size()))
	case "BlockSize":
		return in.ts.Const(64, uint64(nh.h.BlockSize()))
	}
	unsupported("method %s on native hasher %s", name, nh.name)
	return nil
}

func (promOpaque) callMethod(in *Interp, name string, args []Value, res *types.Tuple) Value {
	if res.Len() == 0 {
		return nil
	}
	if res.Len() == 1 {
		if _, isI := res.At(0).Type().Underlying().(*types.Interface); isI {
			// e.g. ObserverVec.WithLabelValues: another opaque collector
			return Iface{t: types.Typ[types.UnsafePointer], v: promOpaque{}}
		}
	}
	return in.zero(res)
}

func init() {
	mk := func(name string, f func() hash.Hash) {
		reg(name, func(in *Interp, fr *frame, a []Value) Value {
			return Iface{t: types.Typ[types.UnsafePointer], v: &nativeHash{h: f(), name: name}}
		})
	}
	mk("crypto/md5.New", md5.New)
	mk("crypto/sha1.New", sha1.New)
	mk("crypto/sha256.New", sha256.New)
	mk("crypto/sha512.New", sha512.New)
	mk("crypto/sha512.New384", sha512.New384)
}
