package main

import (
	"fmt"
	"go/token"
	"go/types"
	"os"
	"path/filepath"
	"runtime/debug"
	"sort"
	"strings"
	"sync"
	"time"

	"golang.org/x/tools/go/packages"
	"golang.org/x/tools/go/ssa"
	"golang.org/x/tools/go/ssa/ssautil"
)

type Engine struct {
	prog      *ssa.Program
	pkgs      []*packages.Package
	pkgByPath map[string]*ssa.Package
	repo      string
	trace     bool
	workers   int
	rlimit    uint64

	intrCache      sync.Map
	specCache      sync.Map
	usedIntrinsics sync.Map
	initAllow      map[string]bool
	loadSecs       float64
}

// packages whose init (package-level variable initialisers) is interpreted.
var initAllowPrefixes = []string{
	"github.com/buildbarn/bb-storage/",
	"io", "bytes", "unicode/utf8", "strconv", "math/bits", "bufio", "sort", "strings",
	"encoding/binary", "encoding/hex", "container/heap", "slices", "path", "context",
	"google.golang.org/protobuf/encoding/protowire", "google.golang.org/protobuf/internal/errors",
	"io/fs", "internal/oserror", "syscall", "math", "github.com/fxtlabs/primes",
}

// initSkipped: packages whose initialisers are never evaluated (runtime internals).
func (e *Engine) initSkipped(pkg *ssa.Package) bool {
	p := pkg.Pkg.Path()
	for _, pre := range []string{"runtime", "internal/", "reflect", "syscall", "os/", "unsafe", "sync", "time", "errors",
		"google.golang.org/protobuf/", "google.golang.org/grpc", "github.com/prometheus/", "crypto/", "net", "log", "fmt",
		"go.opentelemetry.io/", "golang.org/x/", "github.com/golang/protobuf", "encoding/json", "testing", "regexp", "math/rand", "hash/"} {
		if p == pre || strings.HasPrefix(p, pre) {
			if p == "internal/oserror" || p == "google.golang.org/protobuf/encoding/protowire" || p == "google.golang.org/protobuf/internal/errors" || p == "google.golang.org/grpc/codes" {
				return false
			}
			return true
		}
	}
	return false
}

func (e *Engine) initAllowed(pkg *ssa.Package) bool {
	p := pkg.Pkg.Path()
	if strings.Contains(p, "/pkg/proto/") {
		return false // generated protobuf code: evaluated in tolerant mode (registration calls are skipped)
	}
	for _, a := range initAllowPrefixes {
		if p == a || (strings.HasSuffix(a, "/") && strings.HasPrefix(p, a)) {
			return true
		}
	}
	return false
}

func LoadEngine(repo string, overlay map[string][]byte, patterns []string, tags string) (*Engine, error) {
	t0 := time.Now()
	cfg := &packages.Config{
		Mode:    packages.LoadAllSyntax,
		Dir:     repo,
		Overlay: overlay,
		Env:     append(os.Environ(), "GOFLAGS=-mod=mod", "GOPROXY=off", "GOTOOLCHAIN=auto", "GOWORK=off"),
		Tests:   false,
	}
	if tags != "" {
		cfg.BuildFlags = []string{"-tags=" + tags}
	}
	// drop a GOTOOLCHAIN=local inherited from the build environment
	var env []string
	for _, kv := range os.Environ() {
		if strings.HasPrefix(kv, "GOTOOLCHAIN=") || strings.HasPrefix(kv, "GOFLAGS=") || strings.HasPrefix(kv, "GOSUMDB=") {
			continue
		}
		env = append(env, kv)
	}
	cfg.Env = append(env, "GOFLAGS=-mod=mod", "GOPROXY=off")
	pkgs, err := packages.Load(cfg, patterns...)
	if err != nil {
		return nil, err
	}
	var errs []string
	packages.Visit(pkgs, nil, func(p *packages.Package) {
		for _, e := range p.Errors {
			errs = append(errs, e.Error())
		}
	})
	if len(errs) > 0 {
		if len(errs) > 20 {
			errs = errs[:20]
		}
		return nil, fmt.Errorf("package load errors:\n%s", strings.Join(errs, "\n"))
	}
	prog, _ := ssautil.AllPackages(pkgs, ssa.InstantiateGenerics)
	prog.Build()
	e := &Engine{prog: prog, pkgs: pkgs, repo: repo, pkgByPath: map[string]*ssa.Package{}}
	for _, p := range prog.AllPackages() {
		e.pkgByPath[p.Pkg.Path()] = p
	}
	e.loadSecs = time.Since(t0).Seconds()
	return e, nil
}

type HarnessSpec struct {
	Name string        // e.g. "H1"
	Pkg  string        // import path
	Fn   *ssa.Function // Verif_<Name>
	File string
	Covers []string // Cover tags that occur statically in the harness file
}

type HarnessResult struct {
	Spec        *HarnessSpec
	Paths       int
	Infeasible  int
	Branches    int
	Asserts     int
	AssertsConcrete int
	Steps       int64
	Violations  []*Violation
	Covers      map[string]bool
	Witnesses   map[string]*CoverWitness
	LimitHit    []string
	Errors      []string
	Funcs       map[string]int
	MaxDecisions int
	Obligation  string
	Merged      int
	Wall        float64
	SampleInputs [][]uint64
}

type workItem struct {
	prefix []Decision
}

// RunHarness explores all paths of one harness with a pool of workers.
func (e *Engine) RunHarness(h *HarnessSpec, lim Limits, maxPaths int, seed int64) *HarnessResult {
	t0 := time.Now()
	res := &HarnessResult{Spec: h, Covers: map[string]bool{}, Witnesses: map[string]*CoverWitness{}, Funcs: map[string]int{}}
	var mu sync.Mutex
	queue := []workItem{{}}
	inflight := 0
	cond := sync.NewCond(&mu)
	stop := false
	var wg sync.WaitGroup
	nw := e.workers
	if nw < 1 {
		nw = 1
	}
	for w := 0; w < nw; w++ {
		wg.Add(1)
		go func(w int) {
			defer wg.Done()
			solver, err := NewSolver(e.rlimit)
			if err != nil {
				mu.Lock()
				res.Errors = append(res.Errors, "cannot start solver: "+err.Error())
				stop = true
				cond.Broadcast()
				mu.Unlock()
				return
			}
			defer solver.Close()
			for {
				mu.Lock()
				for len(queue) == 0 && inflight > 0 && !stop {
					cond.Wait()
				}
				if stop || (len(queue) == 0 && inflight == 0) {
					cond.Broadcast()
					mu.Unlock()
					return
				}
				// DFS: take from the end
				it := queue[len(queue)-1]
				queue = queue[:len(queue)-1]
				inflight++
				wantW := false
				mu.Unlock()

				pr := e.runPath(h, solver, it.prefix, lim, wantW, res, &mu)

				mu.Lock()
				inflight--
				res.Paths++
				res.Branches += pr.Branches
				res.Asserts += pr.Asserts
				res.AssertsConcrete += pr.AssertsConcrete
				res.Steps += int64(pr.Steps)
				res.Merged += pr.Merged
				for f, n := range pr.Funcs {
					res.Funcs[f.String()] += n
				}
				if pr.Obligation != "" && res.Obligation == "" {
					res.Obligation = pr.Obligation
				}
				switch pr.Status {
				case "infeasible":
					res.Infeasible++
				case "limit":
					res.LimitHit = append(res.LimitHit, pr.Err)
				case "error":
					res.Errors = append(res.Errors, pr.Err)
				}
				for c := range pr.Covers {
					res.Covers[c] = true
				}
				if pr.Witness != nil {
					for _, tag := range strings.Split(pr.Witness.Tag, ",") {
						if _, ok := res.Witnesses[tag]; !ok {
							res.Witnesses[tag] = pr.Witness
						}
					}
				}
				res.Violations = append(res.Violations, pr.Violations...)
				for _, p := range pr.Pending {
					queue = append(queue, workItem{prefix: p})
				}
				if res.Paths+len(queue) > maxPaths && maxPaths > 0 && len(queue) > 0 {
					res.LimitHit = append(res.LimitHit, fmt.Sprintf("path limit %d exceeded", maxPaths))
					stop = true
				}
				if len(res.Errors) > 3 || len(res.Violations) > 8 {
					stop = true
				}
				if solver.sawError {
					res.Errors = append(res.Errors, "solver error: "+solver.lastError)
					solver.sawError = false
				}
				cond.Broadcast()
				mu.Unlock()
			}
		}(w)
	}
	doneCh := make(chan struct{})
	if slowQueryLog {
		go func() {
			for {
				select {
				case <-doneCh:
					return
				case <-time.After(10 * time.Second):
					mu.Lock()
					fmt.Printf("symgo: progress %s: paths=%d queue=%d inflight=%d queries=%d\n", h.Name, res.Paths, len(queue), inflight, gStats.Queries)
					mu.Unlock()
				}
			}
		}()
	}
	wg.Wait()
	close(doneCh)
	res.Wall = time.Since(t0).Seconds()
	return res
}

func (e *Engine) newInterp(h *HarnessSpec, solver *Solver, prefix []Decision, lim Limits) *Interp {
	in := &Interp{
		prog: e.prog, eng: e, ts: NewTermStore(), solver: solver, lim: lim, harness: h.Name,
		prefix:  prefix,
		globals: map[*ssa.Global]*Value{},
		inited:  map[*ssa.Package]bool{},
		initing: map[*ssa.Package]bool{},
		mutexes: map[*Value]*mutexState{},
		onces:   map[*Value]bool{},
		ghost:   map[string]*Term{},
		extra:   map[string]interface{}{},
	}
	in.res = &PathResult{Covers: map[string]bool{}, Funcs: map[*ssa.Function]int{}}
	g0 := &Goroutine{id: 0, resume: make(chan struct{}, 1), started: true}
	in.gs = []*Goroutine{g0}
	in.cur = g0
	return in
}

func (e *Engine) runPath(h *HarnessSpec, solver *Solver, prefix []Decision, lim Limits, wantWitness bool, hres *HarnessResult, hmu *sync.Mutex) (pr *PathResult) {
	in := e.newInterp(h, solver, prefix, lim)
	pr = in.res
	solver.BeginPath()
	defer solver.EndPath()
	defer in.killAll()
	defer func() {
		r := recover()
		pr.Steps = in.steps
		if r == nil {
			return
		}
		switch r := r.(type) {
		case pathInfeasible:
			pr.Status = "infeasible"
		case pathLimit:
			pr.Status = "limit"
			pr.Err = fmt.Sprintf("%s: %s (at %s)", h.Name, r.what, in.where())
		case engineError:
			pr.Status = "error"
			pr.Err = fmt.Sprintf("%s: unsupported: %s\n    at %s", h.Name, r.msg, strings.Join(in.stackTrace(), "\n       "))
		case violationStop:
			pr.Status = "ok"
		case targetPanic:
			// uncaught Go panic in the program under test
			if in.expectPanic != "" && strings.Contains(r.msg, in.expectPanic) {
				pr.Status = "ok"
				return
			}
			in.reportViolation("panic", "panic: "+r.msg, panicSiteOf(r.stack, in.panicSite()))
			if n := len(pr.Violations); n > 0 && len(r.stack) > 0 {
				pr.Violations[n-1].Stack = r.stack
			}
			pr.Status = "ok"
		default:
			pr.Status = "error"
			pr.Err = fmt.Sprintf("%s: engine crash: %v\n%s\n    interpreting %s", h.Name, r, trimStack(string(debug.Stack())), strings.Join(in.stackTrace(), "\n       "))
		}
	}()
	in.ensureInit(h.Fn.Pkg)
	in.callSSA(nil, token.NoPos, h.Fn, nil, nil)
	in.drain()
	for _, m := range in.mutexes {
		if m.writer || m.readers > 0 {
			in.reportViolation("lock", "a mutex is still held when the operation has returned", h.Name+":end")
			break
		}
	}
	if lk := in.leaked(); len(lk) > 0 && !in.allowLeak() {
		in.reportViolation("leak", "goroutines still blocked at end of harness: "+strings.Join(lk, "; "), h.Name+":end")
	}
	pr.Status = "ok"
	if debugForks {
		var sb strings.Builder
		for _, d := range in.dec {
			sb.WriteString(fmt.Sprintf("%s%d ", d.Kind, d.Val))
		}
		fmt.Printf("symgo: path done prefix=%d dec=%s\n", len(prefix), sb.String())
	}
	// witness for new cover tags (translator validation)
	var newTags []string
	hmu.Lock()
	for c := range pr.Covers {
		if _, ok := hres.Witnesses[c]; !ok {
			newTags = append(newTags, c)
		}
	}
	hmu.Unlock()
	if len(newTags) > 0 || len(prefix) == 0 {
		sort.Strings(newTags)
		if w := in.pathWitness(); w != nil {
			w.Tag = strings.Join(newTags, ",")
			if w.Tag == "" {
				w.Tag = "_first"
			}
			pr.Witness = w
		}
	}
	return pr
}

func (in *Interp) allowLeak() bool {
	_, ok := in.extra["allowLeak"]
	return ok
}

func trimStack(s string) string {
	lines := strings.Split(s, "\n")
	var out []string
	for _, l := range lines {
		if strings.Contains(l, "symgo") || strings.Contains(l, "main.") {
			out = append(out, l)
		}
		if len(out) > 24 {
			break
		}
	}
	return strings.Join(out, "\n")
}

type violationStop struct{}

// panicSiteOf returns the innermost repository frame of a recorded panic stack.
func panicSiteOf(stack []string, fallback string) string {
	for _, f := range stack {
		if strings.Contains(f, "github.com/buildbarn/bb-storage") && !strings.Contains(f, "verifnd") {
			if i := strings.Index(f, " (called"); i > 0 {
				return f[:i]
			}
			return f
		}
	}
	return fallback
}

func (in *Interp) panicSite() string {
	// innermost repo frame
	for i := len(in.stack) - 1; i >= 0; i-- {
		fr := in.stack[i]
		if fr.fn.Pkg != nil && strings.HasPrefix(fr.fn.Pkg.Pkg.Path(), "github.com/buildbarn/bb-storage") && !strings.Contains(fr.fn.Pkg.Pkg.Path(), "verifnd") {
			return fr.fn.String()
		}
	}
	return in.where()
}

// assertProp discharges an obligation: pc => cond.
func (in *Interp) assertProp(fr *frame, cond *Term, msg string) {
	site := msg
	if cond.IsConst() {
		if cond.c != 0 {
			in.res.AssertsConcrete++
			return
		}
		in.reportViolation("assert", msg, site)
		panic(violationStop{})
	}
	in.flushPC()
	neg := in.ts.Not(cond)
	if in.res.Obligation == "" {
		in.res.Obligation = fmt.Sprintf("assert %q: check-sat(pc[%d conjuncts] ∧ ¬%s) ", msg, len(in.pc), termPreview(cond, 3))
	}
	if in.curModel != nil && in.curModel.evalT(cond) == 0 {
		// the cached model of the path condition already falsifies the assertion
		in.assume(neg)
		in.curModel.memo = map[*Term]uint64{}
		in.reportViolation("assert", msg, site)
		panic(violationStop{})
	}
	r, m := in.solveModel(neg)
	switch r {
	case Unsat:
		in.res.Asserts++
		in.assume(cond)
	case Sat:
		in.curModel = m
		in.assume(neg)
		in.reportViolation("assert", msg, site)
		panic(violationStop{})
	default:
		panic(pathLimit{"solver unknown on assertion: " + msg + " " + in.solver.lastError})
	}
}

func termPreview(t *Term, depth int) string {
	if t.op == OpConst {
		return constStr(t.w, t.c)
	}
	if t.op == OpVar {
		return t.name
	}
	if depth == 0 {
		return "…"
	}
	var parts []string
	for _, a := range t.args {
		parts = append(parts, termPreview(a, depth-1))
	}
	name := opNames[t.op]
	if t.op == OpUF {
		name = t.name
	}
	if name == "" {
		name = fmt.Sprintf("op%d", t.op)
	}
	return "(" + name + " " + strings.Join(parts, " ") + ")"
}

// model returns values for all inputs and UF applications under the current pc.
func (in *Interp) model() ([]uint64, []UFEntry, *Model, bool) {
	in.flushPC()
	if !in.ensureModel() {
		return nil, nil, nil, false
	}
	m := in.curModel
	inputs := make([]uint64, len(in.inputs))
	for i, t := range in.inputs {
		inputs[i] = m.evalT(t)
	}
	var ufs []UFEntry
	for _, u := range in.ufApps {
		e := UFEntry{Name: strings.TrimPrefix(u.name, "uf_"), Ret: m.evalT(u)}
		for _, a := range u.args {
			e.Args = append(e.Args, m.evalT(a))
		}
		ufs = append(ufs, e)
	}
	return inputs, ufs, m, true
}

func (in *Interp) reportViolation(kind, msg, site string) {
	inputs, ufs, _, ok := in.model()
	v := &Violation{Harness: in.harness, Msg: msg, Site: site, Kind: kind, Decision: append([]Decision(nil), in.dec...), Stack: in.stackTrace()}
	for _, d := range in.dec {
		if d.Kind == "sc" || d.Kind == "sl" || d.Kind == "mo" {
			v.Scheduled = true
		}
	}
	if len(in.gs) > 1 {
		// several goroutines were live: the outcome may depend on the (legal) order in which the
		// engine ran them, which a native run cannot be forced to repeat
		v.Scheduled = true
	}
	if ok {
		v.Inputs = inputs
		v.UFTable = ufs
		for _, t := range in.hidden {
			v.Hidden = append(v.Hidden, in.curModel.evalT(t))
		}
	} else {
		v.Msg += " (no model: solver did not return sat for the path condition)"
	}
	in.res.Violations = append(in.res.Violations, v)
}

// pathWitness produces a model of the complete path and the predicted Observe trace.
func (in *Interp) pathWitness() *CoverWitness {
	inputs, ufs, m, ok := in.model()
	if !ok {
		return nil
	}
	w := &CoverWitness{Inputs: inputs, UFTable: ufs}
	for _, d := range in.dec {
		if d.Kind == "sc" || d.Kind == "sl" || d.Kind == "mo" {
			w.Scheduled = true
		}
	}
	for _, o := range in.obs {
		line := o.tag
		for _, t := range o.vals {
			line += fmt.Sprintf(" %d", m.evalT(t))
		}
		w.Obs = append(w.Obs, line)
	}
	return w
}

// ReplayConcrete re-executes a recorded counterexample in the engine with every input
// fixed to the model's value and the recorded choices/schedule; true if the same kind of
// violation occurs again. Used for schedule-dependent counterexamples, which a native run
// under Go's own scheduler cannot be forced to follow.
func (e *Engine) ReplayConcrete(h *HarnessSpec, v *Violation, lim Limits) bool {
	if len(v.UFTable) > 0 {
		return false // uninterpreted functions need the solver's interpretation
	}
	solver, err := NewSolver(0)
	if err != nil {
		return false
	}
	defer solver.Close()
	var prefix []Decision
	for _, d := range v.Decision {
		if d.Kind == "ch" || d.Kind == "sc" || d.Kind == "sl" || d.Kind == "mo" {
			prefix = append(prefix, d)
		}
	}
	in := e.newInterp(h, solver, prefix, lim)
	in.concrete = append([]uint64{}, v.Inputs...)
	if in.concrete == nil {
		in.concrete = []uint64{}
	}
	in.concreteHidden = v.Hidden
	pr := in.res
	solver.BeginPath()
	confirmed := false
	func() {
		defer in.killAll()
		defer func() {
			r := recover()
			switch r := r.(type) {
			case violationStop:
				confirmed = len(pr.Violations) > 0
			case targetPanic:
				confirmed = v.Kind == "panic" || strings.Contains(v.Msg, "deadlock") && strings.Contains(r.msg, "deadlock")
			}
		}()
		in.ensureInit(h.Fn.Pkg)
		in.callSSA(nil, token.NoPos, h.Fn, nil, nil)
		in.drain()
		if lk := in.leaked(); len(lk) > 0 && v.Kind == "leak" {
			confirmed = true
		}
		for _, m := range in.mutexes {
			if (m.writer || m.readers > 0) && v.Kind == "lock" {
				confirmed = true
			}
		}
	}()
	return confirmed
}

// findHarnesses locates Verif_* functions in the loaded packages.
func (e *Engine) findHarnesses(pkgPath string, files map[string]string) []*HarnessSpec {
	var out []*HarnessSpec
	pkg := e.pkgByPath[pkgPath]
	if pkg == nil {
		return nil
	}
	for name, m := range pkg.Members {
		fn, ok := m.(*ssa.Function)
		if !ok || !strings.HasPrefix(name, "Verif_") {
			continue
		}
		pos := e.prog.Fset.Position(fn.Pos())
		h := &HarnessSpec{Name: strings.TrimPrefix(name, "Verif_"), Pkg: pkgPath, Fn: fn, File: filepath.Base(pos.Filename)}
		out = append(out, h)
	}
	sort.Slice(out, func(i, j int) bool { return out[i].Name < out[j].Name })
	return out
}

// staticCovers finds constant Cover tags reachable from fn within the harness package's verif files.
func (e *Engine) staticCovers(fn *ssa.Function) []string {
	seen := map[*ssa.Function]bool{}
	tags := map[string]bool{}
	var visit func(f *ssa.Function)
	visit = func(f *ssa.Function) {
		if f == nil || seen[f] || f.Blocks == nil {
			return
		}
		seen[f] = true
		pos := e.prog.Fset.Position(f.Pos())
		if !strings.Contains(filepath.Base(pos.Filename), "zz_verif") {
			if f.Parent() == nil || !strings.Contains(filepath.Base(e.prog.Fset.Position(f.Parent().Pos()).Filename), "zz_verif") {
				return
			}
		}
		for _, b := range f.Blocks {
			for _, ins := range b.Instrs {
				switch ins := ins.(type) {
				case *ssa.Call:
					if callee := ins.Call.StaticCallee(); callee != nil {
						if callee.String() == ndPkg+".Cover" {
							if c, ok := ins.Call.Args[0].(*ssa.Const); ok {
								tags[constString(c)] = true
							}
						}
						visit(callee)
					}
				case *ssa.MakeClosure:
					visit(ins.Fn.(*ssa.Function))
				}
				for _, op := range ins.Operands(nil) {
					if op != nil && *op != nil {
						if f2, ok := (*op).(*ssa.Function); ok {
							visit(f2)
						}
					}
				}
			}
		}
		for _, af := range f.AnonFuncs {
			visit(af)
		}
	}
	visit(fn)
	return sortedKeys(tags)
}

func constString(c *ssa.Const) string {
	if c.Value == nil {
		return ""
	}
	s := c.Value.ExactString()
	if len(s) >= 2 && s[0] == '"' {
		var out string
		fmt.Sscanf(s, "%q", &out)
		return out
	}
	return s
}

var _ = types.Typ
