//go:build verif

// Package verifstub holds model back ends shared by the symgo harnesses. It is
// ordinary Go (compiled natively for replay) written against the
// nondeterminism API, so presence and failure bits can be symbolic.
package verifstub

import (
	"context"
	"fmt"
	"io"
	"sync"

	remoteexecution "github.com/bazelbuild/remote-apis/build/bazel/remote/execution/v2"
	vnd "github.com/buildbarn/bb-storage/internal/verifnd"
	"github.com/buildbarn/bb-storage/pkg/blobstore/buffer"
	"github.com/buildbarn/bb-storage/pkg/blobstore/slicing"
	"github.com/buildbarn/bb-storage/pkg/digest"

	"google.golang.org/grpc/codes"
	"google.golang.org/grpc/status"
)

// Object is a reference object of the digest universe.
type Object struct {
	Digest digest.Digest
	Data   []byte
}

// Universe builds n objects with distinct concrete contents and REAL MD5
// digests under the given instance name (content is concrete, so the real hash
// functions run natively in the engine and no hash idealisation is needed).
func Universe(instanceName string, n int) []Object {
	out := make([]Object, n)
	hashes := []string{
		"6d0bb00954ceb7fbee436bb55a8397a9", // "x0"
		"fbc1a9f858ea9e177916964bd88c3d37", // "x1"
		"3a2d7564baee79182ebc7b65084aabd1", // "x2"
		"2e45e6dcc1a5ac1c5fb0c5e8de5a5e9d", // placeholder, replaced below
	}
	_ = hashes
	for i := range out {
		data := []byte(fmt.Sprintf("x%d", i))
		f := digest.MustNewFunction(instanceName, remoteexecution.DigestFunction_MD5)
		g := f.NewGenerator(int64(len(data)))
		g.Write(data)
		out[i] = Object{Digest: g.Sum(), Data: data}
	}
	return out
}

// UniverseWithEmpty is Universe, except that the FIRST object is the empty blob
// (size 0), which several layers treat specially.
func UniverseWithEmpty(instanceName string, n int) []Object {
	out := Universe(instanceName, n)
	f := digest.MustNewFunction(instanceName, remoteexecution.DigestFunction_MD5)
	out[0] = Object{Digest: f.NewGenerator(0).Sum(), Data: []byte{}}
	return out
}

// Call is one recorded back-end invocation.
type Call struct {
	Op      string // "Get", "GetFromComposite", "Put", "FindMissing"
	Digests []digest.Digest
}

// Model is a BlobAccess over a fixed universe with per-object presence bits
// (possibly symbolic) and per-operation failure injection.
type Model struct {
	Name                              string
	Objects                           []Object // universe, matched by digest key WITHOUT instance name
	Present                           []bool
	FailGet, FailPut, FailFindMissing bool // when true the operation fails with FailCode
	FailCode                          codes.Code
	// FailGetCode, when non-zero, is the code of an injected Get failure
	// (e.g. NotFound for a replica whose FindMissing and Get disagree).
	FailGetCode codes.Code
	Calls       []Call
	mu          sync.Mutex // guards Calls and the counters (replicas are used from several goroutines)
	PutOK       int        // uploads that completed with matching content
	LosePut     bool       // uploads are acknowledged but the object is not held afterwards (evicting / just-rotated store)
	// ConsumedBad counts uploads whose buffer failed or mismatched (nothing stored).
	ConsumedBad int
	// BufferKind selects the kind of buffer Get returns for a present object:
	// KindByteSlice (default), KindStream (a CAS buffer backed by a reader, as
	// a remote or block-device replica returns) or KindStreamWithTask (the
	// same with a background task attached, as a local store returns while it
	// refreshes the object).
	BufferKind int
	// TaskErr is the outcome of the background task of KindStreamWithTask.
	TaskErr error
	// PutIdx logs the universe index of every upload that was stored.
	PutIdx []int
	// OnGet, when set, runs at the start of every Get (harness hook, e.g. to
	// yield or to count concurrent calls).
	OnGet func(d digest.Digest)
	// OnPut, when set, runs at the start of every Put.
	OnPut func(d digest.Digest)
	// OnFindMissing, when set, runs at the start of every FindMissing.
	OnFindMissing func()
	// SourceClosed counts Close calls on the readers behind stream buffers.
	SourceOpened, SourceClosed int
}

// Buffer kinds a Model can return from Get.
const (
	KindByteSlice = iota
	KindStream
	KindStreamWithTask
	// KindProto: a message-backed buffer as an Action Cache replica returns (use with UniverseProto)
	KindProto
)

type modelReader struct {
	m    *Model
	data []byte
	pos  int
}

func (r *modelReader) Read(p []byte) (int, error) {
	if r.pos >= len(r.data) {
		return 0, io.EOF
	}
	n := copy(p, r.data[r.pos:])
	r.pos += n
	return n, nil
}

func (r *modelReader) Close() error {
	r.m.mu.Lock()
	r.m.SourceClosed++
	r.m.mu.Unlock()
	return nil
}

// buffer builds the buffer Get hands out for object i under digest d.
func (m *Model) buffer(d digest.Digest, i int) buffer.Buffer {
	switch m.BufferKind {
	case KindStream, KindStreamWithTask:
		m.mu.Lock()
		m.SourceOpened++
		m.mu.Unlock()
		b := buffer.NewCASBufferFromReader(d, &modelReader{m: m, data: m.Objects[i].Data}, buffer.BackendProvided(buffer.Irreparable(d)))
		if m.BufferKind == KindStreamWithTask {
			taskErr := m.TaskErr
			b = b.WithTask(func() error { return taskErr })
		}
		return b
	}
	if m.BufferKind == KindProto {
		return buffer.NewProtoBufferFromByteSlice(&remoteexecution.ActionResult{}, m.Objects[i].Data, buffer.BackendProvided(buffer.Irreparable(d)))
	}
	return buffer.NewValidatedBufferFromByteSlice(m.Objects[i].Data)
}

// UniverseProto builds n objects whose contents are well-formed marshalled
// ActionResult messages (exit_code = i+1), with real MD5 digests of those bytes.
func UniverseProto(instanceName string, n int) []Object {
	out := make([]Object, n)
	for i := range out {
		data := []byte{0x20, byte(i + 1)} // field 4 (exit_code), varint
		f := digest.MustNewFunction(instanceName, remoteexecution.DigestFunction_MD5)
		g := f.NewGenerator(int64(len(data)))
		g.Write(data)
		out[i] = Object{Digest: g.Sum(), Data: data}
	}
	return out
}

// NewModel creates a model with symbolic presence and failure bits.
func NewModel(name string, objects []Object) *Model {
	m := &Model{Name: name, Objects: objects, Present: make([]bool, len(objects)), FailCode: codes.Unavailable}
	for i := range m.Present {
		m.Present[i] = vnd.Bool()
	}
	m.FailGet, m.FailPut, m.FailFindMissing = vnd.Bool(), vnd.Bool(), vnd.Bool()
	return m
}

// NewReliableModel creates a model with symbolic presence that never fails.
func NewReliableModel(name string, objects []Object) *Model {
	m := &Model{Name: name, Objects: objects, Present: make([]bool, len(objects)), FailCode: codes.Unavailable}
	for i := range m.Present {
		m.Present[i] = vnd.Bool()
	}
	return m
}

// Index returns the position of d in the universe (instance name ignored), or -1.
func (m *Model) Index(d digest.Digest) int {
	k := d.GetKey(digest.KeyWithoutInstance)
	for i, o := range m.Objects {
		if o.Digest.GetKey(digest.KeyWithoutInstance) == k {
			return i
		}
	}
	return -1
}

func (m *Model) errFail(op string) error {
	code := m.FailCode
	if op == "Get" && m.FailGetCode != codes.OK {
		code = m.FailGetCode
	}
	return status.Errorf(code, "%s: injected %s failure", m.Name, op)
}

func (m *Model) log(c Call) {
	m.mu.Lock()
	m.Calls = append(m.Calls, c)
	m.mu.Unlock()
}

func (m *Model) Get(ctx context.Context, d digest.Digest) buffer.Buffer {
	m.log(Call{Op: "Get", Digests: []digest.Digest{d}})
	if m.OnGet != nil {
		m.OnGet(d)
	}
	if m.FailGet {
		return buffer.NewBufferFromError(m.errFail("Get"))
	}
	i := m.Index(d)
	if i < 0 || !m.Present[i] {
		return buffer.NewBufferFromError(status.Errorf(codes.NotFound, "%s: object not found", m.Name))
	}
	return m.buffer(d, i)
}

func (m *Model) GetFromComposite(ctx context.Context, parent, child digest.Digest, slicer slicing.BlobSlicer) buffer.Buffer {
	m.log(Call{Op: "GetFromComposite", Digests: []digest.Digest{parent, child}})
	if m.FailGet {
		return buffer.NewBufferFromError(m.errFail("GetFromComposite"))
	}
	i := m.Index(parent)
	if i < 0 || !m.Present[i] {
		return buffer.NewBufferFromError(status.Errorf(codes.NotFound, "%s: object not found", m.Name))
	}
	b, _ := slicer.Slice(buffer.NewValidatedBufferFromByteSlice(m.Objects[i].Data), child)
	return b
}

func (m *Model) Put(ctx context.Context, d digest.Digest, b buffer.Buffer) error {
	m.log(Call{Op: "Put", Digests: []digest.Digest{d}})
	if m.OnPut != nil {
		m.OnPut(d)
	}
	if m.FailPut {
		b.Discard()
		return m.errFail("Put")
	}
	// Like the real stores (local, gRPC client) ask the buffer for its size
	// before consuming it.
	sizeBytes, err := b.GetSizeBytes()
	if err != nil {
		b.Discard()
		m.ConsumedBad++
		return err
	}
	if sizeBytes != d.GetSizeBytes() {
		b.Discard()
		m.ConsumedBad++
		return status.Errorf(codes.InvalidArgument, "%s: buffer is %d bytes in size, while the digest says %d", m.Name, sizeBytes, d.GetSizeBytes())
	}
	data, err := b.ToByteSlice(1 << 20)
	if err != nil {
		m.ConsumedBad++
		return err
	}
	i := m.Index(d)
	if i < 0 || string(data) != string(m.Objects[i].Data) {
		m.ConsumedBad++
		return status.Errorf(codes.InvalidArgument, "%s: uploaded content does not match the digest", m.Name)
	}
	m.mu.Lock()
	if !m.LosePut {
		m.Present[i] = true
	}
	m.PutIdx = append(m.PutIdx, i)
	m.PutOK++
	m.mu.Unlock()
	return nil
}

func (m *Model) FindMissing(ctx context.Context, digests digest.Set) (digest.Set, error) {
	m.log(Call{Op: "FindMissing", Digests: digests.Items()})
	if m.OnFindMissing != nil {
		m.OnFindMissing()
	}
	if m.FailFindMissing {
		return digest.EmptySet, m.errFail("FindMissing")
	}
	sb := digest.NewSetBuilder(len(digests.Items()))
	for _, d := range digests.Items() {
		i := m.Index(d)
		if i < 0 || !m.Present[i] {
			sb.Add(d)
		}
	}
	return sb.Build(), nil
}

func (m *Model) GetCapabilities(ctx context.Context, instanceName digest.InstanceName) (*remoteexecution.ServerCapabilities, error) {
	return &remoteexecution.ServerCapabilities{}, nil
}

// CountCalls returns how many calls of the given kind were recorded.
func (m *Model) CountCalls(op string) int {
	n := 0
	for _, c := range m.Calls {
		if c.Op == op {
			n++
		}
	}
	return n
}
