//go:build verif

// Package verifnd is the nondeterminism API of the symgo harnesses. Under the
// symbolic executor every function here is intercepted; compiled natively the
// functions replay a recorded assignment (the solver's model), so that a
// counterexample or a coverage witness runs against the real build.
package verifnd

import (
	"encoding/json"
	"fmt"
	"os"
	"path/filepath"
	"runtime"
	"sort"
	"strings"
	"time"
)

type ufEntry struct {
	Name string   `json:"name"`
	Args []uint64 `json:"args"`
	Ret  uint64   `json:"ret"`
}

type replayFile struct {
	Harness string    `json:"harness"`
	Tier    string    `json:"tier"`
	Inputs  []uint64  `json:"inputs"`
	UF      []ufEntry `json:"uf"`
}

var (
	cur      *replayFile
	pos      int
	thorough bool
	overrun  int
)

func next() uint64 {
	if cur == nil || pos >= len(cur.Inputs) {
		overrun++
		return 0
	}
	v := cur.Inputs[pos]
	pos++
	return v
}

func U8() uint8   { return uint8(next()) }
func U16() uint16 { return uint16(next()) }
func U32() uint32 { return uint32(next()) }
func U64() uint64 { return next() }
func I64() int64  { return int64(next()) }
func I32() int32  { return int32(next()) }
func Bool() bool  { return next() == 1 }

// Int returns a value in [lo,hi] (symbolic under the engine).
func Int(lo, hi int) int { return int(int64(next())) }

// Choose returns a value in [0,n); the engine forks into n paths.
func Choose(n int) int { return int(next()) }

// Concrete forces the engine to enumerate the feasible values of x (one path each).
func Concrete(x int) int { return x }

func Bytes(n int) []byte {
	b := make([]byte, n)
	for i := range b {
		b[i] = byte(next())
	}
	return b
}

// SymString returns a string of n symbolic bytes.
func SymString(n int) string { return string(Bytes(n)) }

type assumeFailed struct{}
type assertFailed struct{ msg string }

func Assume(b bool) {
	if !b {
		panic(assumeFailed{})
	}
}

func Assert(b bool, msg string) {
	if !b {
		panic(assertFailed{msg})
	}
}

func And(a, b bool) bool     { return a && b }
func Or(a, b bool) bool      { return a || b }
func Not(a bool) bool        { return !a }
func Implies(a, b bool) bool { return !a || b }
func Iff(a, b bool) bool     { return a == b }
func Ite(c bool, a, b uint64) uint64 {
	if c {
		return a
	}
	return b
}
func IteInt(c bool, a, b int) int {
	if c {
		return a
	}
	return b
}
func IteU8(c bool, a, b uint8) uint8 {
	if c {
		return a
	}
	return b
}
func IteBool(c bool, a, b bool) bool {
	if c {
		return a
	}
	return b
}

// UF applies the uninterpreted function name to args.
func UF(name string, args ...uint64) uint64 {
	if cur != nil {
	outer:
		for _, e := range cur.UF {
			if e.Name != name || len(e.Args) != len(args) {
				continue
			}
			for i := range args {
				if e.Args[i] != args[i] {
					continue outer
				}
			}
			return e.Ret
		}
	}
	return 0
}

// UFLookup reports the recorded value of an uninterpreted function application (native replay only).
func UFLookup(name string, args ...uint64) (uint64, bool) {
	if cur != nil {
	outer:
		for _, e := range cur.UF {
			if e.Name != name || len(e.Args) != len(args) {
				continue
			}
			for i := range args {
				if e.Args[i] != args[i] {
					continue outer
				}
			}
			return e.Ret, true
		}
	}
	return 0, false
}

func Cover(tag string) { fmt.Printf("VERIFND-COVER %s\n", tag) }

func Observe(tag string, vals ...uint64) {
	var sb strings.Builder
	sb.WriteString(tag)
	for _, v := range vals {
		fmt.Fprintf(&sb, " %d", v)
	}
	fmt.Printf("VERIFND-OBS %s\n", sb.String())
}

func ObserveBytes(tag string, b []byte) {
	var sb strings.Builder
	sb.WriteString(tag)
	for _, v := range b {
		fmt.Fprintf(&sb, " %d", v)
	}
	fmt.Printf("VERIFND-OBS %s\n", sb.String())
}

func Unreachable(msg string) { panic(assertFailed{"reached Unreachable: " + msg}) }

// ExploreSchedules turns on schedule exploration in the engine (no-op natively).
func ExploreSchedules(on bool) {}

// ExploreMapOrders makes the iteration order of every `range` over a Go map with two
// or three entries a decision of the engine (all orders are explored; larger maps:
// forward and reverse insertion order). Natively a no-op: Go randomises the order.
func ExploreMapOrders(on bool) {}

// PreemptionBound sets the maximal number of preemptive context switches per
// schedule under ExploreSchedules (default 2); switches forced by blocking are free.
func PreemptionBound(n int) {}

// ExpectPanic declares that a Go panic containing substr is the expected outcome.
func ExpectPanic(substr string) {}

// Symbolic reports whether the code runs under the symbolic executor.
func Symbolic() bool { return false }

// Yield is a possible context switch under schedule exploration.
func Yield() {}

// Ghost reads an engine-side ghost counter (always 0 natively).
func Ghost(name string) uint64 { return 0 }

// Replace makes the engine call fn instead of the named function (no-op natively).
func Replace(name string, fn interface{}) {}

// AllowLeak tells the engine that goroutines may remain blocked at harness end.
func AllowLeak() {}

// Quiesce lets all other goroutines run until each is blocked or finished.
// (Natively approximated by yielding and a short sleep.)
func Quiesce() {
	for i := 0; i < 50; i++ {
		runtime.Gosched()
	}
	time.Sleep(20 * time.Millisecond)
}

// MutexState reports, under the engine, whether the mutex (pass a *sync.Mutex or
// *sync.RWMutex) is unlocked (0), read-locked (1) or write-locked (2). Natively the
// state of a mutex cannot be observed: -1.
func MutexState(m interface{}) int { return -1 }

var resetHooks []func()

// RegisterReset registers a function that restores process-global state a harness
// may have changed (native replays of one run share a process; under the engine
// every path starts from freshly initialised globals).
func RegisterReset(f func()) { resetHooks = append(resetHooks, f) }

// Thorough reports the tier.
func Thorough() bool { return thorough }

// RunReplays runs every replay file in $VERIFND_REPLAY_DIR against the harness table.
func RunReplays(harnesses map[string]func()) {
	dir := os.Getenv("VERIFND_REPLAY_DIR")
	files, _ := filepath.Glob(filepath.Join(dir, "*.json"))
	sort.Strings(files)
	for _, f := range files {
		data, err := os.ReadFile(f)
		if err != nil {
			fmt.Printf("VERIFND-END %s status=ioerror\n", filepath.Base(f))
			continue
		}
		var rf replayFile
		if err := json.Unmarshal(data, &rf); err != nil {
			fmt.Printf("VERIFND-END %s status=badjson\n", filepath.Base(f))
			continue
		}
		h := harnesses[rf.Harness]
		if h == nil {
			fmt.Printf("VERIFND-END %s status=noharness\n", filepath.Base(f))
			continue
		}
		for _, f := range resetHooks {
			f()
		}
		cur, pos, overrun = &rf, 0, 0
		thorough = rf.Tier == "thorough"
		fmt.Printf("VERIFND-BEGIN %s\n", filepath.Base(f))
		status, msg := runOne(h)
		fmt.Printf("VERIFND-END %s status=%s overrun=%d msg=%s\n", filepath.Base(f), status, overrun, strings.ReplaceAll(msg, "\n", " | "))
	}
}

func runOne(h func()) (status, msg string) {
	defer func() {
		if r := recover(); r != nil {
			switch r := r.(type) {
			case assumeFailed:
				status, msg = "assume", ""
			case assertFailed:
				status, msg = "assert", r.msg
			default:
				status, msg = "panic", fmt.Sprint(r)
			}
		}
	}()
	h()
	return "ok", ""
}
