//go:build verif

package util

import (
	"bytes"
	"io"
	"math"

	vnd "github.com/buildbarn/bb-storage/internal/verifnd"

	"google.golang.org/grpc/codes"
	"google.golang.org/grpc/status"
	"google.golang.org/protobuf/encoding/protowire"
)

// ---- C13 / Y2: the framing parser on arbitrary bytes -------------------------

// verifOneByteReader hands out the input one byte per Read call (the worst
// case for bufio's Peek/fill logic); io.EOF only after the last byte.
type verifOneByteReader struct {
	data []byte
	pos  int
}

func (r *verifOneByteReader) Read(p []byte) (int, error) {
	if r.pos >= len(r.data) {
		return 0, io.EOF
	}
	if len(p) == 0 {
		return 0, nil
	}
	p[0] = r.data[r.pos]
	r.pos++
	return 1, nil
}

// verifField is one top-level field according to the harness's own reading of
// the protobuf wire format (not protowire's).
type verifField struct {
	number uint64
	offset int // of the payload
	size   uint64
}

// verifRefVarint decodes a base-128 varint at data[pos:]. ok=false: the input
// ends inside the varint (with at most 8 input bytes a varint can never
// overflow 64 bits, so truncation is the only malformation).
func verifRefVarint(data []byte, pos int) (v uint64, next int, ok bool) {
	shift := uint(0)
	for i := pos; i < len(data); i++ {
		b := data[i]
		v |= uint64(b&0x7f) << shift
		shift += 7
		if b < 0x80 {
			return v, i + 1, true
		}
	}
	return 0, 0, false
}

// verifRefParse is the reference framing: a message consisting only of
// length-delimited (wire type 2) top-level fields with valid field numbers,
// each completely contained in the input.
func verifRefParse(data []byte) (fields []verifField, wellFormed bool) {
	pos := 0
	for pos < len(data) {
		tag, next, ok := verifRefVarint(data, pos)
		if !ok {
			return fields, false
		}
		number := tag >> 3
		if tag&7 != 2 || number < 1 || number > math.MaxInt32 {
			return fields, false
		}
		size, next2, ok := verifRefVarint(data, next)
		if !ok {
			return fields, false
		}
		// the field is reported to the visitor before its payload is known to be complete
		fields = append(fields, verifField{number: number, offset: next2, size: size})
		if size > uint64(len(data)-next2) {
			return fields, false
		}
		pos = next2 + vnd.Concrete(int(size))
	}
	return fields, true
}

func verifC13Y2Bound() int {
	if vnd.Thorough() {
		return 6
	}
	return 5
}

var verifVisitorError = status.Error(codes.DataLoss, "verif: visitor gave up")

// Verif_C13_Y2_FramingParser: VisitProtoBytesFields on arbitrary input of up to
// 5 (thorough: 6) symbolic bytes. No panic; every (number, offset, size) handed to
// the visitor is the next field of the reference framing; whatever the visitor
// reads through the field reader is the input at [offset, offset+size); success
// iff the input is well formed (then the fields tile the input); malformed
// input (truncated varint or payload, wire type other than 2, field number 0
// or > MaxInt32) is INVALID_ARGUMENT; a visitor error is passed on.
func Verif_C13_Y2_FramingParser() {
	n := vnd.Choose(verifC13Y2Bound() + 1)
	data := vnd.Bytes(n)
	ref, wellFormed := verifRefParse(data)

	// visitor behaviour: 0 read the whole field, 1 read nothing, 2 read one byte,
	// 3 read the whole field in the first call and fail in the second.
	// Source: a bytes.Reader or a reader handing out one byte per call (quick
	// tier: the latter only with visitor behaviours 0 and 1).
	var src io.Reader
	var mode int
	if vnd.Choose(2) == 0 {
		src = bytes.NewReader(data)
		mode = vnd.Choose(4)
	} else {
		src = &verifOneByteReader{data: data}
		if vnd.Thorough() {
			mode = vnd.Choose(4)
		} else {
			mode = vnd.Choose(2)
		}
	}
	visits := 0
	err := VisitProtoBytesFields(src, func(fieldNumber protowire.Number, offsetBytes, sizeBytes int64, fieldReader io.Reader) error {
		i := visits
		visits++
		vnd.Assert(i < len(ref), "visitor called for a field the input does not contain")
		if i >= len(ref) {
			return nil
		}
		f := ref[i]
		vnd.Assert(uint64(fieldNumber) == f.number, "visitor received a wrong field number")
		vnd.Assert(offsetBytes == int64(f.offset), "visitor received a wrong payload offset")
		vnd.Assert(sizeBytes >= 0 && uint64(sizeBytes) == f.size, "visitor received a wrong payload size")
		vnd.Assert(offsetBytes >= 0 && offsetBytes <= int64(n), "payload offset outside the input")
		avail := uint64(n - f.offset)
		switch mode {
		case 0, 3:
			var got []byte
			var rerr error
			for k := 0; k < n+2; k++ {
				p := make([]byte, 3)
				var m int
				m, rerr = fieldReader.Read(p)
				got = append(got, p[:m]...)
				if rerr != nil {
					break
				}
			}
			vnd.Assert(rerr != nil, "field reader neither ended nor failed")
			vnd.Assert(len(got) <= n-f.offset, "field reader returned more bytes than the input holds")
			if len(got) <= n-f.offset {
				vnd.Assert(verifC13BytesEqual(got, data[f.offset:f.offset+len(got)]), "field reader returned bytes that are not the input at the reported offset")
			}
			if rerr == io.EOF {
				vnd.Cover("field-read-complete")
				vnd.Assert(uint64(len(got)) == f.size, "field reader reported end of field at a length other than the announced size")
			} else {
				vnd.Cover("field-read-truncated")
				vnd.Assert(f.size > avail, "field reader failed although the payload is completely contained in the input")
				vnd.Assert(status.Code(rerr) == codes.InvalidArgument, "truncated payload reported with a code other than INVALID_ARGUMENT")
			}
			if mode == 3 && i == 1 {
				return verifVisitorError
			}
		case 2:
			p := make([]byte, 1)
			m, _ := fieldReader.Read(p)
			if m == 1 {
				vnd.Assert(f.size >= 1 && avail >= 1, "field reader returned a byte of an empty or absent payload")
				if avail >= 1 {
					vnd.Assert(p[0] == data[f.offset], "field reader returned a byte that is not the input at the reported offset")
				}
			}
		}
		return nil
	})

	if mode == 3 && visits >= 2 {
		vnd.Cover("visitor-error")
		vnd.Assert(err != nil && status.Code(err) == codes.DataLoss, "visitor error not passed on")
		return
	}
	if err == nil {
		vnd.Cover("accepted")
		vnd.Assert(wellFormed, "malformed input accepted (truncated field, wire type other than bytes, or invalid field number)")
		vnd.Assert(visits == len(ref), "not every field was handed to the visitor")
		// tiling: every field inside the input, the last one ends at the end
		end := 0
		for _, f := range ref {
			vnd.Assert(f.offset >= end && uint64(f.offset)+f.size <= uint64(n), "accepted field lies outside the input")
			end = f.offset + int(f.size)
		}
		vnd.Assert(end == n, "accepted fields do not cover the input")
	} else {
		vnd.Cover("rejected")
		vnd.Assert(!wellFormed, "well-formed input rejected")
		vnd.Assert(status.Code(err) == codes.InvalidArgument, "malformed input reported with a code other than INVALID_ARGUMENT")
		vnd.Assert(visits == len(ref), "visitor calls differ from the fields that precede the malformation")
	}
	vnd.Observe("visits", uint64(visits))
	if err != nil {
		vnd.Observe("code", uint64(status.Code(err)))
	}
}

func verifC13BytesEqual(a, b []byte) bool {
	if len(a) != len(b) {
		return false
	}
	eq := true
	for i := range a {
		eq = vnd.And(eq, a[i] == b[i])
	}
	return eq
}
