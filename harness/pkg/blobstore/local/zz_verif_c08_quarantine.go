//go:build verif

package local

import (
	remoteexecution "github.com/bazelbuild/remote-apis/build/bazel/remote/execution/v2"
	vnd "github.com/buildbarn/bb-storage/internal/verifnd"
	"github.com/buildbarn/bb-storage/pkg/blobstore/buffer"
	"github.com/buildbarn/bb-storage/pkg/digest"

	"google.golang.org/grpc/codes"
	"google.golang.org/grpc/status"
)

var verifSomeDigest = digest.MustNewDigest("", remoteexecution.DigestFunction_MD5, "000102030405060708090a0b0c0d0e0f", 1)

// verifResolves reports whether the block with absolute number abs still resolves, and to which index.
func verifResolves(x *verifOCN, abs int) (int, bool) {
	idx, _, found := x.lbm.BlockReferenceToBlockIndex(BlockReference{EpochID: uint32(abs)})
	return idx, found
}

// verifFire obtains a getter for a location in list index i and fires its integrity callback.
func verifFire(x *verifOCN, i int, verdict bool) {
	getter, _ := x.lbm.Get(Location{BlockIndex: i, OffsetBytes: 0, SizeBytes: 1})
	b := getter(verifSomeDigest)
	b.Discard()
	x.bl.lastCB(verdict)
}

// Verif_C08_Q1_Quarantine: after a negative integrity verdict for an object in
// block i, every reference to block i or an older block stops resolving at
// once, every reference to a newer block resolves as before; a positive verdict
// changes nothing; the release counter is monotone; one log line per increase.
// Second callback (block j, any order) and a stale callback are covered too.
func Verif_C08_Q1_Quarantine() {
	x := verifNewOCNProfile(2, false)
	L := len(x.bl.space)
	if L == 0 {
		vnd.Cover("empty")
		return
	}
	base := x.bl.released
	i := vnd.Choose(L)
	verifFire(x, i, true)
	for b := 0; b < L; b++ {
		idx, ok := verifResolves(x, base+b)
		vnd.Assert(ok && idx == b, "a positive integrity verdict changed what resolves")
	}
	vnd.Assert(x.logger.n == 0, "a positive integrity verdict was logged as an error")

	verifFire(x, i, false)
	vnd.Cover("quarantined")
	for b := 0; b < L; b++ {
		idx, ok := verifResolves(x, base+b)
		if b <= i {
			vnd.Assert(!ok, "a block at or before the corrupted block still resolves after the negative verdict")
		} else {
			vnd.Assert(ok && idx == b, "a block newer than the corrupted block stopped resolving or moved")
		}
	}
	vnd.Assert(x.lbm.totalBlocksToBeReleased.Load() == uint64(base+i+1), "release target is not 'corrupted block and everything older'")
	vnd.Assert(x.logger.n == 1, "quarantine not logged exactly once")

	// a second corruption report in block j, in either order relative to i
	j := vnd.Choose(L)
	verifFire(x, j, false)
	m := i
	if j > m {
		m = j
		vnd.Cover("second-extends")
		vnd.Assert(x.logger.n == 2, "extending the quarantine not logged")
	} else {
		vnd.Cover("second-stale")
		vnd.Assert(x.logger.n == 1, "a stale corruption report was logged as a new release")
	}
	vnd.Assert(x.lbm.totalBlocksToBeReleased.Load() == uint64(base+m+1), "release target is not monotone / not the maximum of the reports")
	for b := 0; b < L; b++ {
		_, ok := verifResolves(x, base+b)
		vnd.Assert(ok == (b > m), "after two reports, resolvability is not 'newer than the newest corrupted block'")
	}
	vnd.Observe("q1", uint64(i), uint64(j), x.lbm.totalBlocksToBeReleased.Load()-uint64(base))
}

// Verif_C08_Q2_UploadsContinue: the allocation following a quarantine
// physically releases exactly the quarantined blocks (plus regular rotation),
// keeps the bookkeeping consistent and hands out space in a live new block.
func Verif_C08_Q2_UploadsContinue() {
	x := verifNewOCNProfile(2, false)
	L := len(x.bl.space)
	if L == 0 {
		vnd.Cover("empty")
		return
	}
	i := vnd.Choose(L)
	verifFire(x, i, false)
	size := int64(vnd.Int(0, 64))
	w, err := x.lbm.Put(size)
	vnd.Assert(err == nil, "upload after a quarantine failed although the block list works")
	vnd.Assert(w != nil, "no writer returned")
	vnd.Cover("allocated")
	lbm := x.lbm
	vnd.Assert(x.bl.pops >= i+1, "quarantined blocks were not released by the next allocation")
	vnd.Assert(lbm.totalBlocksReleased == uint64(x.bl.released), "released counter out of step with the block list")
	vnd.Assert(lbm.totalBlocksReleased >= lbm.totalBlocksToBeReleased.Load(), "blocks remain scheduled for release after the allocation")
	vnd.Assert(len(lbm.oldBlocks)+lbm.currentBlocks+lbm.newBlocks == len(x.bl.space), "old+current+new does not equal the length of the block list")
	vnd.Assert(len(x.bl.puts) == 1, "not exactly one allocation in the block list")
	p := x.bl.puts[0]
	vnd.Assert(p.index >= len(lbm.oldBlocks)+lbm.currentBlocks && p.index < len(x.bl.space), "allocation outside the live new blocks")
	vnd.Observe("q2", uint64(x.bl.pops), uint64(p.index))
}

// Verif_C08_Q3_InFlightWrite: a write that was allocated before the negative
// verdict fails at its finalizer iff it went into the corrupted block or an
// older one; otherwise it succeeds with the index of the very block it used.
func Verif_C08_Q3_InFlightWrite() {
	x := verifNewOCNProfile(2, false)
	size := int64(vnd.Int(0, 64))
	w, err := x.lbm.Put(size)
	vnd.Assert(err == nil, "allocation failed although the block list works")
	p := x.bl.puts[0]
	absWritten := x.bl.released + p.index
	L := len(x.bl.space)
	i := vnd.Choose(L)
	absCorrupt := x.bl.released + i
	verifFire(x, i, false)
	// optionally another allocation happens in between (physically releasing blocks)
	if vnd.Choose(2) == 1 {
		vnd.Cover("rotation-in-between")
		_, err2 := x.lbm.Put(int64(vnd.Int(0, 64)))
		vnd.Assert(err2 == nil, "second allocation failed")
	}
	fin := w(buffer.NewValidatedBufferFromByteSlice(nil))
	loc, ferr := fin()
	if absWritten <= absCorrupt {
		vnd.Cover("write-into-quarantined-block")
		vnd.Assert(ferr != nil, "an upload in flight into a quarantined block was acknowledged")
		vnd.Assert(status.Code(ferr) == codes.Internal, "in-flight upload into a quarantined block failed with an unexpected code")
	} else if absWritten < x.bl.released {
		// ordinary rotation released the target block in the meantime: failing is the specified outcome
		vnd.Cover("write-target-rotated-away")
		vnd.Assert(ferr != nil, "an upload whose target block was rotated away was acknowledged")
	} else {
		vnd.Cover("write-into-newer-block")
		vnd.Assert(ferr == nil, "an upload into a live block newer than the corrupted one failed")
		vnd.Assert(x.bl.released+loc.BlockIndex == absWritten, "finalizer reports a block other than the one the data went to")
		vnd.Assert(loc.SizeBytes == size, "finalizer reports a wrong size")
	}
	vnd.Observe("q3", uint64(absWritten-x.bl.released+100), uint64(absCorrupt-x.bl.released+100))
}

// Verif_C08_Q4_VerdictAfterRotation: a read may be held open for arbitrarily long.
// When its negative verdict finally arrives - after other uploads have allocated
// space and rotated the block list - the quarantine still ends at the block the
// object was READ FROM (identified at the time the getter was obtained): no
// healthy newer block is taken out of service, none at or below it is spared.
func Verif_C08_Q4_VerdictAfterRotation() {
	maxO := 1
	if vnd.Thorough() {
		maxO = 2
	}
	x := verifNewOCNProfile(maxO, false)
	L := len(x.bl.space)
	if L == 0 {
		vnd.Cover("empty")
		return
	}
	i := vnd.Choose(L)
	absRead := x.bl.released + i
	getter, _ := x.lbm.Get(Location{BlockIndex: i, OffsetBytes: 0, SizeBytes: 1})
	b := getter(verifSomeDigest)
	cb := x.bl.lastCB
	releasedAtGet := x.bl.released
	for k := vnd.Choose(3); k > 0; k-- {
		_, err := x.lbm.Put(int64(vnd.Int(0, 64)))
		vnd.Assert(err == nil, "allocation failed although the block list works")
	}
	if x.bl.released > releasedAtGet {
		vnd.Cover("rotated-while-read-open")
	}
	b.Discard()
	before := x.lbm.totalBlocksToBeReleased.Load()
	logged := x.logger.n
	cb(false)
	want := uint64(absRead + 1)
	if before > want {
		vnd.Cover("verdict-for-released-block")
		want = before
		vnd.Assert(x.logger.n == logged, "a verdict for a block that is already being released was logged as a new release")
	} else if before < want {
		vnd.Cover("verdict-extends-release")
		vnd.Assert(x.logger.n == logged+1, "quarantine not logged exactly once")
	}
	vnd.Assert(x.lbm.totalBlocksToBeReleased.Load() == want, "after a late negative verdict the release target is not 'the block that was read and everything older'")
	for j := 0; j < len(x.bl.space); j++ {
		abs := x.bl.released + j
		idx, ok := verifResolves(x, abs)
		if uint64(abs) < want {
			vnd.Assert(!ok, "a block at or before the corrupted block still resolves after the late verdict")
		} else {
			vnd.Assert(ok && idx == j, "a healthy block newer than the corrupted one stopped resolving after the late verdict")
		}
	}
	vnd.Observe("q4", uint64(i), uint64(x.bl.released-releasedAtGet))
}

// Verif_C08_Q6_DeduplicatingUploadRechecks: a hierarchical upload of an object that
// already exists under another name copies nothing; it consumes the client's data with
// the lock released and then points its own lookup entry at the existing copy. A
// quarantine (or rotation) in between removes that copy from the index, so the entry
// written must be the canonical entry AS RE-READ under the lock (the scenario stub
// answers every lookup arbitrarily, including "gone"), never the location seen before.
func Verif_C08_Q6_DeduplicatingUploadRechecks() { verifScenarioHierPut() }

// Verif_C08_Q8_ReleaseKeepsListConsistent: a quarantine releases blocks from the front of
// the (persistent) block list, possibly blocks whose epochs have not been synchronized
// yet. Every list operation - PopFront in particular - preserves the representation
// invariant from an arbitrary valid state (counters never negative, wake-ups consistent),
// so uploads continue after a quarantine.
func Verif_C08_Q8_ReleaseKeepsListConsistent() { verifScenarioPBLMethod() }
