//go:build verif

package local

import (
	vnd "github.com/buildbarn/bb-storage/internal/verifnd"
	"github.com/prometheus/client_golang/prometheus"
)

// ---------------------------------------------------------------------------
// C06 — key-location index. The real hashingKeyLocationMap runs over an
// arbitrary table (verifTable). LocationRecordKey.Hash is an uninterpreted
// function under the engine (every slot assignment possible). Natively, where
// the real FNV hash runs, the solver's model keys are mapped to real keys whose
// FNV slots equal the model's slots, so witnesses and counterexamples replay
// against the unmodified code.
// ---------------------------------------------------------------------------

func verifUFHash(k *LocationRecordKey, hashInitialization uint64) uint64 {
	h := vnd.UF("hash", verifKeyWord(&k.Key), uint64(k.Attempt), hashInitialization)
	// Range restriction: the map only uses the hash modulo the table size, so
	// functions into [0,64) still realise every slot assignment (n <= 6).
	return h & 63
}

type verifCounter struct {
	prometheus.Counter
	n int
}

func (c *verifCounter) Inc() { c.n++ }

type verifObserver struct{ n int }

func (o *verifObserver) Observe(float64) { o.n++ }

type verifIdx struct {
	n      int
	maxGet uint32
	maxPut int
	init   uint64
	tbl    *verifTable
	klm    *hashingKeyLocationMap

	tooManyAttempts   *verifObserver
	tooManyIterations *verifCounter
}

func (x *verifIdx) slot(k Key, attempt uint32) int {
	rk := LocationRecordKey{Key: k, Attempt: attempt}
	return x.klm.getSlot(&rk)
}

// symKey returns an arbitrary key.
func (x *verifIdx) symKey() Key {
	return verifSymKey()
}

// verifNewIdx builds an arbitrary table of n slots and the real map over it.
func verifNewIdx(n, maxBlock, maxPutBound int) *verifIdx {
	vnd.Replace("(*github.com/buildbarn/bb-storage/pkg/blobstore/local.LocationRecordKey).Hash", verifUFHash)
	// Native replay: the generated overlay of location_record_key.go consults this
	// hook first, so the recorded model of the uninterpreted hash is what the
	// compiled map sees (applications outside the model fall through to FNV-1a).
	verifNativeHashHook = func(k *LocationRecordKey, init uint64) (uint64, bool) {
		v, ok := vnd.UFLookup("hash", verifKeyWord(&k.Key), uint64(k.Attempt), init)
		return v & 63, ok
	}
	x := &verifIdx{n: n}
	x.maxGet = uint32(vnd.Int(1, 3))
	x.maxPut = vnd.Int(1, maxPutBound)
	x.init = vnd.U64()
	x.tbl = &verifTable{valid: make([]bool, n), rec: make([]LocationRecord, n)}
	for s := 0; s < n; s++ {
		x.tbl.valid[s] = vnd.Bool()
		x.tbl.rec[s] = LocationRecord{
			RecordKey: LocationRecordKey{Key: x.symKey(), Attempt: uint32(vnd.Int(0, 2))},
			Location:  verifSymLocation(maxBlock),
		}
	}
	x.klm = NewHashingKeyLocationMap(x.tbl, n, x.init, x.maxGet, x.maxPut, "verif").(*hashingKeyLocationMap)
	x.tooManyAttempts = &verifObserver{}
	x.tooManyIterations = &verifCounter{}
	x.klm.putTooManyAttempts = x.tooManyAttempts
	x.klm.putTooManyIterations = x.tooManyIterations
	return x
}

// verifOlder is the harness's own, fork-free copy of the age order (the oracle
// must not depend on the Location.IsOlder under test).
func verifOlder(a, b Location) bool {
	return vnd.Or(a.BlockIndex < b.BlockIndex, vnd.And(a.BlockIndex == b.BlockIndex, a.OffsetBytes < b.OffsetBytes))
}

// invSlot states the representation invariant for slot s of table t (fork-free):
// a valid record (k,a,L) sits in slot(k,a), a < maxGet, and every earlier probe
// slot(k,a'), a' < a, holds a valid record that is not older than L.
func (x *verifIdx) invSlot(t *verifTable, s int) bool {
	r := t.rec[s]
	ok := r.RecordKey.Attempt < x.maxGet
	ok = vnd.And(ok, x.slot(r.RecordKey.Key, r.RecordKey.Attempt) == s)
	for a := uint32(0); a < 2; a++ {
		sp := x.slot(r.RecordKey.Key, a)
		earlier := vnd.And(t.valid[sp], vnd.Not(verifOlder(t.rec[sp].Location, r.Location)))
		ok = vnd.And(ok, vnd.Implies(a < r.RecordKey.Attempt, earlier))
	}
	return vnd.Implies(t.valid[s], ok)
}

// sizeFunctional: a position (block, offset) holds one object, so two records
// (or a record and the location being stored) that agree on block and offset
// agree on the size.
func verifSizeFunctional(a, b Location) bool {
	return vnd.Implies(vnd.And(a.BlockIndex == b.BlockIndex, a.OffsetBytes == b.OffsetBytes), a.SizeBytes == b.SizeBytes)
}

func (x *verifIdx) assumeInv() {
	t := x.tbl
	for s := 0; s < x.n; s++ {
		vnd.Assume(x.invSlot(t, s))
		for s2 := s + 1; s2 < x.n; s2++ {
			vnd.Assume(vnd.Implies(vnd.And(t.valid[s], t.valid[s2]), verifSizeFunctional(t.rec[s].Location, t.rec[s2].Location)))
		}
	}
}

// oracleGet is the specification of a lookup: the newest location among the
// valid records carrying exactly k (fork-free fold over the table).
func verifOracleGet(t *verifTable, k Key) (found bool, loc Location) {
	for s := 0; s < len(t.valid); s++ {
		same := vnd.And(t.valid[s], t.rec[s].RecordKey.Key == k)
		better := vnd.And(same, vnd.Or(vnd.Not(found), verifOlder(loc, t.rec[s].Location)))
		loc.BlockIndex = vnd.IteInt(better, t.rec[s].Location.BlockIndex, loc.BlockIndex)
		loc.OffsetBytes = int64(vnd.Ite(better, uint64(t.rec[s].Location.OffsetBytes), uint64(loc.OffsetBytes)))
		loc.SizeBytes = int64(vnd.Ite(better, uint64(t.rec[s].Location.SizeBytes), uint64(loc.SizeBytes)))
		found = vnd.Or(found, same)
	}
	return
}

func verifTableSize() int {
	// (tables of 4 and 5 slots did not finish the Put lemma within the thorough time budget;
	// the thorough tier raises the attempt bound instead)
	return 2 + vnd.Choose(2) // 2..3
}

// Verif_C06_H2_Get: on an arbitrary table satisfying the invariant, Get(k)
// returns the newest location stored under exactly k, or NOT_FOUND iff no
// valid record carries k; never a location stored under another key.
func Verif_C06_H2_Get() {
	n := verifTableSize()
	x := verifNewIdx(n, 3, 4)
	x.assumeInv()
	k := x.symKey()
	loc, err := x.klm.Get(k)
	t := x.tbl
	if err == nil {
		vnd.Cover("found")
		vnd.Observe("found", uint64(loc.BlockIndex), uint64(loc.OffsetBytes), uint64(loc.SizeBytes))
		exists := false
		for s := 0; s < n; s++ {
			same := vnd.And(t.valid[s], t.rec[s].RecordKey.Key == k)
			exists = vnd.Or(exists, vnd.And(same, t.rec[s].Location == loc))
			vnd.Assert(vnd.Implies(same, vnd.Not(verifOlder(loc, t.rec[s].Location))), "Get returned a location older than another record of the same key")
		}
		vnd.Assert(exists, "Get returned a location that is not stored under exactly this key")
	} else {
		vnd.Cover("notfound")
		vnd.Observe("notfound")
		vnd.Assert(err == errKeyLocationMapNotFound, "Get failed with an error other than NOT_FOUND on an error-free array")
		for s := 0; s < n; s++ {
			vnd.Assert(vnd.Not(vnd.And(t.valid[s], t.rec[s].RecordKey.Key == k)), "Get reported NOT_FOUND although a valid record carries the key")
		}
	}
	// the oracle used by the Put harness agrees with the real Get
	of, ol := verifOracleGet(t, k)
	vnd.Assert(of == (err == nil), "oracle and Get disagree on presence")
	vnd.Assert(vnd.Implies(of, ol == loc), "oracle and Get disagree on the location")
}

// Verif_C06_H1_Put: one Put from an arbitrary table satisfying the invariant.
//
// symgo: maxpaths=200000
func Verif_C06_H1_Put() {
	n := verifTableSize()
	maxPutBound := 3
	if vnd.Thorough() {
		maxPutBound = 4
	}
	x := verifNewIdx(n, 3, maxPutBound)
	x.assumeInv()
	t := x.tbl
	k := x.symKey()
	L := verifSymLocation(3)
	for s := 0; s < n; s++ {
		vnd.Assume(vnd.Implies(t.valid[s], verifSizeFunctional(t.rec[s].Location, L)))
	}
	k1, k2 := x.symKey(), x.symKey()
	vnd.Assume(vnd.And(k1 != k, vnd.And(k2 != k, k1 != k2)))

	// snapshot and specification-level answers before
	t0 := &verifTable{valid: append([]bool(nil), t.valid...), rec: append([]LocationRecord(nil), t.rec...)}
	bf, bl := verifOracleGet(t0, k)
	bf1, bl1 := verifOracleGet(t0, k1)
	bf2, bl2 := verifOracleGet(t0, k2)

	err := x.klm.Put(k, L)
	vnd.Assert(err == nil, "Put failed on an error-free array")
	d := x.tooManyAttempts.n + x.tooManyIterations.n
	vnd.Assert(d == 0 || d == 1, "more than one discard reported by a single Put")
	if d == 1 {
		vnd.Cover("discard")
	}
	if t.puts >= 2 {
		vnd.Cover("displaced")
	}
	vnd.Observe("put", uint64(d), uint64(t.puts))

	// (a) invariant preserved, conjunct by conjunct
	for s := 0; s < n; s++ {
		vnd.Assert(x.invSlot(t, s), "Put broke the table invariant")
	}
	// (b) nothing invented: each record afterwards is (k,L) or a record of the old table
	for s := 0; s < n; s++ {
		r := t.rec[s]
		isNew := vnd.And(r.RecordKey.Key == k, r.Location == L)
		wasThere := false
		for s0 := 0; s0 < n; s0++ {
			wasThere = vnd.Or(wasThere, vnd.And(t0.valid[s0], vnd.And(t0.rec[s0].RecordKey.Key == r.RecordKey.Key, t0.rec[s0].Location == r.Location)))
		}
		vnd.Assert(vnd.Implies(t.valid[s], vnd.Or(isNew, wasThere)), "Put created a record that is neither the stored entry nor an old record (key/location cross-over)")
	}
	// (c) frame: other keys unchanged unless a discard is reported
	af, al := verifOracleGet(t, k)
	af1, al1 := verifOracleGet(t, k1)
	af2, al2 := verifOracleGet(t, k2)
	// expected answer for k: the newer of L and the old answer
	keepOld := vnd.And(bf, vnd.Not(verifOlder(bl, L)))
	expBlock := vnd.IteInt(keepOld, bl.BlockIndex, L.BlockIndex)
	expOff := int64(vnd.Ite(keepOld, uint64(bl.OffsetBytes), uint64(L.OffsetBytes)))
	chgK := vnd.Not(vnd.And(af, vnd.And(al.BlockIndex == expBlock, al.OffsetBytes == expOff)))
	chg1 := vnd.Not(vnd.And(af1 == bf1, vnd.Implies(bf1, al1 == bl1)))
	chg2 := vnd.Not(vnd.And(af2 == bf2, vnd.Implies(bf2, al2 == bl2)))
	if d == 0 {
		vnd.Assert(vnd.Not(chgK), "without a reported discard, the stored key does not answer the newer of the stored and the previous location")
		vnd.Assert(vnd.Not(chg1), "without a reported discard, the answer for another key changed")
		vnd.Assert(vnd.Not(chg2), "without a reported discard, the answer for another key changed (second key)")
	} else {
		vnd.Assert(vnd.Not(vnd.And(chgK, chg1)), "one discard, but two keys changed (stored key and another)")
		vnd.Assert(vnd.Not(vnd.And(chgK, chg2)), "one discard, but two keys changed (stored key and second other)")
		vnd.Assert(vnd.Not(vnd.And(chg1, chg2)), "one discard, but two other keys changed")
		// a changed key falls back to an older location of that key or to nothing
		vnd.Assert(vnd.Implies(chg1, vnd.And(bf1, vnd.Or(vnd.Not(af1), verifOlder(al1, bl1)))), "victim key did not fall back to an older location or nothing")
		vnd.Assert(vnd.Implies(chg2, vnd.And(bf2, vnd.Or(vnd.Not(af2), verifOlder(al2, bl2)))), "victim key did not fall back to an older location or nothing (second key)")
		// the discarded entry is never newer than the entry being stored
		vnd.Assert(vnd.Implies(chg1, vnd.Not(verifOlder(L, bl1))), "discarded entry is newer than the entry being stored")
		vnd.Assert(vnd.Implies(chg2, vnd.Not(verifOlder(L, bl2))), "discarded entry is newer than the entry being stored (second key)")
		// if the stored key itself is the victim it keeps its previous answer (or none)
		vnd.Assert(vnd.Implies(chgK, vnd.And(af == bf, vnd.Implies(bf, al == bl))), "stored key is the victim but its previous answer changed")
	}
}
