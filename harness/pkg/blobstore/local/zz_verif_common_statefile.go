//go:build verif

package local

import (
	"io"
	"io/fs"

	vnd "github.com/buildbarn/bb-storage/internal/verifnd"
	"github.com/buildbarn/bb-storage/pkg/filesystem"
	"github.com/buildbarn/bb-storage/pkg/filesystem/path"
	pb "github.com/buildbarn/bb-storage/pkg/proto/blobstore/local"
)

// verifStateDir records the sequence of directory / file operations issued by
// directoryBackedPersistentStateStore; every operation fails symbolically.
type verifStateDir struct {
	filesystem.Directory
	log        []string
	failAt     int // the operation with this ordinal fails (0 = none)
	ops        int
	removeKind int // 0 ok, 1 does-not-exist
	fileOpen   int
	fileClosed int
	written    []byte
	current    []byte // content of the file named "state" (nil: absent)
}

func (d *verifStateDir) step(name string) bool {
	d.ops++
	d.log = append(d.log, name)
	return d.ops == d.failAt
}

func (d *verifStateDir) Remove(name path.Component) error {
	if name.String() != "state.new" {
		vnd.Unreachable("Remove of a file other than state.new")
	}
	if d.step("remove") {
		return verifErrNoSpace
	}
	if d.removeKind == 1 {
		return fs.ErrNotExist
	}
	return nil
}

func (d *verifStateDir) OpenAppend(name path.Component, mode filesystem.CreationMode) (filesystem.FileAppender, error) {
	if name.String() != "state.new" {
		vnd.Unreachable("temporary state file has an unexpected name")
	}
	if d.step("open") {
		return nil, verifErrNoSpace
	}
	d.fileOpen++
	return &verifStateFile{d: d}, nil
}

func (d *verifStateDir) Rename(oldName path.Component, newDir filesystem.Directory, newName path.Component) error {
	if oldName.String() != "state.new" || newName.String() != "state" {
		vnd.Unreachable("rename is not state.new -> state")
	}
	if d.step("rename") {
		return verifErrNoSpace
	}
	return nil
}

func (d *verifStateDir) Sync() error {
	if d.step("dirsync") {
		return verifErrNoSpace
	}
	return nil
}

type verifStateFile struct{ d *verifStateDir }

func (f *verifStateFile) Write(p []byte) (int, error) {
	if f.d.step("write") {
		return 0, verifErrNoSpace
	}
	f.d.written = append(f.d.written, p...)
	return len(p), nil
}

func (f *verifStateFile) Sync() error {
	if f.d.step("fsync") {
		return verifErrNoSpace
	}
	return nil
}

func (f *verifStateFile) Close() error {
	f.d.fileClosed++
	if f.d.step("close") {
		return verifErrNoSpace
	}
	return nil
}

// ---- reading the state file back ---------------------------------------------

func (d *verifStateDir) OpenRead(name path.Component) (filesystem.FileReader, error) {
	if name.String() != "state" {
		vnd.Unreachable("a file other than the state file was opened for reading")
	}
	if d.current == nil {
		return nil, fs.ErrNotExist
	}
	d.fileOpen++
	return &verifStateReader{d: d}, nil
}

type verifStateReader struct {
	filesystem.FileReader
	d *verifStateDir
}

func (f *verifStateReader) ReadAt(p []byte, off int64) (int, error) {
	if off >= int64(len(f.d.current)) {
		return 0, io.EOF
	}
	n := copy(p, f.d.current[off:])
	if n < len(p) {
		return n, io.EOF
	}
	return n, nil
}

func (f *verifStateReader) Close() error {
	f.d.fileClosed++
	return nil
}

// verifScenarioStateFileRoundTrip: what a completed state write stored is what the next
// start reads back - whatever the size of the state (few epochs; thousands of epochs, i.e.
// a file well beyond 64 KiB): same oldest epoch, hash initialisation, blocks, offsets and
// every epoch hash seed. (A store that cannot read its own state reinitialises, which
// loses everything that had been acknowledged.)
func verifScenarioStateFileRoundTrip() {
	seeds := []int{0, 2, 9000}[vnd.Choose(3)]
	state := &pb.PersistentState{OldestEpochId: 7, KeyLocationMapHashInitialization: 99}
	per := seeds/2 + 1
	for b := 0; b < 2; b++ {
		bs := &pb.BlockState{BlockLocation: &pb.BlockLocation{OffsetBytes: int64(4096 * (b + 1)), SizeBytes: 4096}, WriteOffsetBytes: int64(100 + b)}
		for e := 0; e < per && len(bs.EpochHashSeeds)+b*per < seeds; e++ {
			bs.EpochHashSeeds = append(bs.EpochHashSeeds, 0x8000000000000000+uint64(b*per+e))
		}
		state.Blocks = append(state.Blocks, bs)
	}
	d := &verifStateDir{removeKind: 1}
	store := NewDirectoryBackedPersistentStateStore(d)
	vnd.Assert(store.WritePersistentState(state) == nil, "state write failed although every file operation succeeded")
	d.current = d.written // the rename made the new file current
	if len(d.current) > 1<<16 {
		vnd.Cover("state-file-beyond-64KiB")
	}
	got, err := store.ReadPersistentState()
	vnd.Assert(err == nil, "reading back a state file that was written successfully failed")
	vnd.Assert(got.OldestEpochId == 7 && got.KeyLocationMapHashInitialization == 99, "the state read back is not the state written (store reinitialised?)")
	vnd.Assert(len(got.Blocks) == len(state.Blocks), "the state read back has another number of blocks")
	for b := range state.Blocks {
		if b >= len(got.Blocks) {
			break
		}
		vnd.Assert(got.Blocks[b].WriteOffsetBytes == state.Blocks[b].WriteOffsetBytes, "write offset changed across the state file")
		vnd.Assert(got.Blocks[b].BlockLocation.OffsetBytes == state.Blocks[b].BlockLocation.OffsetBytes, "block location changed across the state file")
		vnd.Assert(len(got.Blocks[b].EpochHashSeeds) == len(state.Blocks[b].EpochHashSeeds), "epochs were lost across the state file")
		for e := range state.Blocks[b].EpochHashSeeds {
			if e < len(got.Blocks[b].EpochHashSeeds) && got.Blocks[b].EpochHashSeeds[e] != state.Blocks[b].EpochHashSeeds[e] {
				vnd.Unreachable("an epoch hash seed changed across the state file")
			}
		}
	}
	vnd.Assert(d.fileClosed == d.fileOpen, "a state file handle was not closed")
}
