//go:build verif

package local

import (
	vnd "github.com/buildbarn/bb-storage/internal/verifnd"
	"github.com/buildbarn/bb-storage/pkg/blobstore/buffer"
)

// verifScenarioFinalizerUnderRotation: see Verif_C01_W5_FinalizerUnderRotation.
func verifScenarioFinalizerUnderRotation() {
	x := verifNewOCNProfile(2, false)
	size := int64(vnd.Int(0, 64))
	w, err := x.lbm.Put(size)
	vnd.Assert(err == nil, "allocation failed although the block list works")
	p := x.bl.puts[0]
	absWritten := x.bl.released + p.index
	releasedAtAllocation := x.bl.released
	// other uploads allocate space while this one copies its data
	for k := vnd.Choose(3); k > 0; k-- {
		_, err2 := x.lbm.Put(int64(vnd.Int(0, 64)))
		vnd.Assert(err2 == nil, "a later allocation failed although the block list works")
	}
	fin := w(buffer.NewValidatedBufferFromByteSlice(nil))
	loc, ferr := fin()
	if x.bl.released > releasedAtAllocation {
		vnd.Cover("rotated-during-copy")
	}
	if absWritten < x.bl.released {
		vnd.Cover("target-block-released")
		vnd.Assert(ferr != nil, "an upload whose target block was rotated away was acknowledged")
	} else {
		vnd.Cover("target-block-alive")
		vnd.Assert(ferr == nil, "an upload into a block that is still in the list failed")
		vnd.Assert(x.bl.released+loc.BlockIndex == absWritten, "the finalizer reports a block other than the one the data went to")
		vnd.Assert(loc.BlockIndex >= 0 && loc.BlockIndex < len(x.bl.space), "the finalizer reports a block index outside the list")
		vnd.Assert(loc.SizeBytes == size, "the finalizer reports a wrong size")
	}
	vnd.Observe("w5", uint64(absWritten-x.bl.released+100), uint64(loc.BlockIndex+100))
}
