//go:build verif

package local

import (
	"github.com/buildbarn/bb-storage/pkg/blobstore"
)

// VerifStoreWiring exposes, for an assembled local store, the object through which
// its index resolves block references and the location map that serves its reads
// (used by the configuration-level wiring check of C08).
func VerifStoreWiring(ba blobstore.BlobAccess) (resolver BlockReferenceResolver, locationBlobMap LocationBlobMap, ok bool) {
	var klm KeyLocationMap
	switch s := ba.(type) {
	case *flatBlobAccess:
		klm, locationBlobMap = s.keyLocationMap, s.locationBlobMap
	case *hierarchicalCASBlobAccess:
		klm, locationBlobMap = s.keyLocationMap, s.locationBlobMap
	default:
		return nil, nil, false
	}
	h, isHashing := klm.(*hashingKeyLocationMap)
	if !isHashing {
		return nil, nil, false
	}
	switch a := h.recordArray.(type) {
	case *inMemoryLocationRecordArray:
		return a.resolver, locationBlobMap, true
	case *blockDeviceBackedLocationRecordArray:
		return a.resolver, locationBlobMap, true
	}
	return nil, nil, false
}
