//go:build verif

package local

import (
	"io"

	vnd "github.com/buildbarn/bb-storage/internal/verifnd"
)

// verifRecDevice is a tiny block device for the record array.
type verifRecDevice struct {
	image  []byte
	writes int
}

func (d *verifRecDevice) ReadAt(p []byte, off int64) (int, error) {
	if off < 0 || int(off)+len(p) > len(d.image) {
		return 0, io.EOF
	}
	return copy(p, d.image[off:]), nil
}
func (d *verifRecDevice) WriteAt(p []byte, off int64) (int, error) {
	if off < 0 || int(off)+len(p) > len(d.image) {
		vnd.Unreachable("record written outside the record array")
	}
	d.writes++
	return copy(d.image[off:], p), nil
}
func (d *verifRecDevice) Sync() error  { return nil }
func (d *verifRecDevice) Close() error { return nil }

// verifRecResolver maps block index <-> (reference, seed) as chosen by the harness.
type verifRecResolver struct {
	ref      BlockReference
	seed     uint64
	index    int
	seedRead uint64 // seed reported when the reference is resolved for reading
	found    bool
}

func (r *verifRecResolver) BlockReferenceToBlockIndex(ref BlockReference) (int, uint64, bool) {
	if !r.found || ref != r.ref {
		return 0, 0, false
	}
	return r.index, r.seedRead, true
}
func (r *verifRecResolver) BlockIndexToBlockReference(i int) (BlockReference, uint64) {
	return r.ref, r.seed
}

func verifScenarioRecordRoundTrip() {
	const slots = 3
	dev := &verifRecDevice{image: make([]byte, slots*BlockDeviceBackedLocationRecordSize)}
	res := &verifRecResolver{
		ref:   BlockReference{EpochID: vnd.U32(), BlocksFromLast: vnd.U16()},
		seed:  vnd.U64(),
		index: vnd.Int(0, 5),
		found: true,
	}
	res.seedRead = res.seed
	lra := NewBlockDeviceBackedLocationRecordArray(dev, res)
	slot := vnd.Choose(slots)
	rec := LocationRecord{
		RecordKey: LocationRecordKey{Attempt: vnd.U32()},
		Location:  Location{BlockIndex: res.index, OffsetBytes: vnd.I64(), SizeBytes: vnd.I64()},
	}
	copy(rec.RecordKey.Key[:], vnd.Bytes(len(rec.RecordKey.Key)))
	before := append([]byte(nil), dev.image...)
	vnd.Assert(lra.Put(slot, rec) == nil, "Put failed on a working device")
	for i := range dev.image {
		if i/BlockDeviceBackedLocationRecordSize != slot {
			vnd.Assert(dev.image[i] == before[i], "Put modified a neighbouring record")
		}
	}
	got, err := lra.Get(slot)
	vnd.Assert(err == nil, "a record just written does not read back as valid")
	vnd.Assert(got == rec, "record read back differs from the record written")
	vnd.Cover("roundtrip")
	// the block is released: the reference stops resolving
	res.found = false
	_, err = lra.Get(slot)
	vnd.Assert(err == ErrLocationRecordInvalid, "a record whose block reference no longer resolves is not reported invalid")
	vnd.Observe("rt", uint64(slot), uint64(dev.writes))
}

// verifScenarioRecordRoundTripGrid: the same round trip over a grid of CONCRETE records
// (attempts 0/1/31, offsets below and beyond 4 GiB, several seeds). The symbolic lemma
// above decides the codec for all values when encoder and decoder agree syntactically; when
// they do not (a field written after the checksum was taken, say) its question becomes an
// FNV collision question the solver cannot answer, and the run is merely inconclusive. On
// concrete values the real checksum is simply computed.
func verifScenarioRecordRoundTripGrid() {
	const slots = 2
	dev := &verifRecDevice{image: make([]byte, slots*BlockDeviceBackedLocationRecordSize)}
	seeds := []uint64{0, 0x0123456789abcdef, ^uint64(0)}
	res := &verifRecResolver{
		ref:   BlockReference{EpochID: 0x01020304, BlocksFromLast: 0x0506},
		seed:  seeds[vnd.Choose(3)],
		index: 3,
		found: true,
	}
	res.seedRead = res.seed
	lra := NewBlockDeviceBackedLocationRecordArray(dev, res)
	attempts := []uint32{0, 1, 31}
	offsets := []int64{0, 4096, 1<<32 + 8192, 1<<62 + 1}
	rec := LocationRecord{
		RecordKey: LocationRecordKey{Attempt: attempts[vnd.Choose(3)]},
		Location:  Location{BlockIndex: 3, OffsetBytes: offsets[vnd.Choose(4)], SizeBytes: 1<<33 + 7},
	}
	for i := range rec.RecordKey.Key {
		rec.RecordKey.Key[i] = byte(0xa0 + i)
	}
	slot := vnd.Choose(slots)
	vnd.Assert(lra.Put(slot, rec) == nil, "Put failed on a working device")
	got, err := lra.Get(slot)
	vnd.Assert(err == nil, "a record just written does not read back as valid")
	vnd.Assert(got == rec, "record read back differs from the record written")
	vnd.Cover("grid-roundtrip")
	// a record read with another seed (another epoch's hash seed) is invalid
	res.seedRead = res.seed + 1
	_, err = lra.Get(slot)
	vnd.Assert(err == ErrLocationRecordInvalid, "a record validated under another epoch's hash seed")
}
