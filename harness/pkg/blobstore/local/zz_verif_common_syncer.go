//go:build verif

package local

import (
	"context"
	"sync"
	"time"

	vnd "github.com/buildbarn/bb-storage/internal/verifnd"
	"github.com/buildbarn/bb-storage/pkg/clock"
	pb "github.com/buildbarn/bb-storage/pkg/proto/blobstore/local"
)

// ---------------------------------------------------------------------------
// PeriodicSyncer over a recording source (wrapping a real PersistentBlockList
// in an arbitrary valid state), a stub clock with symbolic non-decreasing
// instants, a state store and a data syncer that fail a symbolic number of
// times.
// ---------------------------------------------------------------------------

type verifStubTimer struct{}

func (verifStubTimer) Stop() bool { return true }

// verifClock keeps the current instant as a nanosecond count (additions only: no
// multiplication or division by 10^9, which the solver cannot handle).
type verifClock struct {
	nowNs    int64
	timers   []time.Duration
	fired    []time.Time
	nowCalls int
}

func (c *verifClock) Now() time.Time {
	c.nowCalls++
	c.nowNs += int64(vnd.Int(0, 1<<40))
	return time.Unix(0, c.nowNs)
}

func (c *verifClock) NewContextWithTimeout(parent context.Context, timeout time.Duration) (context.Context, context.CancelFunc) {
	return parent, func() {}
}

// NewTimer returns a timer that has already fired, at an instant >= now + d.
func (c *verifClock) NewTimer(d time.Duration) (clock.Timer, <-chan time.Time) {
	c.timers = append(c.timers, d)
	if d > 0 {
		c.nowNs += int64(d)
	}
	c.nowNs += int64(vnd.Int(0, 1<<40))
	t := time.Unix(0, c.nowNs)
	c.fired = append(c.fired, t)
	ch := make(chan time.Time, 1)
	ch <- t
	return verifStubTimer{}, ch
}

func (c *verifClock) NewTicker(d time.Duration) (clock.Ticker, <-chan time.Time) {
	return nil, nil
}

type verifCtx struct {
	context.Context
	done chan struct{}
}

func (c verifCtx) Done() <-chan struct{} { return c.done }
func (c verifCtx) Err() error {
	select {
	case <-c.done:
		return context.Canceled
	default:
		return nil
	}
}

// verifSource records the order of PersistentStateSource calls and checks lock discipline.
type verifSource2 struct {
	bl     *PersistentBlockList
	lock   *sync.RWMutex
	store  *sync.Mutex // the syncer's store lock, once known: checked for the state snapshot / written pair
	events []string
}

// requireLocks: the documented locking contract of the persistent state source (engine only):
// every call under the source lock (mutating calls under the write lock); the snapshot of the
// state and the notification that it has been written both under the STORE lock, so that two
// state writers cannot interleave (a writer that snapshots before taking the store lock may
// have its stale file confirmed as "written" by the other writer's release bookkeeping).
func (s *verifSource2) requireLocks(what string, write, store bool) {
	if st := vnd.MutexState(s.lock); st >= 0 {
		if write {
			vnd.Assert(st == 2, "lock discipline: "+what+" called without holding the source write lock")
		} else {
			vnd.Assert(st >= 1, "lock discipline: "+what+" called without holding the source lock")
		}
	}
	if store && s.store != nil {
		if st := vnd.MutexState(s.store); st >= 0 {
			vnd.Assert(st == 2, "lock discipline: "+what+" called without holding the store lock (state writers could interleave)")
		}
	}
}

func (s *verifSource2) GetBlockReleaseWakeup() <-chan struct{} {
	s.requireLocks("GetBlockReleaseWakeup", false, false)
	return s.bl.GetBlockReleaseWakeup()
}
func (s *verifSource2) GetBlockPutWakeup() <-chan struct{} {
	s.requireLocks("GetBlockPutWakeup", false, false)
	return s.bl.GetBlockPutWakeup()
}
func (s *verifSource2) NotifySyncStarting(final bool) {
	s.requireLocks("NotifySyncStarting", true, false)
	if final {
		s.events = append(s.events, "start-final")
	} else {
		s.events = append(s.events, "start")
	}
	s.bl.NotifySyncStarting(final)
}
func (s *verifSource2) NotifySyncCompleted() {
	s.requireLocks("NotifySyncCompleted", true, false)
	s.events = append(s.events, "completed")
	s.bl.NotifySyncCompleted()
}
func (s *verifSource2) GetPersistentState() (uint32, []*pb.BlockState) {
	s.requireLocks("GetPersistentState", false, true)
	s.events = append(s.events, "getstate")
	return s.bl.GetPersistentState()
}
func (s *verifSource2) NotifyPersistentStateWritten() {
	s.requireLocks("NotifyPersistentStateWritten", true, true)
	s.events = append(s.events, "written")
	s.bl.NotifyPersistentStateWritten()
}

type verifStateStore struct {
	src       *verifSource2
	failures  int
	writes    int
	lastState *pb.PersistentState
}

func (st *verifStateStore) ReadPersistentState() (*pb.PersistentState, error) {
	return nil, verifErrNoSpace
}
func (st *verifStateStore) WritePersistentState(s *pb.PersistentState) error {
	st.writes++
	if st.failures > 0 {
		st.failures--
		st.src.events = append(st.src.events, "write-fail")
		return verifErrNoSpace
	}
	st.src.events = append(st.src.events, "write-ok")
	st.lastState = s
	return nil
}

type verifSyncerRig struct {
	x           *verifPBL
	src         *verifSource2
	store       *verifStateStore
	clk         *verifClock
	logger      *verifErrorLogger
	ps          *PeriodicSyncer
	syncs       int
	syncFail    int
	minInterval time.Duration
}

func verifNewSyncerRig() *verifSyncerRig {
	r := &verifSyncerRig{}
	mb, me, mp := verifPBLBounds()
	if !vnd.Thorough() {
		me = 1
	}
	r.x = verifNewPBL(mb, me, mp)
	lock := &sync.RWMutex{}
	r.src = &verifSource2{bl: r.x.bl, lock: lock}
	r.store = &verifStateStore{src: r.src, failures: vnd.Choose(3)}
	r.clk = &verifClock{nowNs: int64(vnd.Int(0, 1<<50))}
	r.logger = &verifErrorLogger{}
	r.syncFail = vnd.Choose(3)
	r.minInterval = 10 * time.Second
	r.ps = NewPeriodicSyncer(r.src, lock, r.store, r.clk, r.logger, time.Second, r.minInterval, 42, func() error {
		r.syncs++
		if r.syncFail > 0 {
			r.syncFail--
			r.src.events = append(r.src.events, "sync-fail")
			return verifErrNoSpace
		}
		r.src.events = append(r.src.events, "sync-ok")
		return nil
	})
	r.src.store = &r.ps.storeLock
	return r
}

// verifMatchCommitSequence checks that events[from:] is
//
//	start (sync-fail)* sync-ok completed [start-final (sync-fail)* sync-ok completed] (getstate write-fail)* getstate write-ok written
func verifMatchCommitSequence(ev []string, final bool) bool {
	i := 0
	next := func(s string) bool {
		if i < len(ev) && ev[i] == s {
			i++
			return true
		}
		return false
	}
	if !next("start") {
		return false
	}
	for next("sync-fail") {
	}
	if !next("sync-ok") || !next("completed") {
		return false
	}
	if final {
		if !next("start-final") {
			return false
		}
		for next("sync-fail") {
		}
		if !next("sync-ok") || !next("completed") {
			return false
		}
	}
	for {
		if !next("getstate") {
			return false
		}
		if next("write-fail") {
			continue
		}
		break
	}
	return next("write-ok") && next("written") && i == len(ev)
}

// verifScenarioProcessBlockPut: one ProcessBlockPut (C07 L2/L3, C02 P5).
func verifScenarioProcessBlockPut() {
	r := verifNewSyncerRig()
	bl := r.x.bl
	vnd.Assume(!bl.closedForWriting)
	hasWork := len(bl.epochHashSeeds) > bl.synchronizedEpochs
	if !hasWork {
		// idle branch would block forever without a notification: give it one by creating an epoch
		vnd.Cover("idle-start")
		if len(bl.blocks) == 0 {
			return
		}
		bl.epochHashSeeds = append(bl.epochHashSeeds, vnd.U64())
		bl.epochLastAbsoluteBlockIndex = append(bl.epochLastAbsoluteBlockIndex, bl.totalBlocksReleased+len(bl.blocks)-1)
		bl.blocks[len(bl.blocks)-1].epochCount++
		bl.blockPutWakeup.unblock()
	} else {
		vnd.Cover("busy-start")
	}
	last := r.ps.lastSynchronizationTime
	E0 := len(bl.epochHashSeeds)
	ctx := verifCtx{done: make(chan struct{})}
	keep := r.ps.ProcessBlockPut(ctx)
	vnd.Assert(keep, "ProcessBlockPut asked to stop although no shutdown was requested")
	vnd.Assert(verifMatchCommitSequence(r.src.events, false), "commit did not follow: sync-start, data sync (retried), sync-completed, state export, state write (retried), state-written")
	vnd.Assert(r.logger.n == r.syncs-1+r.store.writes-1, "not every failure was logged exactly once")
	// progress
	vnd.Assert(bl.synchronizedEpochs >= E0-(E0-len(bl.epochHashSeeds)) && bl.synchronizedEpochs == len(bl.epochHashSeeds), "epochs that existed when the synchronisation started are not all synchronised afterwards")
	verifPBLInvariant(bl, "after ProcessBlockPut")
	// L3 minimum epoch interval
	vnd.Assert(len(r.clk.fired) >= 1, "no interval timer was armed")
	first := r.clk.fired[0]
	vnd.Assert(!first.Before(last.Add(r.minInterval)), "a synchronisation started earlier than the minimum epoch interval after the previous one")
	vnd.Assert(r.ps.lastSynchronizationTime.Equal(first), "time of the last synchronisation not updated from the timer")
	vnd.Observe("l2", uint64(r.syncs), uint64(r.store.writes))
}

// verifScenarioProcessBlockRelease: one ProcessBlockRelease (C07 L4, C04 R2).
func verifScenarioProcessBlockRelease() {
	r := verifNewSyncerRig()
	bl := r.x.bl
	if len(bl.blocksToRelease) == 0 {
		vnd.Cover("nothing-to-release")
		return
	}
	vnd.Assume(bl.blocksReleasing == 0)
	pending := len(bl.blocksToRelease)
	r.ps.ProcessBlockRelease()
	vnd.Cover("released")
	for _, d := range r.clk.timers {
		vnd.Assert(d == time.Second, "block release waited on a timer other than the error-retry timer")
	}
	vnd.Assert(len(r.clk.timers) == r.store.writes-1, "block release armed a timer without a preceding failure")
	for i := 0; i < pending; i++ {
		vnd.Assert(r.x.pend[i].releases == 1, "a block awaiting release was not released after the state write")
	}
	vnd.Assert(len(bl.blocksToRelease) == 0 && bl.blockReleaseWakeup.isBlocking, "release wake-up not disarmed although nothing awaits release")
	verifWrittenOnlyAfterSuccess(r.src.events)
	verifPBLInvariant(bl, "after ProcessBlockRelease")
}

// verifWrittenOnlyAfterSuccess: the list is told "the state has been written" (which makes
// released blocks reusable) only directly after a state write that SUCCEEDED, once per write.
func verifWrittenOnlyAfterSuccess(events []string) {
	for i, e := range events {
		if e == "written" {
			vnd.Assert(i > 0 && events[i-1] == "write-ok", "the block list was told that the state has been written although the last state write had not (just) succeeded: released blocks become reusable while the file on disk still lists them")
		}
	}
}
