//go:build verif

package local

import (
	"context"
	"strings"
	"sync"

	remoteexecution "github.com/bazelbuild/remote-apis/build/bazel/remote/execution/v2"
	vnd "github.com/buildbarn/bb-storage/internal/verifnd"
	"github.com/buildbarn/bb-storage/pkg/blobstore/buffer"
	"github.com/buildbarn/bb-storage/pkg/digest"

	"google.golang.org/grpc/codes"
	"google.golang.org/grpc/status"
)

// ---------------------------------------------------------------------------
// C10: visibility under hierarchical instance names = component-prefix closure
// of successful uploads. The real hierarchicalCASBlobAccess runs over a model
// index (a map) and a generation-based location map in which "rotate" turns all
// existing locations into old ones (so refresh and canonical-entry sync run).
// ---------------------------------------------------------------------------

type verifMapKLM struct {
	m map[Key]Location
}

func (k *verifMapKLM) Get(key Key) (Location, error) {
	if l, ok := k.m[key]; ok {
		return l, nil
	}
	return Location{}, status.Error(codes.NotFound, "verif: object not found")
}

func (k *verifMapKLM) Put(key Key, loc Location) error {
	if old, ok := k.m[key]; ok && !old.IsOlder(loc) {
		return nil // the real index keeps the newer entry
	}
	k.m[key] = loc
	return nil
}

type verifGenLBM struct {
	gen     int
	nextOff int64
	writes  int
}

func (m *verifGenLBM) Get(loc Location) (LocationBlobGetter, bool) {
	return func(d digest.Digest) buffer.Buffer {
		return buffer.NewValidatedBufferFromByteSlice(verifObjData)
	}, loc.BlockIndex < m.gen
}

func (m *verifGenLBM) Put(sizeBytes int64) (LocationBlobPutWriter, error) {
	return func(b buffer.Buffer) LocationBlobPutFinalizer {
		_, err := b.ToByteSlice(100)
		return func() (Location, error) {
			if err != nil {
				return Location{}, err
			}
			m.writes++
			m.nextOff += 10
			return Location{BlockIndex: m.gen, OffsetBytes: m.nextOff, SizeBytes: sizeBytes}, nil
		}
	}, nil
}

func verifNameDigest(name string) digest.Digest {
	g := digest.MustNewFunction(name, remoteexecution.DigestFunction_MD5).NewGenerator(2)
	g.Write(verifObjData)
	return g.Sum()
}

// verifComponentPrefix: u is a component-wise prefix of j (independent of the code under test).
func verifComponentPrefix(u, j string) bool {
	if u == "" {
		return true
	}
	return j == u || strings.HasPrefix(j, u+"/")
}

// Verif_C10_X1_Visibility: all histories of <= k operations over five instance
// names (including string- but not component-prefixes), then a visibility
// probe under every name.
//
// symgo: maxpaths=400000
func Verif_C10_X1_Visibility() {
	names := []string{"", "a", "a/b", "ab", "c"}
	klm := &verifMapKLM{m: map[Key]Location{}}
	lbm := &verifGenLBM{}
	lock := &sync.RWMutex{}
	ba := NewHierarchicalCASBlobAccess(klm, lbm, lock, nil)
	ctx := context.Background()
	uploaded := map[string]bool{}
	steps := 2
	if vnd.Thorough() {
		steps = 3
	}
	for s := 0; s < steps; s++ {
		op := vnd.Choose(5)
		if op == 4 {
			vnd.Cover("rotate")
			lbm.gen++
			continue
		}
		name := names[vnd.Choose(len(names))]
		d := verifNameDigest(name)
		switch op {
		case 0: // upload of the complete, valid content
			err := ba.Put(ctx, d, buffer.NewCASBufferFromByteSlice(d, verifObjData, buffer.UserProvided))
			vnd.Assert(err == nil, "valid upload failed on a working store")
			uploaded[name] = true
		case 1: // upload attempt with content that does not match the digest
			vnd.Cover("invalid-upload")
			err := ba.Put(ctx, d, buffer.NewCASBufferFromByteSlice(d, []byte("zz"), buffer.UserProvided))
			vnd.Assert(err != nil, "upload of mismatching content was acknowledged")
		case 2:
			ba.Get(ctx, d).Discard()
		case 3:
			ba.FindMissing(ctx, d.ToSingletonSet())
		}
	}
	// probe
	for _, j := range names {
		want := false
		for u := range uploaded {
			if verifComponentPrefix(u, j) {
				want = true
			}
		}
		d := verifNameDigest(j)
		data, err := ba.Get(ctx, d).ToByteSlice(100)
		missing, ferr := ba.FindMissing(ctx, d.ToSingletonSet())
		vnd.Assert(ferr == nil, "FindMissing failed on a working store")
		if want {
			vnd.Cover("visible")
			vnd.Assert(err == nil && string(data) == string(verifObjData), "object not readable under a name inside an uploader's subtree (no eviction happened)")
			vnd.Assert(missing.Empty(), "object reported missing under a name inside an uploader's subtree")
		} else {
			vnd.Cover("hidden")
			vnd.Assert(err != nil, "object readable under a name that no successful upload's instance name is a component-wise prefix of")
			vnd.Assert(status.Code(err) == codes.NotFound, "hidden object fails with a code other than NOT_FOUND")
			vnd.Assert(!missing.Empty(), "object reported present under a name outside every uploader's subtree")
		}
	}
	vnd.Observe("x1", uint64(len(uploaded)), uint64(lbm.writes))
}

// Access is granted only for complete, valid content, whatever fails along the way.
func Verif_C10_X0_PutOutcomes() { verifScenarioHierPut() }

// Refreshes and reads only ever write keys of the digest's own instance-name chain.
func Verif_C10_X0_GetOutcomes() { verifScenarioHierGet() }

// Existence checks refresh under the name that answered, never under a wider one.
func Verif_C10_X0_FindMissingOutcomes() { verifScenarioHierFindMissing() }

func Verif_C10_X0_FindMissingTwoObjects() { verifScenarioHierFindMissingTwo() }
