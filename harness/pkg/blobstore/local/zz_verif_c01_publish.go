//go:build verif

package local

// C01, clause "an upload that fails never becomes visible; reads return exactly
// the uploaded bytes": the access layers publish an index entry only for a
// finalizer that succeeded, under the object's own key, with the finalizer's
// location; a read that completes returns the object's bytes (W3).

func Verif_C01_W3_FlatPut() { verifScenarioFlatPut() }
func Verif_C01_W3_FlatGet() { verifScenarioFlatGet() }
func Verif_C01_W3_HierPut() { verifScenarioHierPut() }
func Verif_C01_W3_HierGet() { verifScenarioHierGet() }

// Verif_C01_W4_FlatComposite: a composite read returns exactly the designated slice,
// and the index entries it creates for the slices point at those slices of the
// parent - also when the block list rotates during the read's own refresh
// allocation or while the lock is released for slicing.
func Verif_C01_W4_FlatComposite() { verifScenarioFlatComposite() }
