//go:build verif

package local

// C01, clause "an upload that fails never becomes visible; reads return exactly
// the uploaded bytes": the access layers publish an index entry only for a
// finalizer that succeeded, under the object's own key, with the finalizer's
// location; a read that completes returns the object's bytes (W3).

func Verif_C01_W3_FlatPut() { verifScenarioFlatPut() }
func Verif_C01_W3_FlatGet() { verifScenarioFlatGet() }
func Verif_C01_W3_HierPut() { verifScenarioHierPut() }
func Verif_C01_W3_HierGet() { verifScenarioHierGet() }

// Verif_C01_W4_FlatComposite: a composite read returns exactly the designated slice,
// and the index entries it creates for the slices point at those slices of the
// parent - also when the block list rotates during the read's own refresh
// allocation or while the lock is released for slicing.
func Verif_C01_W4_FlatComposite() { verifScenarioFlatComposite() }

// Verif_C01_W5_FinalizerUnderRotation: an upload's target block is remembered
// by its ABSOLUTE number; whatever allocations (and hence rotations of the
// block list) happen during the unlocked copy phase, the finalizer either
// reports the very block the bytes went to - expressed relative to the list as
// it is NOW - or fails because that block has been released.
func Verif_C01_W5_FinalizerUnderRotation() { verifScenarioFinalizerUnderRotation() }

// W6: reads and existence checks while another request rotates the block list at any
// point the schedule allows: no relative block index is carried across a release of
// the lock (flat and hierarchical; all schedules with at most 2 preemptions).
func Verif_C01_W6_FlatGetUnderRotation()         { verifScenarioGetUnderRotation(false) }
func Verif_C01_W6_HierGetUnderRotation()         { verifScenarioGetUnderRotation(true) }
func Verif_C01_W6_FlatFindMissingUnderRotation() { verifScenarioFindMissingUnderRotation(false) }
func Verif_C01_W6_HierFindMissingUnderRotation() { verifScenarioFindMissingUnderRotation(true) }
