//go:build verif

package local

// C04, clause "every buffer handed to or obtained inside a storage operation is
// consumed or released exactly once on every path": flat store.

func Verif_C04_R3_FlatGet()         { verifScenarioFlatGet() }
func Verif_C04_R3_FlatPut()         { verifScenarioFlatPut() }
func Verif_C04_R3_FlatFindMissing() { verifScenarioFlatFindMissing() }

// composite read: also the child buffer that the slicer hands back (a stream-backed
// buffer over a close-counting source) is consumed or discarded exactly once, on every
// path - including a parent that vanishes from the index while it is being sliced.
func Verif_C04_R3_FlatComposite() { verifScenarioFlatComposite() }

// ... and hierarchical store.
func Verif_C04_R3_HierGet()         { verifScenarioHierGet() }
func Verif_C04_R3_HierPut()         { verifScenarioHierPut() }
func Verif_C04_R3_HierFindMissing() { verifScenarioHierFindMissing() }

// R2: block space is not handed out again before a state file that no longer lists
// the block has been written (deferred release), and is released exactly once after.
func Verif_C04_R2_DeferredRelease()        { verifScenarioDeferredRelease() }
func Verif_C04_R2_ReleaseAfterStateWrite() { verifScenarioProcessBlockRelease() }
