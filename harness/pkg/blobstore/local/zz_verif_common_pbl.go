//go:build verif

package local

import (
	vnd "github.com/buildbarn/bb-storage/internal/verifnd"
	"github.com/buildbarn/bb-storage/pkg/blobstore/buffer"
	"github.com/buildbarn/bb-storage/pkg/digest"
	pb "github.com/buildbarn/bb-storage/pkg/proto/blobstore/local"
)

// ---------------------------------------------------------------------------
// PersistentBlockList in an ARBITRARY valid state (representation invariant
// below), over stub blocks/allocator. Used by C02 (epoch fencing, export,
// restart), C03 (shutdown) and C07 (wake-up invariants).
// ---------------------------------------------------------------------------

type verifPBlock struct {
	id        int
	releases  int
	puts      int
	finalOff  int64
	finalFail bool
	discards  int
}

func (b *verifPBlock) Get(d digest.Digest, off, size int64, cb buffer.DataIntegrityCallback) buffer.Buffer {
	return buffer.NewBufferFromError(verifErrNoSpace)
}
func (b *verifPBlock) HasSpace(size int64) bool { return true }
func (b *verifPBlock) Put(size int64) BlockPutWriter {
	b.puts++
	return func(buf buffer.Buffer) BlockPutFinalizer {
		buf.Discard()
		b.discards++
		return func() (int64, error) {
			if b.finalFail {
				return 0, verifErrNoSpace
			}
			return b.finalOff, nil
		}
	}
}
func (b *verifPBlock) Release() { b.releases++ }

type verifPAllocator struct {
	next      int
	fail      bool
	refuseAt  int // NewBlockAtLocation refuses the block with this offset (restart lemma); -1 = none
	restored  []*verifPBlock
	restoredW []int64
	created   []*verifPBlock
}

func (a *verifPAllocator) NewBlock() (Block, *pb.BlockLocation, error) {
	if a.fail {
		return nil, nil, verifErrNoSpace
	}
	a.next++
	b := &verifPBlock{id: 1000 + a.next}
	a.created = append(a.created, b)
	return b, &pb.BlockLocation{OffsetBytes: int64(1000+a.next) * 100, SizeBytes: 100}, nil
}

func (a *verifPAllocator) NewBlockAtLocation(loc *pb.BlockLocation, writeOffsetBytes int64) (Block, bool) {
	if loc == nil || int(loc.OffsetBytes/100) == a.refuseAt {
		return nil, false
	}
	b := &verifPBlock{id: int(loc.OffsetBytes / 100)}
	a.restored = append(a.restored, b)
	a.restoredW = append(a.restoredW, writeOffsetBytes)
	return b, true
}

type verifPBL struct {
	bl     *PersistentBlockList
	alloc  *verifPAllocator
	blocks []*verifPBlock // stub blocks currently in the list
	pend   []*verifPBlock // stub blocks waiting for release
}

func verifChan(blocking bool) notificationChannel {
	nc := newNotificationChannel()
	if !blocking {
		nc.unblock()
	}
	return nc
}

// verifNewPBL builds an arbitrary list satisfying the representation invariant.
func verifNewPBL(maxBlocks, maxEpochsPerBlock, maxPending int) *verifPBL {
	x := &verifPBL{alloc: &verifPAllocator{refuseAt: -1}}
	nb := vnd.Choose(maxBlocks + 1)
	released := vnd.Int(0, 1000)
	bl := &PersistentBlockList{blockAllocator: x.alloc, totalBlocksReleased: released}
	bl.oldestEpochID = vnd.U32()
	vnd.Assume(bl.oldestEpochID < 1<<31)
	for j := 0; j < nb; j++ {
		sb := &verifPBlock{id: j}
		x.blocks = append(x.blocks, sb)
		ec := vnd.Choose(maxEpochsPerBlock + 1)
		w, s1, s2 := int64(vnd.Int(0, 1<<40)), int64(vnd.Int(0, 1<<40)), int64(vnd.Int(0, 1<<40))
		vnd.Assume(s2 <= s1)
		vnd.Assume(s1 <= w)
		bl.blocks = append(bl.blocks, persistentBlockInfo{
			block:                    sb,
			blockLocation:            &pb.BlockLocation{OffsetBytes: int64(j) * 100, SizeBytes: 100},
			writtenOffsetBytes:       w,
			synchronizingOffsetBytes: s1,
			synchronizedOffsetBytes:  s2,
			epochCount:               ec,
		})
		for e := 0; e < ec; e++ {
			bl.epochHashSeeds = append(bl.epochHashSeeds, vnd.U64())
			bl.epochLastAbsoluteBlockIndex = append(bl.epochLastAbsoluteBlockIndex, released+j)
		}
	}
	E := len(bl.epochHashSeeds)
	bl.synchronizingEpochs = vnd.Choose(E + 1)
	bl.synchronizedEpochs = vnd.Choose(bl.synchronizingEpochs + 1)
	bl.closedForWriting = vnd.Choose(2) == 1
	np := vnd.Choose(maxPending + 1)
	for i := 0; i < np; i++ {
		sb := &verifPBlock{id: 100 + i}
		x.pend = append(x.pend, sb)
		bl.blocksToRelease = append(bl.blocksToRelease, sb)
	}
	bl.blocksReleasing = vnd.Choose(np + 1)
	bl.blockPutWakeup = verifChan(bl.synchronizedEpochs == E)
	bl.blockReleaseWakeup = verifChan(np == 0)
	x.bl = bl
	return x
}

func verifChanClosed(c chan struct{}) bool {
	select {
	case _, ok := <-c:
		return !ok
	default:
		return false
	}
}

// verifPBLInvariant asserts the representation invariant conjunct by conjunct.
func verifPBLInvariant(bl *PersistentBlockList, what string) {
	E := len(bl.epochHashSeeds)
	vnd.Assert(len(bl.epochLastAbsoluteBlockIndex) == E, what+": epoch seed and epoch block tables differ in length")
	sum := 0
	for j := range bl.blocks {
		b := &bl.blocks[j]
		vnd.Assert(b.epochCount >= 0, what+": negative epoch count")
		for e := 0; e < b.epochCount && sum+e < E; e++ {
			vnd.Assert(bl.epochLastAbsoluteBlockIndex[sum+e] == bl.totalBlocksReleased+j, what+": an epoch is not attributed to the block that counts it")
		}
		sum += b.epochCount
		vnd.Assert(b.synchronizedOffsetBytes <= b.synchronizingOffsetBytes, what+": synchronized offset exceeds synchronizing offset")
		vnd.Assert(b.synchronizingOffsetBytes <= b.writtenOffsetBytes, what+": synchronizing offset exceeds written offset")
		vnd.Assert(b.block != nil, what+": listed block without block object")
	}
	vnd.Assert(sum == E, what+": epoch counts of the blocks do not add up to the number of epochs")
	vnd.Assert(bl.synchronizedEpochs >= 0 && bl.synchronizedEpochs <= bl.synchronizingEpochs, what+": synchronized epochs exceed synchronizing epochs")
	vnd.Assert(bl.synchronizingEpochs <= E, what+": synchronizing epochs exceed the number of epochs")
	vnd.Assert(bl.blocksReleasing >= 0 && bl.blocksReleasing <= len(bl.blocksToRelease), what+": more blocks releasing than pending")
	// wake-up machinery (C07): channel closed <=> not blocking <=> work exists
	vnd.Assert(bl.blockPutWakeup.isBlocking == (bl.synchronizedEpochs == E), what+": put wake-up flag does not reflect 'unsynchronised epochs exist'")
	vnd.Assert(verifChanClosed(bl.blockPutWakeup.channel) == !bl.blockPutWakeup.isBlocking, what+": put wake-up channel state differs from its flag")
	vnd.Assert(bl.blockReleaseWakeup.isBlocking == (len(bl.blocksToRelease) == 0), what+": release wake-up flag does not reflect 'blocks await release'")
	vnd.Assert(verifChanClosed(bl.blockReleaseWakeup.channel) == !bl.blockReleaseWakeup.isBlocking, what+": release wake-up channel state differs from its flag")
}

func verifPBLBounds() (int, int, int) {
	if vnd.Thorough() {
		return 2, 2, 2 // three blocks take more than half an hour per property
	}
	return 2, 2, 1
}

// verifScenarioPBLMethod: one method from an arbitrary valid state (shared by C02 P1 and C07 L1).
func verifScenarioPBLMethod() {
	mb, me, mp := verifPBLBounds()
	x := verifNewPBL(mb, me, mp)
	bl := x.bl
	verifPBLInvariant(bl, "generated state")
	// A syncer loop may be asleep on either wake-up channel: an operation that leaves a
	// channel blocking must leave it the SAME channel (a fresh one would never wake the sleeper).
	putCh, putBlocking := bl.blockPutWakeup.channel, bl.blockPutWakeup.isBlocking
	relCh, relBlocking := bl.blockReleaseWakeup.channel, bl.blockReleaseWakeup.isBlocking
	closedBefore := bl.closedForWriting
	defer func() {
		if putBlocking && bl.blockPutWakeup.isBlocking {
			vnd.Assert(bl.blockPutWakeup.channel == putCh, "a put wake-up channel that somebody may be sleeping on was replaced although it stayed blocking")
		}
		if relBlocking && bl.blockReleaseWakeup.isBlocking {
			vnd.Assert(bl.blockReleaseWakeup.channel == relCh, "a release wake-up channel that somebody may be sleeping on was replaced although it stayed blocking")
		}
	}()
	switch vnd.Choose(6) {
	case 0:
		if len(bl.blocks) == 0 {
			return
		}
		vnd.Cover("popfront")
		bl.PopFront()
	case 1:
		vnd.Cover("pushback")
		x.alloc.fail = vnd.Choose(2) == 1
		bl.PushBack()
	case 2:
		vnd.Cover("syncstarting")
		final := vnd.Choose(2) == 1
		bl.NotifySyncStarting(final)
		// the sync that starts now covers EVERYTHING written so far - also the final one
		vnd.Assert(bl.synchronizingEpochs == len(bl.epochHashSeeds), "a data sync was started without marking all existing epochs as being synchronized")
		for j := range bl.blocks {
			vnd.Assert(bl.blocks[j].synchronizingOffsetBytes == bl.blocks[j].writtenOffsetBytes, "a data sync was started without recording how much of a block had been written")
		}
		vnd.Assert(bl.closedForWriting == (closedBefore || final), "closed-for-writing flag not 'was closed or the final sync started'")
	case 3:
		vnd.Cover("synccompleted")
		bl.NotifySyncCompleted()
	case 4:
		vnd.Cover("getstate")
		bl.GetPersistentState()
	case 5:
		vnd.Cover("statewritten")
		bl.NotifyPersistentStateWritten()
	}
	verifPBLInvariant(bl, "after the operation")
}

// verifScenarioPBLFinalizer: an upload finalizer with rotation and sync notifications in between (C02 P2, C07 L1b).
func verifScenarioPBLFinalizer() {
	mb, me, mp := verifPBLBounds()
	if !vnd.Thorough() {
		me = 1 // quick: at most one epoch per block here; the per-method lemma covers two
	}
	x := verifNewPBL(mb, me, mp)
	bl := x.bl
	if len(bl.blocks) == 0 {
		vnd.Cover("empty")
		return
	}
	idx := vnd.Choose(len(bl.blocks))
	sb := x.blocks[idx]
	size := int64(vnd.Int(0, 1<<30))
	sb.finalOff = int64(vnd.Int(0, 1<<30))
	sb.finalFail = vnd.Choose(2) == 1
	abs := bl.totalBlocksReleased + idx
	w := bl.Put(idx, size)
	// between allocation and finalisation: pops, a sync start, a sync completion
	pops := vnd.Choose(len(bl.blocks) + 1)
	for i := 0; i < pops; i++ {
		bl.PopFront()
	}
	if vnd.Choose(2) == 1 {
		bl.NotifySyncStarting(false)
		if vnd.Choose(2) == 1 {
			bl.NotifySyncCompleted()
		}
	}
	syncingBefore := bl.synchronizingEpochs
	src := &verifSource{data: verifObjData}
	fin := w(buffer.NewCASBufferFromReader(verifObjDigest, src, buffer.UserProvided))
	off, err := fin()
	verifPBLInvariant(bl, "after a finalizer")
	vnd.Assert(src.closes == 1, "upload buffer not consumed or released exactly once")
	if err == nil {
		vnd.Cover("finalized")
		vnd.Assert(!sb.finalFail, "finalizer succeeded although the block's own finalizer failed")
		vnd.Assert(abs >= bl.totalBlocksReleased, "finalizer succeeded although the target block has been released")
		vnd.Assert(off == sb.finalOff, "finalizer does not return the offset reported by the block")
		E := len(bl.epochHashSeeds)
		vnd.Assert(E > syncingBefore, "the blob's epoch is part of a synchronisation that had already started")
		vnd.Assert(E > bl.synchronizingEpochs, "the blob's epoch is marked as synchronizing")
		vnd.Assert(bl.epochLastAbsoluteBlockIndex[E-1] >= abs, "the newest epoch does not reach the blob's block")
		bi := &bl.blocks[abs-bl.totalBlocksReleased]
		vnd.Assert(bi.writtenOffsetBytes >= off+size, "written offset of the block does not cover the blob")
		// the reference handed to the index resolves back to this very block
		ref, _ := bl.BlockIndexToBlockReference(abs - bl.totalBlocksReleased)
		ri, _, ok := bl.BlockReferenceToBlockIndex(ref)
		vnd.Assert(ok && ri == abs-bl.totalBlocksReleased, "the reference for the blob's block does not resolve back to it")
		vnd.Assert(!bl.blockPutWakeup.isBlocking, "an acknowledged upload left the put wake-up blocked (no synchronisation would follow)")
	} else {
		vnd.Cover("rejected")
		if !sb.finalFail && !bl.closedForWriting {
			vnd.Assert(abs < bl.totalBlocksReleased, "finalizer failed without a reason")
		}
	}
}

// verifScenarioDeferredRelease (C02 P7, C04 R2).
func verifScenarioDeferredRelease() {
	mb, me, mp := verifPBLBounds()
	x := verifNewPBL(mb, me, mp)
	bl := x.bl
	vnd.Assume(bl.blocksReleasing == 0)
	pending0 := len(bl.blocksToRelease)
	bl.GetPersistentState()
	popped := 0
	if len(bl.blocks) > 0 && vnd.Choose(2) == 1 {
		vnd.Cover("popped-after-export")
		bl.PopFront()
		popped = 1
	}
	for _, b := range x.pend {
		vnd.Assert(b.releases == 0, "a block was released before the state file was written")
	}
	bl.NotifyPersistentStateWritten()
	for i, b := range x.pend {
		if i < pending0 {
			vnd.Assert(b.releases == 1, "a block listed for release when the state was exported was not released exactly once")
		}
	}
	if popped == 1 {
		vnd.Assert(x.blocks[0].releases == 0, "a block popped after the state was exported was released by that state write")
		vnd.Assert(len(bl.blocksToRelease) == 1, "the block popped after the export is no longer pending")
		vnd.Assert(!bl.blockReleaseWakeup.isBlocking, "release wake-up blocked although a block still awaits release")
	}
	verifPBLInvariant(bl, "after the state write")
	vnd.Cover("released")
}

// verifScenarioRestartRoundTrip (C02 P3, C03 S5).
func verifScenarioRestartRoundTrip() {
	mb, me, mp := verifPBLBounds()
	x := verifNewPBL(mb, me, mp)
	bl := x.bl
	oldest, blocks := bl.GetPersistentState()
	exportedEpochs := 0
	for _, bs := range blocks {
		exportedEpochs += len(bs.EpochHashSeeds)
	}
	// The exported state is EXACTLY the synchronized part of the list: block j of the export
	// is block j of the list with its synchronized write offset, carrying those of the epochs
	// created while it was the last block that have been synchronized - no epoch whose data
	// sync has merely started, none left out, no trailing block without epochs.
	vnd.Assert(exportedEpochs == bl.synchronizedEpochs, "the exported state does not carry exactly the synchronized epochs (an epoch that is still synchronizing leaked, or a synchronized one is missing)")
	vnd.Assert(len(blocks) <= len(bl.blocks), "more blocks exported than the list holds")
	first := 0
	for j, bs := range blocks {
		if j >= len(bl.blocks) {
			break
		}
		vnd.Assert(bs.BlockLocation == bl.blocks[j].blockLocation, "exported block j is not block j of the list")
		vnd.Assert(bs.WriteOffsetBytes == bl.blocks[j].synchronizedOffsetBytes, "exported write offset is not the block's synchronized offset")
		want := bl.blocks[j].epochCount
		if first+want > bl.synchronizedEpochs {
			want = bl.synchronizedEpochs - first
		}
		vnd.Assert(len(bs.EpochHashSeeds) == want, "exported block does not carry exactly its own synchronized epochs")
		for e := 0; e < len(bs.EpochHashSeeds) && first+e < len(bl.epochHashSeeds); e++ {
			vnd.Assert(bs.EpochHashSeeds[e] == bl.epochHashSeeds[first+e], "exported epoch hash seed differs from the list's")
		}
		first += bl.blocks[j].epochCount
	}
	if n := len(blocks); n > 0 {
		vnd.Assert(len(blocks[n-1].EpochHashSeeds) > 0, "a trailing block without synchronized epochs was exported")
	}
	vnd.Assert(bl.blocksReleasing == len(bl.blocksToRelease), "exporting the state did not mark the pending blocks as releasable by the corresponding state write")
	alloc2 := &verifPAllocator{refuseAt: -1}
	if len(blocks) > 0 && vnd.Choose(2) == 1 {
		vnd.Cover("location-refused")
		alloc2.refuseAt = vnd.Choose(len(blocks))
	}
	bl2, n2 := NewPersistentBlockList(alloc2, oldest, blocks)
	verifPBLInvariant(bl2, "restored list")
	if alloc2.refuseAt < 0 {
		vnd.Assert(n2 == len(blocks), "not all exported blocks were restored")
	} else {
		vnd.Assert(n2 == alloc2.refuseAt, "restore did not stop at the first block the allocator refused")
	}
	for j := 0; j < n2; j++ {
		vnd.Assert(alloc2.restoredW[j] == blocks[j].WriteOffsetBytes, "restored write offset differs from the exported one")
		vnd.Assert(alloc2.restored[j].id == j, "restored block is not the exported block")
	}
	// every (epoch, blocksFromLast) pair within the bound
	E := len(bl.epochHashSeeds)
	for e := 0; e < E+1; e++ {
		for bfl := 0; bfl <= len(bl.blocks); bfl++ {
			ref := BlockReference{EpochID: bl.oldestEpochID + uint32(e), BlocksFromLast: uint16(bfl)}
			i1, s1, ok1 := bl.BlockReferenceToBlockIndex(ref)
			i2, s2, ok2 := bl2.BlockReferenceToBlockIndex(ref)
			if ok2 {
				vnd.Cover("resolves-after-restart")
				vnd.Assert(e < exportedEpochs, "a reference of an epoch that was not exported resolves after restart")
				vnd.Assert(ok1, "a reference resolves after restart that did not resolve before")
				if ok1 {
					vnd.Assert(alloc2.restored[i2].id == x.blocks[i1].id, "a reference resolves to a different physical block after restart")
					vnd.Assert(s1 == s2, "epoch hash seed changed across restart")
				}
			} else if ok1 && e < exportedEpochs && (alloc2.refuseAt < 0 || i1 < alloc2.refuseAt) {
				// the whole epoch must survive only if none of its blocks was refused
				last := bl.epochLastAbsoluteBlockIndex[e] - bl.totalBlocksReleased
				if alloc2.refuseAt < 0 || last < alloc2.refuseAt {
					vnd.Assert(false, "a reference of an exported epoch into a restored block no longer resolves after restart")
				}
			}
		}
	}
	var _ *pb.BlockState
}
