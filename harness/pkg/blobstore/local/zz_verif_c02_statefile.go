//go:build verif

package local

import (
	vnd "github.com/buildbarn/bb-storage/internal/verifnd"
	pb "github.com/buildbarn/bb-storage/pkg/proto/blobstore/local"
)

// Verif_C02_P6_AtomicStateFile: the state file is replaced atomically: the
// success path is exactly remove(state.new)? create-exclusive, write, fsync,
// close, rename(state.new -> state), fsync(directory); the rename is never
// issued unless write, fsync and close all succeeded; any failing step makes
// WritePersistentState return an error; the file is closed on every path.
func Verif_C02_P6_AtomicStateFile() {
	d := &verifStateDir{failAt: vnd.Choose(9), removeKind: vnd.Choose(2)}
	store := NewDirectoryBackedPersistentStateStore(d)
	state := &pb.PersistentState{
		OldestEpochId:                    7,
		KeyLocationMapHashInitialization: 99,
		Blocks: []*pb.BlockState{{
			BlockLocation:    &pb.BlockLocation{OffsetBytes: 4096, SizeBytes: 8192},
			WriteOffsetBytes: 123,
			EpochHashSeeds:   []uint64{5, 6},
		}},
	}
	err := store.WritePersistentState(state)
	want := []string{"remove", "open", "write", "fsync", "close", "rename", "dirsync"}
	failed := d.failAt != 0 && d.failAt <= d.ops
	if !failed {
		vnd.Cover("written")
		vnd.Assert(err == nil, "state write failed although every file operation succeeded")
		vnd.Assert(len(d.log) == len(want), "successful state write is not exactly remove, create, write, fsync, close, rename, directory fsync")
		for i := range want {
			if i < len(d.log) {
				vnd.Assert(d.log[i] == want[i], "state file operations are out of order (e.g. rename before fsync)")
			}
		}
		vnd.Assert(len(d.written) > 0, "nothing was written to the temporary file")
	} else {
		vnd.Cover("step-failed")
		vnd.Assert(err != nil, "a failing file operation did not make the state write fail")
		// operations after the failing one must not be issued (in particular no rename after a failed write/fsync/close)
		vnd.Assert(d.ops == d.failAt || (d.log[d.failAt-1] != "close" && d.ops == d.failAt+1 && d.log[d.ops-1] == "close"), "operations continued after a failing step (other than closing the file)")
		for i, op := range d.log {
			if op == "rename" {
				vnd.Assert(i == 5, "rename issued before write, fsync and close all succeeded")
			}
		}
	}
	vnd.Assert(d.fileClosed == d.fileOpen, "temporary state file not closed exactly once on every path")
	vnd.Observe("p6", uint64(d.ops), uint64(len(d.written)))
}

// Verif_C02_P6b_StateFileRoundTrip: see verifScenarioStateFileRoundTrip.
func Verif_C02_P6b_StateFileRoundTrip() { verifScenarioStateFileRoundTrip() }
