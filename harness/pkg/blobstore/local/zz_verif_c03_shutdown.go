//go:build verif

package local

import (
	vnd "github.com/buildbarn/bb-storage/internal/verifnd"
	"github.com/buildbarn/bb-storage/pkg/blobstore/buffer"

	"google.golang.org/grpc/codes"
	"google.golang.org/grpc/status"
)

// Verif_C03_S1_ClosedForWriting: once the final synchronisation has begun,
// PushBack, new uploads and finalizers of uploads that were already in flight
// all fail with UNAVAILABLE (nothing is acknowledged and lost), from an
// arbitrary valid state; the upload's buffer is still released.
func Verif_C03_S1_ClosedForWriting() {
	mb, me, mp := verifPBLBounds()
	x := verifNewPBL(mb, me, mp)
	bl := x.bl
	vnd.Assume(!bl.closedForWriting)
	var inflight BlockListPutWriter
	if len(bl.blocks) > 0 && vnd.Choose(2) == 1 {
		vnd.Cover("upload-in-flight")
		inflight = bl.Put(vnd.Choose(len(bl.blocks)), int64(vnd.Int(0, 1<<20)))
	}
	bl.NotifySyncStarting(true)
	vnd.Assert(bl.closedForWriting, "final synchronisation did not close the list for writing")
	err := bl.PushBack()
	vnd.Assert(status.Code(err) == codes.Unavailable, "PushBack after the final synchronisation began did not fail with UNAVAILABLE")
	if inflight != nil {
		src := &verifSource{data: verifObjData}
		_, ferr := inflight(buffer.NewCASBufferFromReader(verifObjDigest, src, buffer.UserProvided))()
		vnd.Assert(status.Code(ferr) == codes.Unavailable, "an upload in flight when the final synchronisation began was acknowledged or failed with another code")
		vnd.Assert(src.closes == 1, "in-flight upload's buffer not released exactly once")
	}
	if len(bl.blocks) > 0 {
		vnd.Cover("late-upload")
		src := &verifSource{data: verifObjData}
		_, ferr := bl.Put(vnd.Choose(len(bl.blocks)), int64(vnd.Int(0, 1<<20)))(buffer.NewCASBufferFromReader(verifObjDigest, src, buffer.UserProvided))()
		vnd.Assert(status.Code(ferr) == codes.Unavailable, "an upload started after the final synchronisation began was not refused with UNAVAILABLE")
		vnd.Assert(src.closes == 1, "refused upload's buffer not released exactly once")
	}
	E := len(bl.epochHashSeeds)
	bl.NotifySyncCompleted()
	vnd.Assert(bl.synchronizedEpochs == E, "final synchronisation does not cover all epochs")
	verifPBLInvariant(bl, "after the final synchronisation")
}

// Verif_C03_S2_ShutdownBranch: ProcessBlockPut with the context cancelled
// performs a regular and then a FINAL synchronisation followed by a state
// write and reports that the loop must stop.
func Verif_C03_S2_ShutdownBranch() {
	r := verifNewSyncerRig()
	bl := r.x.bl
	vnd.Assume(!bl.closedForWriting)
	ctx := verifCtx{done: make(chan struct{})}
	close(ctx.done)
	keep := r.ps.ProcessBlockPut(ctx)
	if keep {
		// the interval timer and the cancellation were both ready and select picked the timer:
		// a regular commit, shutdown is honoured by a later iteration
		vnd.Cover("timer-won-the-race")
		vnd.Assert(verifMatchCommitSequence(r.src.events, false), "regular iteration did not run: sync, state write")
		vnd.Assert(!bl.closedForWriting, "list closed for writing although the loop continues")
		return
	}
	vnd.Assert(verifMatchCommitSequence(r.src.events, true), "shutdown did not run: sync, FINAL sync, state write")
	vnd.Assert(bl.closedForWriting, "list not closed for writing after shutdown")
	vnd.Assert(bl.synchronizedEpochs == len(bl.epochHashSeeds), "epochs left unsynchronised by the final synchronisation")
	vnd.Assert(r.store.lastState != nil, "no state written on shutdown")
	total := 0
	for _, b := range r.store.lastState.Blocks {
		total += len(b.EpochHashSeeds)
	}
	vnd.Assert(total == len(bl.epochHashSeeds), "state written on shutdown does not contain all epochs")
	vnd.Cover("shutdown")
}

// Verif_C03_S3_AcknowledgedIsCommitted: an upload whose finalizer succeeded
// before a synchronisation starts is inside the state exported after that
// synchronisation completed: its epoch is exported and the exported write
// offset of its block covers it.
func Verif_C03_S3_AcknowledgedIsCommitted() {
	mb, me, mp := verifPBLBounds()
	x := verifNewPBL(mb, me, mp)
	bl := x.bl
	vnd.Assume(!bl.closedForWriting)
	if len(bl.blocks) == 0 {
		vnd.Cover("empty")
		return
	}
	idx := vnd.Choose(len(bl.blocks))
	size := int64(vnd.Int(0, 1<<30))
	x.blocks[idx].finalOff = int64(vnd.Int(0, 1<<30))
	off, err := bl.Put(idx, size)(buffer.NewValidatedBufferFromByteSlice(nil))()
	vnd.Assert(err == nil, "upload into a live block failed")
	ref, _ := bl.BlockIndexToBlockReference(idx)
	epochIndex := int(ref.EpochID - bl.oldestEpochID)
	// a commit that runs to completion
	bl.NotifySyncStarting(vnd.Choose(2) == 1)
	bl.NotifySyncCompleted()
	_, blocks := bl.GetPersistentState()
	total := 0
	for _, b := range blocks {
		total += len(b.EpochHashSeeds)
	}
	vnd.Assert(epochIndex < total, "the acknowledged upload's epoch is missing from the state exported by the next completed commit")
	vnd.Assert(idx < len(blocks), "the acknowledged upload's block is missing from the exported state")
	if idx < len(blocks) {
		vnd.Assert(blocks[idx].WriteOffsetBytes >= off+size, "exported write offset does not cover the acknowledged upload")
	}
	vnd.Cover("committed")
}

// Verif_C03_S4_RestartLayout: the location map constructor re-admits every
// restored block: old+current+new equals the restored count and nothing is
// scheduled for release, for every geometry in which the restored blocks fit.
func Verif_C03_S4_RestartLayout() {
	O, C, N := vnd.Choose(4), vnd.Choose(4), 1+vnd.Choose(3)
	var policy BlockListGrowthPolicy
	if vnd.Choose(2) == 1 {
		// the mutable policy is only ever configured with exactly one new block
		// (protoBlobAccessCreator.NewBlockListGrowthPolicy rejects anything else)
		N = 1
		policy = NewMutableBlockListGrowthPolicy(C)
	} else {
		policy = NewImmutableBlockListGrowthPolicy(C, N)
	}
	n := vnd.Choose(O + C + N + 1)
	bl := &verifBlockList{blockSize: 64}
	for i := 0; i < n; i++ {
		bl.space = append(bl.space, 0)
	}
	lbm := NewOldCurrentNewLocationBlobMap(bl, policy, &verifErrorLogger{}, "verif", 64, O, N, n)
	vnd.Assert(len(lbm.oldBlocks)+lbm.currentBlocks+lbm.newBlocks == n, "constructor does not partition exactly the restored blocks")
	vnd.Assert(lbm.totalBlocksToBeReleased.Load() == 0, "restored blocks that fit the configured geometry are scheduled for release")
	vnd.Assert(len(lbm.oldBlocks) <= O, "more old blocks than configured although the restored blocks fit")
	// every restored block resolves
	for i := 0; i < n; i++ {
		_, _, ok := lbm.BlockReferenceToBlockIndex(BlockReference{EpochID: uint32(i)})
		vnd.Assert(ok, "a restored block does not resolve after restart")
	}
	vnd.Cover("restored")
}

// Verif_C03_S5_RestartRoundTrip: what was exported by a completed commit resolves to the
// same blocks, seeds and write offsets after the list is rebuilt from the state file.
func Verif_C03_S5_RestartRoundTrip() { verifScenarioRestartRoundTrip() }

// Verif_C03_S6_StateFileRoundTrip: the state a graceful shutdown leaves behind is read
// back completely by the next start, also when it is large (thousands of epochs).
func Verif_C03_S6_StateFileRoundTrip() { verifScenarioStateFileRoundTrip() }

// Verif_C03_S7_EpochBookkeeping: what makes an acknowledged upload part of a committed
// epoch is the put finalizer's epoch bookkeeping in the persistent block list (the epoch is
// counted by the LAST block, is not part of a sync already under way, covers the blob's
// block): the state file a shutdown writes is derived from exactly these counters.
func Verif_C03_S7_EpochBookkeeping() { verifScenarioPBLFinalizer() }
