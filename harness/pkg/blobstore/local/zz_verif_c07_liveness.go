//go:build verif

package local

import (
	"time"

	vnd "github.com/buildbarn/bb-storage/internal/verifnd"
)

// Verif_C07_L1_WakeupInvariants: every PersistentBlockList method (and a
// finalizer) preserves: unsynchronised epochs exist <=> put wake-up channel is
// closed; blocks await release <=> release wake-up channel is closed; no path
// closes a closed channel (that would be a Go panic, reported by the engine).
func Verif_C07_L1_WakeupInvariants() { verifScenarioPBLMethod() }

// Verif_C07_L1b_FinalizerWakeup: same for upload finalizers (see C02 P2).
func Verif_C07_L1b_FinalizerWakeup() { verifScenarioPBLFinalizer() }

// Verif_C07_L2_ProcessBlockPut: one ProcessBlockPut from a state with
// unsynchronised epochs: it performs the whole commit sequence, retrying failed
// syncs / state writes until they succeed; afterwards either no unsynchronised
// epoch is left or the put wake-up is armed again. Timer arithmetic (L3): the
// next synchronisation starts no earlier than the previous one plus the
// minimum epoch interval, on the busy and on the idle branch.
func Verif_C07_L2_ProcessBlockPut() {
	r := verifNewSyncerRig()
	bl := r.x.bl
	vnd.Assume(!bl.closedForWriting)
	hasWork := len(bl.epochHashSeeds) > bl.synchronizedEpochs
	if !hasWork {
		// idle branch would block forever without a notification: give it one by creating an epoch
		vnd.Cover("idle-start")
		if len(bl.blocks) == 0 {
			return
		}
		bl.epochHashSeeds = append(bl.epochHashSeeds, vnd.U64())
		bl.epochLastAbsoluteBlockIndex = append(bl.epochLastAbsoluteBlockIndex, bl.totalBlocksReleased+len(bl.blocks)-1)
		bl.blocks[len(bl.blocks)-1].epochCount++
		bl.blockPutWakeup.unblock()
	} else {
		vnd.Cover("busy-start")
	}
	last := r.ps.lastSynchronizationTime
	E0 := len(bl.epochHashSeeds)
	ctx := verifCtx{done: make(chan struct{})}
	keep := r.ps.ProcessBlockPut(ctx)
	vnd.Assert(keep, "ProcessBlockPut asked to stop although no shutdown was requested")
	vnd.Assert(verifMatchCommitSequence(r.src.events, false), "commit did not follow: sync-start, data sync (retried), sync-completed, state export, state write (retried), state-written")
	vnd.Assert(r.logger.n == r.syncs-1+r.store.writes-1, "not every failure was logged exactly once")
	// progress
	vnd.Assert(bl.synchronizedEpochs >= E0-(E0-len(bl.epochHashSeeds)) && bl.synchronizedEpochs == len(bl.epochHashSeeds), "epochs that existed when the synchronisation started are not all synchronised afterwards")
	verifPBLInvariant(bl, "after ProcessBlockPut")
	// L3 minimum epoch interval
	vnd.Assert(len(r.clk.fired) >= 1, "no interval timer was armed")
	first := r.clk.fired[0]
	vnd.Assert(!first.Before(last.Add(r.minInterval)), "a synchronisation started earlier than the minimum epoch interval after the previous one")
	vnd.Assert(r.ps.lastSynchronizationTime.Equal(first), "time of the last synchronisation not updated from the timer")
	vnd.Observe("l2", uint64(r.syncs), uint64(r.store.writes))
}

// Verif_C07_L4_ProcessBlockRelease: with blocks awaiting release the state is
// rewritten WITHOUT consulting the interval timer (only retry timers after
// failures), and the blocks that were pending are released.
func Verif_C07_L4_ProcessBlockRelease() {
	r := verifNewSyncerRig()
	bl := r.x.bl
	if len(bl.blocksToRelease) == 0 {
		vnd.Cover("nothing-to-release")
		return
	}
	vnd.Assume(bl.blocksReleasing == 0)
	pending := len(bl.blocksToRelease)
	r.ps.ProcessBlockRelease()
	vnd.Cover("released")
	for _, d := range r.clk.timers {
		vnd.Assert(d == time.Second, "block release waited on a timer other than the error-retry timer")
	}
	vnd.Assert(len(r.clk.timers) == r.store.writes-1, "block release armed a timer without a preceding failure")
	for i := 0; i < pending; i++ {
		vnd.Assert(r.x.pend[i].releases == 1, "a block awaiting release was not released after the state write")
	}
	vnd.Assert(len(bl.blocksToRelease) == 0 && bl.blockReleaseWakeup.isBlocking, "release wake-up not disarmed although nothing awaits release")
	verifPBLInvariant(bl, "after ProcessBlockRelease")
}
