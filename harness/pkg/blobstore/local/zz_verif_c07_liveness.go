//go:build verif

package local

// Verif_C07_L1_WakeupInvariants: every PersistentBlockList method (and a
// finalizer) preserves: unsynchronised epochs exist <=> put wake-up channel is
// closed; blocks await release <=> release wake-up channel is closed; no path
// closes a closed channel (that would be a Go panic, reported by the engine).
func Verif_C07_L1_WakeupInvariants() { verifScenarioPBLMethod() }

// Verif_C07_L1b_FinalizerWakeup: same for upload finalizers (see C02 P2).
func Verif_C07_L1b_FinalizerWakeup() { verifScenarioPBLFinalizer() }

// Verif_C07_L2_ProcessBlockPut: one ProcessBlockPut from a state with
// unsynchronised epochs: it performs the whole commit sequence, retrying failed
// syncs / state writes until they succeed; afterwards either no unsynchronised
// epoch is left or the put wake-up is armed again. Timer arithmetic (L3): the
// next synchronisation starts no earlier than the previous one plus the
// minimum epoch interval, on the busy and on the idle branch.
func Verif_C07_L2_ProcessBlockPut() { verifScenarioProcessBlockPut() }

// Verif_C07_L4_ProcessBlockRelease: with blocks awaiting release the state is
// rewritten WITHOUT consulting the interval timer (only retry timers after
// failures), and the blocks that were pending are released.
func Verif_C07_L4_ProcessBlockRelease() { verifScenarioProcessBlockRelease() }
