//go:build verif

package local

import (
	vnd "github.com/buildbarn/bb-storage/internal/verifnd"
)

// ---------------------------------------------------------------------------
// C01 W1/W2: the block allocators put every byte of every object at its own
// offset, for all sizes, chunkings and adjacent objects sharing a sector.
// ---------------------------------------------------------------------------

// verifAdjacentObjects allocates k objects in one block with the real Put,
// writes them in a harness-chosen order and checks placement byte by byte.
func verifAdjacentObjects(block Block, k, maxSize, maxCuts int, image func() []byte, base int, dev *verifDevice) {
	objs := make([]*verifObject, 0, k)
	next := int64(0)
	for i := 0; i < k; i++ {
		n := vnd.Choose(maxSize + 1)
		if !block.HasSpace(int64(n)) {
			vnd.Cover("no-space")
			break
		}
		o := &verifObject{n: n, data: vnd.Bytes(n), digest: verifTrustDigest(n), maxCuts: maxCuts}
		o.writer = block.Put(int64(n))
		objs = append(objs, o)
	}
	// order in which the copy phases run (the allocation order is fixed by the lock)
	order := []int{0, 1, 2}
	switch vnd.Choose(3) {
	case 1:
		order = []int{1, 0, 2}
	case 2:
		order = []int{2, 1, 0}
	}
	for _, i := range order {
		if i < len(objs) {
			verifRunWriter(objs[i])
		}
	}
	for i, o := range objs {
		vnd.Assert(o.err == nil, "writing an object that was allocated within the block failed")
		vnd.Assert(o.off == next, "object not placed directly after its predecessor")
		next += int64(o.n)
		vnd.Assert(o.src.closes == 1, "upload buffer not released exactly once")
		img := image()
		for j := 0; j < o.n; j++ {
			vnd.Assert(img[base+int(o.off)+j] == o.data[j], "a byte of an object is not at its own offset on the medium (adjacent objects / shared sector)")
		}
		if i > 0 && objs[i-1].n > 0 && o.n > 0 {
			vnd.Cover("adjacent")
		}
		// read back through the real Get
		got, err := block.Get(o.digest, o.off, int64(o.n), func(bool) {}).ToByteSlice(1000)
		vnd.Assert(err == nil, "reading an object back failed")
		if err == nil {
			vnd.Assert(len(got) == o.n, "read returned a wrong number of bytes")
			for j := 0; j < o.n && j < len(got); j++ {
				vnd.Assert(got[j] == o.data[j], "read returned bytes other than the uploaded ones")
			}
		}
	}
	if dev != nil {
		vnd.Assert(!dev.misaligned, "a device write is not sector aligned or not a whole number of sectors")
		vnd.Assert(!dev.outside, "a device write fell outside the block although HasSpace admitted the object")
	}
	vnd.Observe("placed", uint64(len(objs)), uint64(next))
}

// Verif_C01_W1_SectorWriter: block-device backed block.
//
// symgo: maxpaths=400000
func Verif_C01_W1_SectorWriter() {
	// quick: 4-byte sectors (the smallest size at which an object's tail can overwrite its own
	// head inside a shared sector image), sizes 0..S+2, at most one cut per object;
	// thorough: sector sizes 1, 2, 4, sizes 0..S+2, at most one cut, three objects
	S, maxSize, maxCuts := 4, 6, 1
	if vnd.Thorough() {
		// (sizes up to 2S+1 with two cuts and three objects exceed 400 000 paths)
		S = []int{1, 2, 4}[vnd.Choose(3)]
		maxSize, maxCuts = S+2, 1
	}
	blockSectors := int64(2) // quick: 8-byte blocks, so that running out of space is reachable
	if vnd.Thorough() {
		blockSectors = 4
	}
	dev := &verifDevice{image: make([]byte, 3*int(blockSectors)*S), sector: S}
	pa := NewBlockDeviceBackedBlockAllocator(dev, verifPlainFactory{}, S, blockSectors, 3, "verif")
	// take the second block so that a wrong base offset shows
	b0, _, err0 := pa.NewBlock()
	vnd.Assert(err0 == nil, "allocation of a free block failed")
	block, loc, err := pa.NewBlock()
	vnd.Assert(err == nil, "allocation of a free block failed")
	_ = b0
	base := int(loc.OffsetBytes)
	vnd.Assert(base == int(blockSectors)*S, "second block not at the second block offset")
	dev.lo, dev.hi = base, base+int(blockSectors)*S
	k := 2
	if vnd.Thorough() {
		k = 3
	}
	verifAdjacentObjects(block, k, maxSize, maxCuts, func() []byte { return dev.image }, base, dev)
}

// Verif_C01_W1b_WriteFailure: a failing device write is reported by the finalizer.
func Verif_C01_W1b_WriteFailure() {
	S := 2
	const blockSectors = 4
	dev := &verifDevice{image: make([]byte, blockSectors*S), sector: S, hi: blockSectors * S}
	pa := NewBlockDeviceBackedBlockAllocator(dev, verifPlainFactory{}, S, blockSectors, 1, "verif")
	block, _, _ := pa.NewBlock()
	n := 1 + vnd.Choose(2*S+1)
	o := &verifObject{n: n, data: vnd.Bytes(n), digest: verifTrustDigest(n), maxCuts: 2}
	o.writer = block.Put(int64(n))
	dev.failWrite = 1 + vnd.Choose(2)
	verifRunWriter(o)
	if dev.writes >= dev.failWrite {
		vnd.Cover("write-failed")
		vnd.Assert(o.err != nil, "a failed device write was not reported by the put finalizer")
	} else {
		vnd.Cover("write-not-reached")
		vnd.Assert(o.err == nil, "upload failed although no device write failed")
	}
	vnd.Assert(o.src.closes == 1, "upload buffer not released exactly once")
}

// Verif_C01_W2_InMemoryBlock: same placement oracle for the in-memory block.
func Verif_C01_W2_InMemoryBlock() {
	const size = 8
	pa := NewInMemoryBlockAllocator(size)
	block, _, err := pa.NewBlock()
	vnd.Assert(err == nil, "allocation failed")
	ib := block.(*inMemoryBlock)
	verifAdjacentObjects(block, 2, 5, 2, func() []byte { return ib.data }, 0, nil)
}

// verifYieldingDevice: device writes take time - another goroutine may run between the
// moment a writer decided what to write and the moment the bytes reach the medium.
type verifYieldingDevice struct{ *verifDevice }

func (d verifYieldingDevice) WriteAt(p []byte, off int64) (int, error) {
	// the device takes the data as it is when the call is made and applies it some time later
	inFlight := append([]byte(nil), p...)
	vnd.Yield()
	return d.verifDevice.WriteAt(inFlight, off)
}

// Verif_C01_W1c_SharedSectorRace: two adjacent objects that share a sector are written
// by two goroutines under every schedule (<= 2 preemptions), with device writes that
// yield: whichever sector image reaches the medium last contains both objects' bytes
// (the per-sector lock must cover the device write, not only the merge in memory).
func Verif_C01_W1c_SharedSectorRace() {
	vnd.ExploreSchedules(true)
	const S, blockSectors = 4, 2
	inner := &verifDevice{image: make([]byte, blockSectors*S), sector: S, hi: blockSectors * S}
	pa := NewBlockDeviceBackedBlockAllocator(verifYieldingDevice{inner}, verifPlainFactory{}, S, blockSectors, 1, "verif")
	block, _, err := pa.NewBlock()
	vnd.Assert(err == nil, "allocation of a free block failed")
	sizes := [][2]int{{2, 2}, {1, 4}, {3, 3}}[vnd.Choose(3)]
	a := &verifObject{n: sizes[0], data: vnd.Bytes(sizes[0]), digest: verifTrustDigest(sizes[0]), maxCuts: 0}
	b := &verifObject{n: sizes[1], data: vnd.Bytes(sizes[1]), digest: verifTrustDigest(sizes[1]), maxCuts: 0}
	a.writer = block.Put(int64(a.n))
	b.writer = block.Put(int64(b.n))
	done := make(chan struct{})
	go func() {
		verifRunWriter(b)
		close(done)
	}()
	verifRunWriter(a)
	<-done
	vnd.Assert(a.err == nil && b.err == nil, "writing an object that was allocated within the block failed")
	vnd.Assert(a.off == 0 && b.off == int64(a.n), "objects not placed back to back")
	for j := 0; j < a.n; j++ {
		vnd.Assert(inner.image[j] == a.data[j], "a byte of the first object is not at its own offset on the medium after both uploads completed (shared sector written by two writers)")
	}
	for j := 0; j < b.n; j++ {
		vnd.Assert(inner.image[a.n+j] == b.data[j], "a byte of the second object is not at its own offset on the medium after both uploads completed (shared sector written by two writers)")
	}
	vnd.Assert(!inner.misaligned && !inner.outside, "a device write was misaligned or outside the block")
	vnd.Cover("w1c-done")
}
