//go:build verif

package local

import (
	"hash"
	"io"

	remoteexecution "github.com/bazelbuild/remote-apis/build/bazel/remote/execution/v2"
	vnd "github.com/buildbarn/bb-storage/internal/verifnd"
	"github.com/buildbarn/bb-storage/pkg/blobstore/buffer"
	"github.com/buildbarn/bb-storage/pkg/digest"
)

// ---------------------------------------------------------------------------
// C01 W1/W2: the block allocators put every byte of every object at its own
// offset, for all sizes, chunkings and adjacent objects sharing a sector.
// ---------------------------------------------------------------------------

// verifTrustingHasher accepts any content (validation is not the subject here;
// C09 covers it): Sum returns the digest's own hash.
type verifTrustingHasher struct{ sum []byte }

func (h *verifTrustingHasher) Write(p []byte) (int, error) { return len(p), nil }
func (h *verifTrustingHasher) Sum(b []byte) []byte         { return append(b, h.sum...) }
func (h *verifTrustingHasher) Reset()                      {}
func (h *verifTrustingHasher) Size() int                   { return len(h.sum) }
func (h *verifTrustingHasher) BlockSize() int              { return 64 }

const verifTrustHex = "000102030405060708090a0b0c0d0e0f"

func verifTrustDigest(n int) digest.Digest {
	d := digest.MustNewDigest("", remoteexecution.DigestFunction_MD5, verifTrustHex, int64(n))
	sum := d.GetHashBytes()
	digest.VerifSetHasherFactory(remoteexecution.DigestFunction_MD5, func(int64) hash.Hash { return &verifTrustingHasher{sum: sum} })
	return d
}

// verifChunked delivers data in pieces whose sizes are chosen by the harness.
type verifChunked struct {
	data   []byte
	pos    int
	closes int
	yield  bool
}

func (c *verifChunked) Read(p []byte) (int, error) {
	if c.yield {
		vnd.Yield()
	}
	if c.pos >= len(c.data) {
		return 0, io.EOF
	}
	n := 1 + vnd.Choose(len(c.data)-c.pos)
	if n > len(p) {
		n = len(p)
	}
	copy(p, c.data[c.pos:c.pos+n])
	c.pos += n
	return n, nil
}

func (c *verifChunked) Close() error { c.closes++; return nil }

// verifDevice is a block device image that checks alignment of every write.
type verifDevice struct {
	image      []byte
	sector     int
	writes     int
	failWrite  int // fail the k-th write (1-based); 0 = never
	lo, hi     int // the block's byte range: writes must stay inside
	misaligned bool
	outside    bool
}

func (d *verifDevice) ReadAt(p []byte, off int64) (int, error) {
	if off >= int64(len(d.image)) {
		return 0, io.EOF
	}
	n := copy(p, d.image[off:])
	if n < len(p) {
		return n, io.EOF
	}
	return n, nil
}

func (d *verifDevice) WriteAt(p []byte, off int64) (int, error) {
	d.writes++
	if int(off)%d.sector != 0 || len(p)%d.sector != 0 || len(p) == 0 {
		d.misaligned = true
	}
	if int(off) < d.lo || int(off)+len(p) > d.hi {
		d.outside = true
		return 0, verifErrNoSpace
	}
	if d.failWrite == d.writes {
		return 0, verifErrNoSpace
	}
	copy(d.image[off:], p)
	return len(p), nil
}

func (d *verifDevice) Sync() error  { return nil }
func (d *verifDevice) Close() error { return nil }

type verifPlainFactory struct{}

func (verifPlainFactory) NewBufferFromByteSlice(d digest.Digest, data []byte, cb buffer.DataIntegrityCallback) buffer.Buffer {
	return buffer.NewValidatedBufferFromByteSlice(data)
}

func (verifPlainFactory) NewBufferFromReader(d digest.Digest, r io.ReadCloser, cb buffer.DataIntegrityCallback) buffer.Buffer {
	return buffer.NewCASBufferFromReader(d, r, buffer.BackendProvided(cb))
}

func (verifPlainFactory) NewBufferFromReaderAt(d digest.Digest, r buffer.ReadAtCloser, sizeBytes int64, cb buffer.DataIntegrityCallback) buffer.Buffer {
	return buffer.NewValidatedBufferFromReaderAt(r, sizeBytes)
}

type verifObject struct {
	n      int
	data   []byte
	digest digest.Digest
	writer BlockPutWriter
	off    int64
	err    error
	src    *verifChunked
}

func verifRunWriter(o *verifObject) {
	o.src = &verifChunked{data: o.data}
	fin := o.writer(buffer.NewCASBufferFromReader(o.digest, o.src, buffer.UserProvided))
	o.off, o.err = fin()
}

// verifAdjacentObjects allocates k objects in one block with the real Put,
// writes them in a harness-chosen order and checks placement byte by byte.
func verifAdjacentObjects(block Block, k, maxSize int, image func() []byte, base int, dev *verifDevice) {
	objs := make([]*verifObject, 0, k)
	next := int64(0)
	for i := 0; i < k; i++ {
		n := vnd.Choose(maxSize + 1)
		if !block.HasSpace(int64(n)) {
			vnd.Cover("no-space")
			break
		}
		o := &verifObject{n: n, data: vnd.Bytes(n), digest: verifTrustDigest(n)}
		o.writer = block.Put(int64(n))
		objs = append(objs, o)
	}
	// order in which the copy phases run (the allocation order is fixed by the lock)
	order := []int{0, 1, 2}
	switch vnd.Choose(3) {
	case 1:
		order = []int{1, 0, 2}
	case 2:
		order = []int{2, 1, 0}
	}
	for _, i := range order {
		if i < len(objs) {
			verifRunWriter(objs[i])
		}
	}
	for i, o := range objs {
		vnd.Assert(o.err == nil, "writing an object that was allocated within the block failed")
		vnd.Assert(o.off == next, "object not placed directly after its predecessor")
		next += int64(o.n)
		vnd.Assert(o.src.closes == 1, "upload buffer not released exactly once")
		img := image()
		for j := 0; j < o.n; j++ {
			vnd.Assert(img[base+int(o.off)+j] == o.data[j], "a byte of an object is not at its own offset on the medium (adjacent objects / shared sector)")
		}
		if i > 0 && objs[i-1].n > 0 && o.n > 0 {
			vnd.Cover("adjacent")
		}
		// read back through the real Get
		got, err := block.Get(o.digest, o.off, int64(o.n), func(bool) {}).ToByteSlice(1000)
		vnd.Assert(err == nil, "reading an object back failed")
		if err == nil {
			vnd.Assert(len(got) == o.n, "read returned a wrong number of bytes")
			for j := 0; j < o.n && j < len(got); j++ {
				vnd.Assert(got[j] == o.data[j], "read returned bytes other than the uploaded ones")
			}
		}
	}
	if dev != nil {
		vnd.Assert(!dev.misaligned, "a device write is not sector aligned or not a whole number of sectors")
		vnd.Assert(!dev.outside, "a device write fell outside the block although HasSpace admitted the object")
	}
	vnd.Observe("placed", uint64(len(objs)), uint64(next))
}

// Verif_C01_W1_SectorWriter: block-device backed block.
//
// symgo: maxpaths=400000
func Verif_C01_W1_SectorWriter() {
	S := 2
	if vnd.Thorough() {
		S = []int{1, 2, 4}[vnd.Choose(3)]
	}
	const blockSectors = 4
	dev := &verifDevice{image: make([]byte, 3*blockSectors*S), sector: S}
	pa := NewBlockDeviceBackedBlockAllocator(dev, verifPlainFactory{}, S, blockSectors, 3, "verif")
	// take the second block so that a wrong base offset shows
	b0, _, err0 := pa.NewBlock()
	vnd.Assert(err0 == nil, "allocation of a free block failed")
	block, loc, err := pa.NewBlock()
	vnd.Assert(err == nil, "allocation of a free block failed")
	_ = b0
	base := int(loc.OffsetBytes)
	vnd.Assert(base == blockSectors*S, "second block not at the second block offset")
	dev.lo, dev.hi = base, base+blockSectors*S
	k := 2
	if vnd.Thorough() {
		k = 3
	}
	verifAdjacentObjects(block, k, 2*S+1, func() []byte { return dev.image }, base, dev)
}

// Verif_C01_W1b_WriteFailure: a failing device write is reported by the finalizer.
func Verif_C01_W1b_WriteFailure() {
	S := 2
	const blockSectors = 4
	dev := &verifDevice{image: make([]byte, blockSectors*S), sector: S, hi: blockSectors * S}
	pa := NewBlockDeviceBackedBlockAllocator(dev, verifPlainFactory{}, S, blockSectors, 1, "verif")
	block, _, _ := pa.NewBlock()
	n := 1 + vnd.Choose(2*S+1)
	o := &verifObject{n: n, data: vnd.Bytes(n), digest: verifTrustDigest(n)}
	o.writer = block.Put(int64(n))
	dev.failWrite = 1 + vnd.Choose(2)
	verifRunWriter(o)
	if dev.writes >= dev.failWrite {
		vnd.Cover("write-failed")
		vnd.Assert(o.err != nil, "a failed device write was not reported by the put finalizer")
	} else {
		vnd.Cover("write-not-reached")
		vnd.Assert(o.err == nil, "upload failed although no device write failed")
	}
	vnd.Assert(o.src.closes == 1, "upload buffer not released exactly once")
}

// Verif_C01_W2_InMemoryBlock: same placement oracle for the in-memory block.
func Verif_C01_W2_InMemoryBlock() {
	const size = 8
	pa := NewInMemoryBlockAllocator(size)
	block, _, err := pa.NewBlock()
	vnd.Assert(err == nil, "allocation failed")
	ib := block.(*inMemoryBlock)
	verifAdjacentObjects(block, 2, 5, func() []byte { return ib.data }, 0, nil)
}
