//go:build verif

package local

import (
	"hash"
	"io"

	remoteexecution "github.com/bazelbuild/remote-apis/build/bazel/remote/execution/v2"
	vnd "github.com/buildbarn/bb-storage/internal/verifnd"
	"github.com/buildbarn/bb-storage/pkg/blobstore/buffer"
	"github.com/buildbarn/bb-storage/pkg/digest"
)

// ---------------------------------------------------------------------------
// Device / hasher / chunked-source stubs shared by the block allocator harnesses.
// ---------------------------------------------------------------------------

// verifTrustingHasher accepts any content (validation is not the subject here;
// C09 covers it): Sum returns the digest's own hash.
type verifTrustingHasher struct{ sum []byte }

func (h *verifTrustingHasher) Write(p []byte) (int, error) { return len(p), nil }
func (h *verifTrustingHasher) Sum(b []byte) []byte         { return append(b, h.sum...) }
func (h *verifTrustingHasher) Reset()                      {}
func (h *verifTrustingHasher) Size() int                   { return len(h.sum) }
func (h *verifTrustingHasher) BlockSize() int              { return 64 }

const verifTrustHex = "000102030405060708090a0b0c0d0e0f"

func verifTrustDigest(n int) digest.Digest {
	d := digest.MustNewDigest("", remoteexecution.DigestFunction_MD5, verifTrustHex, int64(n))
	sum := d.GetHashBytes()
	digest.VerifSetHasherFactory(remoteexecution.DigestFunction_MD5, func(int64) hash.Hash { return &verifTrustingHasher{sum: sum} })
	return d
}

// verifChunked delivers data in pieces; the cut positions are chosen by the harness
// when the source is created (at most maxCuts cuts).
type verifChunked struct {
	data   []byte
	pos    int
	closes int
	yield  bool
	cuts   []int // ascending positions at which a Read ends
}

func verifNewChunked(data []byte, maxCuts int) *verifChunked {
	c := &verifChunked{data: data}
	n := len(data)
	last := 0
	for k := 0; k < maxCuts && n-last >= 2; k++ {
		// cut after `last+1+j` bytes, or stop cutting
		j := vnd.Choose(n - last)
		if j == 0 {
			break
		}
		last += j
		c.cuts = append(c.cuts, last)
	}
	return c
}

func (c *verifChunked) Read(p []byte) (int, error) {
	if c.yield {
		vnd.Yield()
	}
	if c.pos >= len(c.data) {
		return 0, io.EOF
	}
	end := len(c.data)
	for _, cut := range c.cuts {
		if cut > c.pos {
			end = cut
			break
		}
	}
	n := end - c.pos
	if n > len(p) {
		n = len(p)
	}
	copy(p, c.data[c.pos:c.pos+n])
	c.pos += n
	return n, nil
}

func (c *verifChunked) Close() error { c.closes++; return nil }

// verifDevice is a block device image that checks alignment of every write.
type verifDevice struct {
	image      []byte
	sector     int
	writes     int
	failWrite  int // fail the k-th write (1-based); 0 = never
	lo, hi     int // the block's byte range: writes must stay inside
	misaligned bool
	outside    bool
}

func (d *verifDevice) ReadAt(p []byte, off int64) (int, error) {
	if off >= int64(len(d.image)) {
		return 0, io.EOF
	}
	n := copy(p, d.image[off:])
	if n < len(p) {
		return n, io.EOF
	}
	return n, nil
}

func (d *verifDevice) WriteAt(p []byte, off int64) (int, error) {
	d.writes++
	if int(off)%d.sector != 0 || len(p)%d.sector != 0 || len(p) == 0 {
		d.misaligned = true
	}
	if int(off) < d.lo || int(off)+len(p) > d.hi {
		d.outside = true
		return 0, verifErrNoSpace
	}
	if d.failWrite == d.writes {
		return 0, verifErrNoSpace
	}
	copy(d.image[off:], p)
	return len(p), nil
}

func (d *verifDevice) Sync() error  { return nil }
func (d *verifDevice) Close() error { return nil }

type verifPlainFactory struct{}

func (verifPlainFactory) NewBufferFromByteSlice(d digest.Digest, data []byte, cb buffer.DataIntegrityCallback) buffer.Buffer {
	return buffer.NewValidatedBufferFromByteSlice(data)
}

func (verifPlainFactory) NewBufferFromReader(d digest.Digest, r io.ReadCloser, cb buffer.DataIntegrityCallback) buffer.Buffer {
	return buffer.NewCASBufferFromReader(d, r, buffer.BackendProvided(cb))
}

func (verifPlainFactory) NewBufferFromReaderAt(d digest.Digest, r buffer.ReadAtCloser, sizeBytes int64, cb buffer.DataIntegrityCallback) buffer.Buffer {
	return buffer.NewValidatedBufferFromReaderAt(r, sizeBytes)
}

type verifObject struct {
	maxCuts int
	n       int
	data    []byte
	digest  digest.Digest
	writer  BlockPutWriter
	off     int64
	err     error
	src     *verifChunked
}

func verifRunWriter(o *verifObject) {
	o.src = verifNewChunked(o.data, o.maxCuts)
	fin := o.writer(buffer.NewCASBufferFromReader(o.digest, o.src, buffer.UserProvided))
	o.off, o.err = fin()
}
