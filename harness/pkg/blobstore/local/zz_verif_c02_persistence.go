//go:build verif

package local

import (
	vnd "github.com/buildbarn/bb-storage/internal/verifnd"
	"github.com/buildbarn/bb-storage/pkg/blobstore/buffer"
	pb "github.com/buildbarn/bb-storage/pkg/proto/blobstore/local"
)

// Verif_C02_P1_InvariantPerMethod: each method of PersistentBlockList preserves
// the representation invariant from an arbitrary valid state (inductive step).
func Verif_C02_P1_InvariantPerMethod() { verifScenarioPBLMethod() }

// Verif_C02_P2_EpochFencing: a finalizer that succeeds leaves the blob in an
// epoch that is NOT part of a synchronisation that has already started, whose
// last block is at or after the blob's block, and the block's written offset
// covers the blob. Rotation between allocation and finalisation is symbolic.
func Verif_C02_P2_EpochFencing() { verifScenarioPBLFinalizer() }

// Verif_C02_P2b_ExportedState: what GetPersistentState exports after a
// NotifySyncStarting / finalizers / NotifySyncCompleted sequence: only epochs
// that existed at NotifySyncStarting, per block the offset written at that
// moment, blocks are a prefix of the list, seeds partitioned as epochCount says.
func Verif_C02_P2b_ExportedState() {
	mb, me, mp := verifPBLBounds()
	x := verifNewPBL(mb, me, mp)
	bl := x.bl
	vnd.Assume(!bl.closedForWriting)
	bl.NotifySyncStarting(false)
	E0 := len(bl.epochHashSeeds)
	written0 := make([]int64, len(bl.blocks))
	seeds0 := append([]uint64(nil), bl.epochHashSeeds...)
	for j := range bl.blocks {
		written0[j] = bl.blocks[j].writtenOffsetBytes
	}
	// an upload completes while the data sync is in progress
	if len(bl.blocks) > 0 && vnd.Choose(2) == 1 {
		vnd.Cover("upload-during-sync")
		idx := vnd.Choose(len(bl.blocks))
		x.blocks[idx].finalOff = int64(vnd.Int(0, 1<<30))
		fin := bl.Put(idx, int64(vnd.Int(0, 1<<30)))(buffer.NewValidatedBufferFromByteSlice(nil))
		_, err := fin()
		vnd.Assert(err == nil, "upload into a live block failed")
	}
	bl.NotifySyncCompleted()
	oldest, blocks := bl.GetPersistentState()
	vnd.Assert(oldest == bl.oldestEpochID, "exported oldest epoch ID differs from the list's")
	vnd.Assert(len(blocks) <= len(bl.blocks), "more blocks exported than listed")
	total := 0
	for j, bs := range blocks {
		vnd.Assert(bs.BlockLocation == bl.blocks[j].blockLocation, "exported blocks are not a prefix of the block list")
		vnd.Assert(bs.WriteOffsetBytes == written0[j], "exported write offset is not the offset written when the synchronisation started")
		for e, seed := range bs.EpochHashSeeds {
			vnd.Assert(total+e < E0, "an epoch created after the synchronisation started was exported")
			if total+e < E0 {
				vnd.Assert(seed == seeds0[total+e], "exported epoch seeds are not the list's seeds in order")
			}
		}
		vnd.Assert(len(bs.EpochHashSeeds) <= bl.blocks[j].epochCount, "a block exports more epochs than it counts")
		total += len(bs.EpochHashSeeds)
	}
	vnd.Assert(total == E0, "not exactly the epochs that existed at the start of the synchronisation were exported")
	vnd.Cover("exported")
}

// Verif_C02_P3_RestartRoundTrip: export, then rebuild the list from the
// exported state (allocator may refuse one location): every reference of an
// exported epoch that resolved before resolves to the same physical block with
// the same seed; references of epochs that were not exported do not resolve;
// nothing at or after a refused block resolves; restored write offsets are the
// exported ones.
func Verif_C02_P3_RestartRoundTrip() { verifScenarioRestartRoundTrip() }

// Verif_C02_P7_DeferredRelease: a block popped after GetPersistentState is not
// released by the NotifyPersistentStateWritten that follows; blocks are released
// exactly once and only by that call.
func Verif_C02_P7_DeferredRelease() { verifScenarioDeferredRelease() }

// Verif_C02_P5_CommitOrdering: data sync before state export before state write before
// release notification, with retries; NotifyPersistentStateWritten only after a
// successful write of the state obtained by the immediately preceding export.
func Verif_C02_P5_CommitOrdering() { verifScenarioProcessBlockPut() }

// Verif_C02_P8_RestoredWriteCursor: a block re-attached after a restart at the
// write offset recorded in the state file (any offset, sector aligned or not)
// places the next upload entirely at or after that offset and inside the block:
// committed bytes below the offset are never overwritten, for every sector
// size, offset and upload size.
func Verif_C02_P8_RestoredWriteCursor() {
	S := []int{1, 2, 4}[vnd.Choose(3)]
	const blockSectors = 2
	blockBytes := blockSectors * S
	before := vnd.Bytes(2 * blockBytes)
	dev := &verifDevice{image: append([]byte(nil), before...), sector: S}
	pa := NewBlockDeviceBackedBlockAllocator(dev, verifPlainFactory{}, S, blockSectors, 2, "verif")
	which := vnd.Choose(2)
	base := which * blockBytes
	dev.lo, dev.hi = base, base+blockBytes
	loc := &pb.BlockLocation{OffsetBytes: int64(base), SizeBytes: int64(blockBytes)}
	w := vnd.Int(0, blockBytes)
	block, found := pa.NewBlockAtLocation(loc, int64(w))
	vnd.Assert(found, "a free block was not re-attached at its recorded location")
	n := vnd.Choose(blockBytes + 1)
	if !block.HasSpace(int64(n)) {
		vnd.Cover("restored-block-full")
		// refusing is only right when the object really does not fit behind the offset
		// (space is handed out in whole sectors from the next sector boundary)
		vnd.Assert(((w+S-1)/S)*S+n > blockBytes, "a restored block refused an upload that fits behind the recorded write offset")
		return
	}
	o := &verifObject{n: n, data: vnd.Bytes(n), digest: verifTrustDigest(n), maxCuts: 1}
	o.writer = block.Put(int64(n))
	verifRunWriter(o)
	vnd.Assert(o.err == nil, "an upload into a restored block failed on a working device")
	vnd.Assert(o.off >= int64(w), "an upload into a restored block was placed below the recorded write offset")
	vnd.Assert(o.off+int64(n) <= int64(blockBytes), "an upload into a restored block extends beyond the block")
	vnd.Assert(!dev.outside, "a device write fell outside the restored block")
	for j := 0; j < blockBytes; j++ {
		vnd.Assert(vnd.Implies(j < w, dev.image[base+j] == before[base+j]), "an upload into a restored block overwrote committed bytes below the recorded write offset")
	}
	for j := 0; j < n; j++ {
		vnd.Assert(dev.image[base+int(o.off)+j] == o.data[j], "a byte uploaded into a restored block is not at its own offset")
	}
	if w%S != 0 {
		vnd.Cover("restored-offset-unaligned")
	}
	vnd.Observe("p8", uint64(w), uint64(o.off))
}
