//go:build verif

package local

import (
	vnd "github.com/buildbarn/bb-storage/internal/verifnd"
	"github.com/buildbarn/bb-storage/pkg/blobstore/buffer"
)

// Verif_C02_P1_InvariantPerMethod: each method of PersistentBlockList preserves
// the representation invariant from an arbitrary valid state (inductive step).
func Verif_C02_P1_InvariantPerMethod() { verifScenarioPBLMethod() }

// Verif_C02_P2_EpochFencing: a finalizer that succeeds leaves the blob in an
// epoch that is NOT part of a synchronisation that has already started, whose
// last block is at or after the blob's block, and the block's written offset
// covers the blob. Rotation between allocation and finalisation is symbolic.
func Verif_C02_P2_EpochFencing() { verifScenarioPBLFinalizer() }

// Verif_C02_P2b_ExportedState: what GetPersistentState exports after a
// NotifySyncStarting / finalizers / NotifySyncCompleted sequence: only epochs
// that existed at NotifySyncStarting, per block the offset written at that
// moment, blocks are a prefix of the list, seeds partitioned as epochCount says.
func Verif_C02_P2b_ExportedState() {
	mb, me, mp := verifPBLBounds()
	x := verifNewPBL(mb, me, mp)
	bl := x.bl
	vnd.Assume(!bl.closedForWriting)
	bl.NotifySyncStarting(false)
	E0 := len(bl.epochHashSeeds)
	written0 := make([]int64, len(bl.blocks))
	seeds0 := append([]uint64(nil), bl.epochHashSeeds...)
	for j := range bl.blocks {
		written0[j] = bl.blocks[j].writtenOffsetBytes
	}
	// an upload completes while the data sync is in progress
	if len(bl.blocks) > 0 && vnd.Choose(2) == 1 {
		vnd.Cover("upload-during-sync")
		idx := vnd.Choose(len(bl.blocks))
		x.blocks[idx].finalOff = int64(vnd.Int(0, 1<<30))
		fin := bl.Put(idx, int64(vnd.Int(0, 1<<30)))(buffer.NewValidatedBufferFromByteSlice(nil))
		_, err := fin()
		vnd.Assert(err == nil, "upload into a live block failed")
	}
	bl.NotifySyncCompleted()
	oldest, blocks := bl.GetPersistentState()
	vnd.Assert(oldest == bl.oldestEpochID, "exported oldest epoch ID differs from the list's")
	vnd.Assert(len(blocks) <= len(bl.blocks), "more blocks exported than listed")
	total := 0
	for j, bs := range blocks {
		vnd.Assert(bs.BlockLocation == bl.blocks[j].blockLocation, "exported blocks are not a prefix of the block list")
		vnd.Assert(bs.WriteOffsetBytes == written0[j], "exported write offset is not the offset written when the synchronisation started")
		for e, seed := range bs.EpochHashSeeds {
			vnd.Assert(total+e < E0, "an epoch created after the synchronisation started was exported")
			if total+e < E0 {
				vnd.Assert(seed == seeds0[total+e], "exported epoch seeds are not the list's seeds in order")
			}
		}
		vnd.Assert(len(bs.EpochHashSeeds) <= bl.blocks[j].epochCount, "a block exports more epochs than it counts")
		total += len(bs.EpochHashSeeds)
	}
	vnd.Assert(total == E0, "not exactly the epochs that existed at the start of the synchronisation were exported")
	vnd.Cover("exported")
}

// Verif_C02_P3_RestartRoundTrip: export, then rebuild the list from the
// exported state (allocator may refuse one location): every reference of an
// exported epoch that resolved before resolves to the same physical block with
// the same seed; references of epochs that were not exported do not resolve;
// nothing at or after a refused block resolves; restored write offsets are the
// exported ones.
func Verif_C02_P3_RestartRoundTrip() { verifScenarioRestartRoundTrip() }

// Verif_C02_P7_DeferredRelease: a block popped after GetPersistentState is not
// released by the NotifyPersistentStateWritten that follows; blocks are released
// exactly once and only by that call.
func Verif_C02_P7_DeferredRelease() { verifScenarioDeferredRelease() }

// Verif_C02_P5_CommitOrdering: data sync before state export before state write before
// release notification, with retries; NotifyPersistentStateWritten only after a
// successful write of the state obtained by the immediately preceding export.
func Verif_C02_P5_CommitOrdering() { verifScenarioProcessBlockPut() }
