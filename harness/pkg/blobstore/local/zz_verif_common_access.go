//go:build verif

package local

import (
	"context"
	"io"
	"sync"

	remoteexecution "github.com/bazelbuild/remote-apis/build/bazel/remote/execution/v2"
	vnd "github.com/buildbarn/bb-storage/internal/verifnd"
	"github.com/buildbarn/bb-storage/pkg/blobstore/buffer"
	"github.com/buildbarn/bb-storage/pkg/digest"

	"google.golang.org/grpc/codes"
	"google.golang.org/grpc/status"
)

// ---------------------------------------------------------------------------
// Scenario stubs for the BlobAccess layer (flat and hierarchical): an index and
// a location-blob map whose outcome at EVERY call is symbolic — found / not
// found / error, needs-refresh or not, allocation failure, copy failure,
// finalizer failure, index write failure — and which hand out real CAS buffers
// over sources that count Close calls.
// ---------------------------------------------------------------------------

var (
	verifObjData   = []byte("xy")
	verifObjDigest = func() digest.Digest {
		g := digest.MustNewFunction("", remoteexecution.DigestFunction_MD5).NewGenerator(2)
		g.Write(verifObjData)
		return g.Sum()
	}()
	verifErrIndex = status.Error(codes.Unavailable, "verif: injected index failure")
	verifErrAlloc = status.Error(codes.Unavailable, "verif: injected allocation failure")
	verifErrFinal = status.Error(codes.Internal, "verif: injected finalizer failure")
)

type verifKLMPut struct {
	key Key
	loc Location
	rot int // rotations of the block list that had happened when the entry was written
}

type verifKLMGet struct {
	key  Key
	kind int // 0 found, 1 not found, 2 error
	loc  Location
	rot  int // rotations that had happened when the answer was given
}

type verifKLM struct {
	lock    *sync.RWMutex // when set, lock discipline is checked (engine only)
	world   *verifLBM     // when set, answers and writes are stamped with its rotation count
	gets    int
	puts    []verifKLMPut
	lookups []Key
	history []verifKLMGet
	// fixed: when true every lookup of a key returns the same answer (a quiescent index)
	fixed     bool
	fixedKind map[Key]int
	fixedLoc  map[Key]Location
}

// verifRequireLock: the documented locking contract of the index and the location map
// (reads under at least the read lock, mutations under the write lock). Only checkable
// under the engine (MutexState is -1 natively).
func verifRequireLock(lock *sync.RWMutex, write bool, what string) {
	if lock == nil {
		return
	}
	st := vnd.MutexState(lock)
	if st < 0 {
		return
	}
	if write {
		vnd.Assert(st == 2, "lock discipline: "+what+" called without holding the write lock")
	} else {
		vnd.Assert(st >= 1, "lock discipline: "+what+" called without holding the lock")
	}
}

func (m *verifKLM) rot() int {
	if m.world == nil {
		return 0
	}
	return m.world.rot
}

func (m *verifKLM) Get(key Key) (Location, error) {
	verifRequireLock(m.lock, false, "KeyLocationMap.Get")
	m.gets++
	m.lookups = append(m.lookups, key)
	kind := 0
	var loc Location
	if m.fixed {
		if k, ok := m.fixedKind[key]; ok {
			kind, loc = k, m.fixedLoc[key]
		} else {
			kind = vnd.Int(0, 2)
			loc = Location{BlockIndex: vnd.Int(0, 3), OffsetBytes: int64(vnd.Int(0, 1000)), SizeBytes: int64(len(verifObjData))}
			if m.fixedKind == nil {
				m.fixedKind, m.fixedLoc = map[Key]int{}, map[Key]Location{}
			}
			m.fixedKind[key], m.fixedLoc[key] = kind, loc
		}
	} else {
		kind = vnd.Int(0, 2)
		loc = Location{BlockIndex: vnd.Int(0, 3), OffsetBytes: int64(vnd.Int(0, 1000)), SizeBytes: int64(len(verifObjData))}
	}
	switch kind {
	case 0:
		m.history = append(m.history, verifKLMGet{key: key, kind: 0, loc: loc, rot: m.rot()})
		return loc, nil
	case 1:
		m.history = append(m.history, verifKLMGet{key: key, kind: 1})
		return Location{}, status.Error(codes.NotFound, "verif: object not found")
	}
	m.history = append(m.history, verifKLMGet{key: key, kind: 2})
	return Location{}, verifErrIndex
}

func (m *verifKLM) Put(key Key, loc Location) error {
	verifRequireLock(m.lock, true, "KeyLocationMap.Put")
	m.puts = append(m.puts, verifKLMPut{key: key, loc: loc, rot: m.rot()})
	if vnd.Bool() {
		return verifErrIndex
	}
	return nil
}

// verifSource is a ReadAtCloser / ReadCloser over the object that counts Close calls.
type verifSource struct {
	data   []byte
	pos    int
	closes int
	onRead func() // called on every Read (what else happens while data is being transferred)
}

func (s *verifSource) Read(p []byte) (int, error) {
	if s.closes > 0 {
		vnd.Unreachable("Read on a closed block reader")
	}
	if s.onRead != nil {
		s.onRead()
	}
	if s.pos >= len(s.data) {
		return 0, io.EOF
	}
	n := copy(p, s.data[s.pos:])
	s.pos += n
	return n, nil
}

func (s *verifSource) ReadAt(p []byte, off int64) (int, error) {
	if s.closes > 0 {
		vnd.Unreachable("ReadAt on a closed block reader")
	}
	if off >= int64(len(s.data)) {
		return 0, io.EOF
	}
	n := copy(p, s.data[off:])
	if n < len(p) {
		return n, io.EOF
	}
	return n, nil
}

func (s *verifSource) Close() error {
	s.closes++
	return nil
}

type verifLBMPut struct {
	size     int64
	consumed bool
	copyErr  error
	loc      Location
	finalOK  bool
	finalRun int
	finalRot int    // rotations that had happened when the finalizer reported loc
	data     []byte // what the put writer copied
}

type verifLBM struct {
	lock      *sync.RWMutex // when set, lock discipline is checked (engine only)
	epoch     int           // bumped by Put and by finalizers: both invalidate outstanding getters
	kind      int           // kind of buffer handed out by getters: 0 CAS reader, 1 validated ReaderAt, 2 byte slice
	sources   []*verifSource
	integrity []bool
	gets      int
	puts      []*verifLBMPut
	// quiescent: needs-refresh is a function of the location's block (as in the real map)
	quiescent bool
	oldLimit  int
	// rotates: an allocation may release the oldest block, which shifts every block index
	// by one (Location.BlockIndex is relative to the oldest block still in the list)
	rotates bool
	rot     int
	// objects: contents by digest for getters (default verifObjData)
	objects  map[digest.Digest][]byte
	getLocs  []Location // location every invoked getter had been obtained for
	getCalls []digest.Digest
	// index: when set, every location passed to Get must be FRESH: equal to an answer the
	// index gave (or a finalizer reported) at the current rotation count. A location is
	// relative to the oldest block, so one that was obtained before the lock was released
	// and the list rotated denotes another block.
	index *verifKLM
}

func (m *verifLBM) requireFresh(loc Location) {
	if m.index == nil {
		return
	}
	fresh := false
	for _, g := range m.index.history {
		if g.kind == 0 && g.rot == m.rot {
			fresh = vnd.Or(fresh, g.loc == loc)
		}
	}
	for _, p := range m.puts {
		if p.finalOK && p.finalRot == m.rot {
			fresh = vnd.Or(fresh, p.loc == loc)
		}
	}
	vnd.Assert(fresh, "the location map was consulted with a location obtained before the block list rotated (a relative block index carried across a release of the lock)")
}

func (m *verifLBM) dataFor(d digest.Digest) []byte {
	if data, ok := m.objects[d]; ok {
		return data
	}
	return verifObjData
}

func (m *verifLBM) Get(loc Location) (LocationBlobGetter, bool) {
	verifRequireLock(m.lock, false, "LocationBlobMap.Get")
	m.requireFresh(loc)
	m.gets++
	needsRefresh := vnd.Bool()
	if m.quiescent {
		needsRefresh = loc.BlockIndex < m.oldLimit
	}
	epoch := m.epoch
	return func(d digest.Digest) buffer.Buffer {
		// documented contract: Put() and finalizers invalidate outstanding getters
		vnd.Assert(m.epoch == epoch, "a LocationBlobGetter was invoked after LocationBlobMap.Put or a put finalizer invalidated it")
		verifRequireLock(m.lock, false, "LocationBlobGetter")
		src := &verifSource{data: m.dataFor(d)}
		m.sources = append(m.sources, src)
		m.getLocs = append(m.getLocs, loc)
		m.getCalls = append(m.getCalls, d)
		switch m.kind {
		case 0:
			return buffer.NewCASBufferFromReader(d, src, buffer.BackendProvided(func(ok bool) { m.integrity = append(m.integrity, ok) }))
		case 1:
			return buffer.NewValidatedBufferFromReaderAt(src, int64(len(src.data)))
		}
		src.closes++ // a byte slice buffer holds no reader
		return buffer.NewValidatedBufferFromByteSlice(src.data)
	}, needsRefresh
}

func (m *verifLBM) Put(sizeBytes int64) (LocationBlobPutWriter, error) {
	verifRequireLock(m.lock, true, "LocationBlobMap.Put")
	m.epoch++
	if vnd.Bool() {
		return nil, verifErrAlloc
	}
	if m.rotates && vnd.Bool() {
		m.rot++
	}
	p := &verifLBMPut{size: sizeBytes}
	m.puts = append(m.puts, p)
	return func(b buffer.Buffer) LocationBlobPutFinalizer {
		if p.consumed {
			vnd.Unreachable("put writer invoked twice")
		}
		p.consumed = true
		data, err := b.ToByteSlice(1 << 20)
		if err == nil && m.objects == nil && string(data) != string(verifObjData) {
			vnd.Unreachable("refresh copied bytes that differ from the object")
		}
		p.data = data
		p.copyErr = err
		return func() (Location, error) {
			verifRequireLock(m.lock, true, "LocationBlobPutFinalizer")
			m.epoch++
			p.finalRun++
			if p.copyErr != nil {
				return Location{}, p.copyErr
			}
			if vnd.Bool() {
				return Location{}, verifErrFinal
			}
			p.finalOK = true
			p.finalRot = m.rot
			p.loc = Location{BlockIndex: 3, OffsetBytes: int64(vnd.Int(0, 1000)), SizeBytes: sizeBytes}
			return p.loc, nil
		}
	}, nil
}

type verifFlat struct {
	klm  *verifKLM
	lbm  *verifLBM
	lock *sync.RWMutex
	ba   *flatBlobAccess
}

func verifNewFlat() *verifFlat {
	f := &verifFlat{klm: &verifKLM{}, lbm: &verifLBM{kind: vnd.Choose(3)}, lock: &sync.RWMutex{}}
	f.klm.lock, f.lbm.lock = f.lock, f.lock
	f.ba = NewFlatBlobAccess(f.klm, f.lbm, digest.KeyWithoutInstance, f.lock, "verif", nil).(*flatBlobAccess)
	return f
}

// verifConsume uses a buffer up by one of several methods and reports (data, err).
func verifConsume(b buffer.Buffer, how int) ([]byte, error) {
	switch how {
	case 0:
		return b.ToByteSlice(100)
	case 1:
		b.Discard()
		return nil, verifErrDiscarded
	case 2:
		r := b.ToReader()
		data, err := io.ReadAll(r)
		cerr := r.Close()
		if err == nil {
			err = cerr
		}
		return data, err
	case 3:
		if _, err := b.GetSizeBytes(); err != nil {
			b.Discard()
			return nil, err
		}
		w := &verifByteWriter{}
		err := b.IntoWriter(w)
		return w.data, err
	}
	// clone, consume one, discard the other
	b1, b2 := b.CloneStream()
	done := make(chan struct{})
	go func() {
		b2.Discard()
		close(done)
	}()
	data, err := b1.ToByteSlice(100)
	<-done
	return data, err
}

var verifErrDiscarded = status.Error(codes.Canceled, "verif: discarded by the harness")

type verifByteWriter struct{ data []byte }

func (w *verifByteWriter) Write(p []byte) (int, error) {
	w.data = append(w.data, p...)
	return len(p), nil
}

// verifAllClosedOnce: every reader opened during the operation was closed exactly once.
func verifAllClosedOnce(m *verifLBM) {
	for _, s := range m.sources {
		vnd.Assert(s.closes == 1, "a block reader opened during the operation was not closed exactly once")
	}
	for _, p := range m.puts {
		vnd.Assert(p.consumed, "space was allocated but the put writer was never invoked")
		vnd.Assert(p.finalRun == 1, "put finalizer not invoked exactly once")
	}
}

// verifPublishedOnlyFinalized: the index is written only with the location of a
// finalizer that succeeded, under the key of the digest.
func verifPublishedOnlyFinalized(f *verifFlat, key Key) {
	okPuts := 0
	for _, p := range f.lbm.puts {
		if p.finalOK {
			okPuts++
		}
	}
	vnd.Assert(len(f.klm.puts) == okPuts, "index written although no finalizer succeeded (or not written although one did)")
	i := 0
	for _, p := range f.lbm.puts {
		if p.finalOK {
			vnd.Assert(f.klm.puts[i].loc == p.loc, "index entry does not carry the finalizer's location")
			vnd.Assert(f.klm.puts[i].key == key, "index entry written under a key other than the object's")
			i++
		}
	}
}

// Scenario: flatBlobAccess.Get with every outcome at every call symbolic.
func verifScenarioFlatGet() {
	f := verifNewFlat()
	ctx := context.Background()
	b := f.ba.Get(ctx, verifObjDigest)
	how := vnd.Choose(5)
	data, err := verifConsume(b, how)
	key := f.ba.getKey(verifObjDigest)
	verifAllClosedOnce(f.lbm)
	verifPublishedOnlyFinalized(f, key)
	if err == nil {
		vnd.Cover("get-ok")
		vnd.Assert(string(data) == string(verifObjData), "Get completed with bytes other than the object's")
	} else {
		vnd.Cover("get-failed")
	}
	if len(f.lbm.puts) > 0 {
		vnd.Cover("refresh-attempted")
		if len(f.klm.puts) > 0 {
			vnd.Cover("refresh-published")
		}
	}
	for _, ok := range f.lbm.integrity {
		vnd.Assert(ok, "integrity callback reported corruption on an uncorrupted medium")
	}
	vnd.Observe("get", uint64(len(f.lbm.sources)), uint64(len(f.lbm.puts)), uint64(len(f.klm.puts)))
}

// Scenario: flatBlobAccess.Put.
func verifScenarioFlatPut() {
	f := verifNewFlat()
	ctx := context.Background()
	src := &verifSource{data: verifObjData}
	valid := vnd.Choose(2) == 0
	if !valid {
		src.data = []byte("zz") // content that does not match the digest
	}
	b := buffer.NewCASBufferFromReader(verifObjDigest, src, buffer.UserProvided)
	err := f.ba.Put(ctx, verifObjDigest, b)
	key := f.ba.getKey(verifObjDigest)
	vnd.Assert(src.closes == 1, "upload buffer not released exactly once")
	verifPublishedOnlyFinalized(f, key)
	for _, p := range f.lbm.puts {
		vnd.Assert(p.consumed && p.finalRun == 1, "allocated space whose writer/finalizer did not run exactly once")
	}
	if err == nil {
		vnd.Cover("put-ok")
		vnd.Assert(valid, "upload of mismatching content acknowledged")
		vnd.Assert(len(f.klm.puts) == 1, "acknowledged upload not published exactly once")
	} else {
		vnd.Cover("put-failed")
		if !valid {
			vnd.Cover("put-invalid-content")
			vnd.Assert(len(f.klm.puts) == 0, "an upload with mismatching content reached the index")
		}
	}
	vnd.Observe("put", uint64(len(f.lbm.puts)), uint64(len(f.klm.puts)))
}

// Scenario: flatBlobAccess.FindMissing over two digests.
func verifScenarioFlatFindMissing() {
	f := verifNewFlat()
	f.klm.fixed = vnd.Choose(2) == 1
	ctx := context.Background()
	d2 := func() digest.Digest {
		g := digest.MustNewFunction("", remoteexecution.DigestFunction_MD5).NewGenerator(2)
		g.Write(verifObjData)
		g.Write([]byte("!"))
		return g.Sum()
	}()
	set := digest.NewSetBuilder(2).Add(verifObjDigest).Add(d2).Build()
	missing, err := f.ba.FindMissing(ctx, set)
	for _, s := range f.lbm.sources {
		vnd.Assert(s.closes == 1, "a block reader opened by FindMissing was not closed exactly once")
	}
	for _, p := range f.lbm.puts {
		vnd.Assert(p.consumed && p.finalRun == 1, "allocated space whose writer/finalizer did not run exactly once")
	}
	if err == nil {
		vnd.Cover("findmissing-ok")
		vnd.Assert(missing.Length() <= 2, "more digests reported missing than were asked about")
		// whatever happened in between: the answer for each digest reflects the index's LAST
		// word on it during the call (found: present; NOT_FOUND, e.g. because the object was
		// rotated out between the two scans: missing)
		for _, d := range set.Items() {
			k := f.ba.getKey(d)
			last := -1
			for i, g := range f.klm.history {
				if g.key == k {
					last = i
				}
			}
			isMissing := false
			for _, m := range missing.Items() {
				if m == d {
					isMissing = true
				}
			}
			if last >= 0 {
				vnd.Assert(isMissing == (f.klm.history[last].kind == 1), "FindMissing answer for a digest contradicts the index's last answer for it during the call (e.g. an object that vanished between the scans reported present)")
			}
		}
		if f.klm.fixed {
			// quiescent index: reported missing iff the index says NOT_FOUND
			for _, d := range set.Items() {
				k := f.ba.getKey(d)
				isMissing := false
				for _, m := range missing.Items() {
					if m == d {
						isMissing = true
					}
				}
				vnd.Assert(isMissing == (f.klm.fixedKind[k] == 1), "FindMissing answer differs from the index")
			}
		}
	} else {
		vnd.Cover("findmissing-failed")
	}
	if len(f.lbm.puts) > 0 {
		vnd.Cover("findmissing-refreshed")
	}
	vnd.Observe("fm", uint64(len(f.lbm.puts)), uint64(len(f.klm.puts)))
}

// ---------------------------------------------------------------------------
// Hierarchical CAS store over the same stubs.
// ---------------------------------------------------------------------------

var verifHierDigest = func() digest.Digest {
	g := digest.MustNewFunction("a/b", remoteexecution.DigestFunction_MD5).NewGenerator(2)
	g.Write(verifObjData)
	return g.Sum()
}()

type verifHier struct {
	klm  *verifKLM
	lbm  *verifLBM
	lock *sync.RWMutex
	ba   *hierarchicalCASBlobAccess
}

func verifNewHier() *verifHier {
	h := &verifHier{klm: &verifKLM{}, lbm: &verifLBM{kind: vnd.Choose(3)}, lock: &sync.RWMutex{}}
	h.klm.lock, h.lbm.lock = h.lock, h.lock
	h.ba = NewHierarchicalCASBlobAccess(h.klm, h.lbm, h.lock, nil).(*hierarchicalCASBlobAccess)
	return h
}

// verifHierIndexWrites: every index write carries either the location of a
// finalizer that succeeded or (lookup entries only) a location the index itself
// returned for the canonical key, and is filed under the canonical key or one
// of the lookup keys of the digest's own instance-name chain.
func verifHierIndexWrites(h *verifHier, d digest.Digest) {
	canonical := getCanonicalKey(d)
	lookups := getAllLookupKeys(d)
	for _, w := range h.klm.puts {
		okKey := w.key == canonical
		for _, k := range lookups {
			if w.key == k {
				okKey = true
			}
		}
		vnd.Assert(okKey, "index entry written under a key outside the digest's own instance-name chain")
		// Every location written is one a successful finalizer returned, or - for lookup
		// entries only - the location the index itself returned for the canonical key at its
		// LAST lookup (the entry as re-read under the lock, not a stale earlier copy).
		fromFinalizer := false
		for _, p := range h.lbm.puts {
			if p.finalOK && p.loc == w.loc {
				fromFinalizer = true
			}
		}
		if !fromFinalizer {
			vnd.Assert(w.key != canonical, "canonical entry written with a location no successful finalizer returned")
			lastCanonical := -1
			for i, g := range h.klm.history {
				if g.key == canonical && g.kind == 0 {
					lastCanonical = i
				}
			}
			vnd.Assert(lastCanonical >= 0 && h.klm.history[lastCanonical].loc == w.loc, "a lookup entry was written with a location other than the canonical entry's location as last read under the lock")
			if lastCanonical >= 0 {
				// ... and read AFTER the last rotation/quarantine: a location seen before the lock
				// was released denotes another block (or none) once the list has moved
				vnd.Assert(h.klm.history[lastCanonical].rot == w.rot, "a lookup entry was written with a canonical location read before the block list moved (the lock had been released in between)")
			}
		}
	}
}

// verifHierRefreshKeys: a read or existence check only ever (re)writes the canonical
// key and the ONE lookup key that answered the request - never a less or more
// specific name of the chain (which would widen or move visibility).
func verifHierRefreshKeys(h *verifHier, d digest.Digest) {
	canonical := getCanonicalKey(d)
	lookups := getAllLookupKeys(d)
	// the lookup key that answered: the key of the last successful lookup among the chain's lookup keys
	answered := -1
	for i, g := range h.klm.history {
		if g.kind != 0 {
			continue
		}
		for _, k := range lookups {
			if g.key == k {
				answered = i
			}
		}
	}
	for _, w := range h.klm.puts {
		if w.key == canonical {
			continue
		}
		vnd.Assert(answered >= 0 && w.key == h.klm.history[answered].key, "a refresh wrote a lookup entry under a name other than the one that answered the request")
	}
}

func verifScenarioHierGet() {
	h := verifNewHier()
	ctx := context.Background()
	b := h.ba.Get(ctx, verifHierDigest)
	how := vnd.Choose(5)
	data, err := verifConsume(b, how)
	verifAllClosedOnce(h.lbm)
	verifHierIndexWrites(h, verifHierDigest)
	verifHierRefreshKeys(h, verifHierDigest)
	if err == nil {
		vnd.Cover("get-ok")
		vnd.Assert(string(data) == string(verifObjData), "Get completed with bytes other than the object's")
	} else {
		vnd.Cover("get-failed")
	}
	if len(h.lbm.puts) > 0 {
		vnd.Cover("refresh-attempted")
	}
	// the canonical key is only ever WRITTEN with the location of a successful finalizer
	canonical := getCanonicalKey(verifHierDigest)
	for _, w := range h.klm.puts {
		if w.key == canonical {
			ok := false
			for _, p := range h.lbm.puts {
				if p.finalOK && p.loc == w.loc {
					ok = true
				}
			}
			vnd.Assert(ok, "canonical entry written with a location that no successful finalizer returned")
		}
	}
	vnd.Observe("hget", uint64(len(h.lbm.sources)), uint64(len(h.lbm.puts)), uint64(len(h.klm.puts)))
}

func verifScenarioHierPut() {
	h := verifNewHier()
	ctx := context.Background()
	src := &verifSource{data: verifObjData}
	valid := vnd.Choose(2) == 0
	if !valid {
		src.data = []byte("zz")
	}
	// While the client's data is being transferred (no lock held) another request may move
	// the block list (rotation, quarantine): at most once here.
	h.klm.world = h.lbm
	moved := false
	src.onRead = func() {
		if !moved && vnd.Choose(2) == 1 && h.lock.TryLock() {
			moved = true
			h.lbm.rot++
			h.lbm.epoch++
			h.lock.Unlock()
		}
	}
	b := buffer.NewCASBufferFromReader(verifHierDigest, src, buffer.UserProvided)
	err := h.ba.Put(ctx, verifHierDigest, b)
	if moved {
		vnd.Cover("put-list-moved-during-transfer")
	}
	vnd.Assert(src.closes == 1, "upload buffer not released exactly once")
	verifHierIndexWrites(h, verifHierDigest)
	for _, p := range h.lbm.puts {
		vnd.Assert(p.consumed && p.finalRun == 1, "allocated space whose writer/finalizer did not run exactly once")
	}
	if !valid {
		vnd.Cover("put-invalid-content")
		vnd.Assert(err != nil, "upload of mismatching content acknowledged")
		vnd.Assert(len(h.klm.puts) == 0, "an upload with mismatching content created an index entry (access granted without valid content)")
	}
	if err == nil {
		vnd.Cover("put-ok")
		lookup := getMostSpecificLookupKey(verifHierDigest)
		found := false
		for _, w := range h.klm.puts {
			if w.key == lookup {
				found = true
			}
		}
		vnd.Assert(found, "acknowledged upload did not create the uploader's lookup entry")
		if len(h.lbm.puts) == 0 {
			vnd.Cover("put-existing-object")
		}
	} else {
		vnd.Cover("put-failed")
	}
	vnd.Observe("hput", uint64(len(h.lbm.puts)), uint64(len(h.klm.puts)))
}

func verifScenarioHierFindMissing() {
	h := verifNewHier()
	ctx := context.Background()
	set := verifHierDigest.ToSingletonSet()
	missing, err := h.ba.FindMissing(ctx, set)
	for _, s := range h.lbm.sources {
		vnd.Assert(s.closes == 1, "a block reader opened by FindMissing was not closed exactly once")
	}
	for _, p := range h.lbm.puts {
		vnd.Assert(p.consumed && p.finalRun == 1, "allocated space whose writer/finalizer did not run exactly once")
	}
	verifHierIndexWrites(h, verifHierDigest)
	verifHierRefreshKeys(h, verifHierDigest)
	if err == nil {
		vnd.Cover("findmissing-ok")
		vnd.Assert(missing.Length() <= 1, "more digests reported missing than were asked about")
	} else {
		vnd.Cover("findmissing-failed")
	}
	if len(h.lbm.puts) > 0 {
		vnd.Cover("findmissing-refreshed")
	}
	vnd.Observe("hfm", uint64(len(h.lbm.puts)), uint64(len(h.klm.puts)))
}

// ---------------------------------------------------------------------------
// Touch scenarios (C05 T2/T3): quiescent index and location map — lookups are
// a function of the key, needs-refresh is "block index below the old limit" —
// and the index reflects successful writes.
// ---------------------------------------------------------------------------

func (m *verifKLM) applyPut(key Key, loc Location) {
	if m.fixed {
		if m.fixedKind == nil {
			m.fixedKind, m.fixedLoc = map[Key]int{}, map[Key]Location{}
		}
		m.fixedKind[key], m.fixedLoc[key] = 0, loc
	}
}

type verifQuiescentKLM struct{ *verifKLM }

func (m verifQuiescentKLM) Put(key Key, loc Location) error {
	m.verifKLM.puts = append(m.verifKLM.puts, verifKLMPut{key: key, loc: loc})
	if vnd.Bool() {
		return verifErrIndex
	}
	m.verifKLM.applyPut(key, loc)
	return nil
}

func verifScenarioFlatTouch(findMissing bool) {
	klm := &verifKLM{fixed: true}
	lbm := &verifLBM{kind: vnd.Choose(3), quiescent: true, oldLimit: vnd.Choose(4)}
	lock := &sync.RWMutex{}
	klm.lock, lbm.lock = lock, lock
	ba := NewFlatBlobAccess(verifQuiescentKLM{klm}, lbm, digest.KeyWithoutInstance, lock, "verif", nil).(*flatBlobAccess)
	ctx := context.Background()
	key := ba.getKey(verifObjDigest)
	touch := func() bool {
		if findMissing {
			missing, err := ba.FindMissing(ctx, verifObjDigest.ToSingletonSet())
			return err == nil && missing.Empty()
		}
		_, err := ba.Get(ctx, verifObjDigest).ToByteSlice(100)
		return err == nil
	}
	if !touch() {
		vnd.Cover("touch-failed-or-absent")
		return
	}
	vnd.Cover("touched")
	// T2: the object's newest location is outside the old blocks
	vnd.Assert(klm.fixedKind[key] == 0, "object reported present/readable but the index does not hold it")
	vnd.Assert(klm.fixedLoc[key].BlockIndex >= lbm.oldLimit, "after a successful touch the object's newest location is still in an old block")
	if len(lbm.puts) > 0 {
		vnd.Cover("touch-refreshed")
	}
	// T3: repeating the touch writes nothing
	p0, k0 := len(lbm.puts), len(klm.puts)
	ok2 := touch()
	vnd.Assert(ok2, "repeating a successful touch failed on a quiescent store")
	vnd.Assert(len(lbm.puts) == p0, "repeating a touch allocated space again")
	vnd.Assert(len(klm.puts) == k0, "repeating a touch wrote the index again")
	for _, s := range lbm.sources {
		vnd.Assert(s.closes == 1, "a block reader was not closed exactly once")
	}
	vnd.Observe("touch", uint64(p0), uint64(k0))
}

func verifScenarioHierTouch(findMissing bool) {
	klm := &verifKLM{fixed: true}
	lbm := &verifLBM{kind: vnd.Choose(3), quiescent: true, oldLimit: vnd.Choose(4)}
	lock := &sync.RWMutex{}
	klm.lock, lbm.lock = lock, lock
	ba := NewHierarchicalCASBlobAccess(verifQuiescentKLM{klm}, lbm, lock, nil).(*hierarchicalCASBlobAccess)
	ctx := context.Background()
	touch := func() bool {
		if findMissing {
			missing, err := ba.FindMissing(ctx, verifHierDigest.ToSingletonSet())
			return err == nil && missing.Empty()
		}
		_, err := ba.Get(ctx, verifHierDigest).ToByteSlice(100)
		return err == nil
	}
	if !touch() {
		vnd.Cover("touch-failed-or-absent")
		return
	}
	vnd.Cover("touched")
	// T2: the least specific lookup entry that answers now points outside the old blocks
	lock.RLock()
	_, loc, err := ba.getLeastSpecificLookupEntry(getAllLookupKeys(verifHierDigest))
	lock.RUnlock()
	klm.gets = 0
	vnd.Assert(err == nil, "object reported present/readable but no lookup entry answers")
	vnd.Assert(loc.BlockIndex >= lbm.oldLimit, "after a successful touch the answering lookup entry still points into an old block")
	if len(lbm.puts) > 0 {
		vnd.Cover("touch-refreshed")
	}
	p0, k0 := len(lbm.puts), len(klm.puts)
	ok2 := touch()
	vnd.Assert(ok2, "repeating a successful touch failed on a quiescent store")
	vnd.Assert(len(lbm.puts) == p0, "repeating a touch allocated space again")
	vnd.Assert(len(klm.puts) == k0, "repeating a touch wrote the index again")
	vnd.Observe("htouch", uint64(p0), uint64(k0))
}

// ---------------------------------------------------------------------------
// Scenario: hierarchicalCASBlobAccess.FindMissing over TWO digests (same
// instance name, different objects) with every outcome at every call symbolic:
// each index write made on behalf of one object is filed under a key of THAT
// object and carries a location holding THAT object's bytes.
// ---------------------------------------------------------------------------

var (
	verifHier2DataA   = []byte("pq")
	verifHier2DataB   = []byte("rs")
	verifHier2DigestA = verifHier2Digest(verifHier2DataA)
	verifHier2DigestB = verifHier2Digest(verifHier2DataB)
)

func verifHier2Digest(data []byte) digest.Digest {
	g := digest.MustNewFunction("a", remoteexecution.DigestFunction_MD5).NewGenerator(int64(len(data)))
	g.Write(data)
	return g.Sum()
}

func verifScenarioHierFindMissingTwo() {
	h := &verifHier{klm: &verifKLM{fixed: true}, lbm: &verifLBM{kind: 0}, lock: &sync.RWMutex{}}
	h.klm.lock, h.lbm.lock = h.lock, h.lock
	h.lbm.objects = map[digest.Digest][]byte{verifHier2DigestA: verifHier2DataA, verifHier2DigestB: verifHier2DataB}
	h.ba = NewHierarchicalCASBlobAccess(h.klm, h.lbm, h.lock, nil).(*hierarchicalCASBlobAccess)
	ctx := context.Background()
	set := digest.NewSetBuilder(2).Add(verifHier2DigestA).Add(verifHier2DigestB).Build()
	missing, err := h.ba.FindMissing(ctx, set)
	for _, s := range h.lbm.sources {
		vnd.Assert(s.closes == 1, "a block reader opened by FindMissing was not closed exactly once")
	}
	for _, p := range h.lbm.puts {
		vnd.Assert(p.consumed && p.finalRun == 1, "allocated space whose writer/finalizer did not run exactly once")
	}
	digests := []digest.Digest{verifHier2DigestA, verifHier2DigestB}
	datas := [][]byte{verifHier2DataA, verifHier2DataB}
	for _, w := range h.klm.puts {
		owner := -1
		for i, d := range digests {
			if w.key == getCanonicalKey(d) {
				owner = i
			}
			for _, k := range getAllLookupKeys(d) {
				if w.key == k {
					owner = i
				}
			}
		}
		if owner < 0 {
			vnd.Unreachable("index entry written under a key of neither requested object")
			continue
		}
		canonical := getCanonicalKey(digests[owner])
		// Provenance is judged by value (locations are symbolic): the entry is right if its
		// location is that of a successful copy of the OWNER's bytes, or - lookup entries only -
		// the owner's canonical location as last read under the lock.
		ownCopy := false
		for _, p := range h.lbm.puts {
			if p.finalOK && string(p.data) == string(datas[owner]) {
				ownCopy = vnd.Or(ownCopy, p.loc == w.loc)
			}
		}
		fromCanonical := false
		if w.key != canonical {
			lastCanonical := -1
			for i, g := range h.klm.history {
				if g.key == canonical && g.kind == 0 {
					lastCanonical = i
				}
			}
			if lastCanonical >= 0 {
				fromCanonical = h.klm.history[lastCanonical].loc == w.loc
			}
		}
		vnd.Assert(vnd.Or(ownCopy, fromCanonical), "an index entry of one object carries a location that is neither a fresh copy of ITS bytes nor its own canonical location (e.g. a copy of another object's bytes)")
	}
	// every copy was made from a getter for the object whose bytes it holds
	for i, d := range h.lbm.getCalls {
		_ = i
		vnd.Assert(d == verifHier2DigestA || d == verifHier2DigestB, "a getter was invoked for a digest that was not requested")
	}
	if err == nil {
		vnd.Cover("findmissing2-ok")
		vnd.Assert(missing.Length() <= 2, "more digests reported missing than were asked about")
		// quiescent index: an object is reported missing iff none of its lookup keys answers
		for _, d := range digests {
			present := false
			for _, k := range getAllLookupKeys(d) {
				if kind, ok := h.klm.fixedKind[k]; ok && kind == 0 {
					present = true
				}
			}
			isMissing := false
			for _, m := range missing.Items() {
				if m == d {
					isMissing = true
				}
			}
			vnd.Assert(isMissing == !present, "FindMissing answer for one of two objects differs from the index")
		}
	} else {
		vnd.Cover("findmissing2-failed")
	}
	if len(h.lbm.puts) == 2 {
		vnd.Cover("findmissing2-both-refreshed")
	}
	if len(h.lbm.puts) == 1 {
		vnd.Cover("findmissing2-one-refreshed")
	}
	vnd.Observe("hfm2", uint64(len(h.lbm.puts)), uint64(len(h.klm.puts)))
}

// ---------------------------------------------------------------------------
// Reads and existence checks while ANOTHER request rotates the block list: a
// second goroutine takes the write lock once, at any point the schedule allows
// (in particular between the read-locked and the write-locked phase of the
// operation), and releases the oldest block. The stubs then insist that every
// location handed to the location map was obtained at the current rotation
// count (verifLBM.requireFresh) - i.e. that the operation looked the object up
// again after re-acquiring the lock.
// ---------------------------------------------------------------------------

// verifHierRootDigest: an object under the empty instance name (a chain of ONE lookup key,
// which keeps the schedule space of the under-rotation scenarios small).
var verifHierRootDigest = func() digest.Digest {
	g := digest.MustNewFunction("", remoteexecution.DigestFunction_MD5).NewGenerator(2)
	g.Write(verifObjData)
	return g.Sum()
}()

func verifRotator(lock *sync.RWMutex, lbm *verifLBM) chan struct{} {
	done := make(chan struct{})
	go func() {
		lock.Lock()
		lbm.rot++
		lbm.epoch++
		lock.Unlock()
		close(done)
	}()
	return done
}

func verifScenarioGetUnderRotation(hier bool) {
	vnd.ExploreSchedules(true)
	ctx := context.Background()
	var b buffer.Buffer
	var lbm *verifLBM
	var done chan struct{}
	if hier {
		h := &verifHier{klm: &verifKLM{}, lbm: &verifLBM{kind: 0}, lock: &sync.RWMutex{}}
		h.klm.lock, h.lbm.lock = h.lock, h.lock
		h.klm.world, h.lbm.index = h.lbm, h.klm
		h.ba = NewHierarchicalCASBlobAccess(h.klm, h.lbm, h.lock, nil).(*hierarchicalCASBlobAccess)
		lbm = h.lbm
		done = verifRotator(h.lock, h.lbm)
		b = h.ba.Get(ctx, verifHierRootDigest)
	} else {
		f := &verifFlat{klm: &verifKLM{}, lbm: &verifLBM{kind: 0}, lock: &sync.RWMutex{}}
		f.klm.lock, f.lbm.lock = f.lock, f.lock
		f.klm.world, f.lbm.index = f.lbm, f.klm
		f.ba = NewFlatBlobAccess(f.klm, f.lbm, digest.KeyWithoutInstance, f.lock, "verif", nil).(*flatBlobAccess)
		lbm = f.lbm
		done = verifRotator(f.lock, f.lbm)
		b = f.ba.Get(ctx, verifObjDigest)
	}
	data, err := b.ToByteSlice(100)
	<-done
	verifAllClosedOnce(lbm)
	if err == nil {
		vnd.Cover("rot-get-ok")
		vnd.Assert(string(data) == string(verifObjData), "Get completed with bytes other than the object's")
	} else {
		vnd.Cover("rot-get-failed")
	}
	if len(lbm.puts) > 0 {
		vnd.Cover("rot-refresh-attempted")
	}
}

func verifScenarioFindMissingUnderRotation(hier bool) {
	vnd.ExploreSchedules(true)
	ctx := context.Background()
	var lbm *verifLBM
	var done chan struct{}
	var err error
	if hier {
		h := &verifHier{klm: &verifKLM{}, lbm: &verifLBM{kind: 0}, lock: &sync.RWMutex{}}
		h.klm.lock, h.lbm.lock = h.lock, h.lock
		h.klm.world, h.lbm.index = h.lbm, h.klm
		h.ba = NewHierarchicalCASBlobAccess(h.klm, h.lbm, h.lock, nil).(*hierarchicalCASBlobAccess)
		lbm = h.lbm
		done = verifRotator(h.lock, h.lbm)
		_, err = h.ba.FindMissing(ctx, verifHierRootDigest.ToSingletonSet())
	} else {
		f := &verifFlat{klm: &verifKLM{}, lbm: &verifLBM{kind: 0}, lock: &sync.RWMutex{}}
		f.klm.lock, f.lbm.lock = f.lock, f.lock
		f.klm.world, f.lbm.index = f.lbm, f.klm
		f.ba = NewFlatBlobAccess(f.klm, f.lbm, digest.KeyWithoutInstance, f.lock, "verif", nil).(*flatBlobAccess)
		lbm = f.lbm
		done = verifRotator(f.lock, f.lbm)
		_, err = f.ba.FindMissing(ctx, verifObjDigest.ToSingletonSet())
	}
	<-done
	for _, s := range lbm.sources {
		vnd.Assert(s.closes == 1, "a block reader opened by FindMissing was not closed exactly once")
	}
	if err == nil {
		vnd.Cover("rot-findmissing-ok")
	}
	if len(lbm.puts) > 0 {
		vnd.Cover("rot-findmissing-refreshed")
	}
}
