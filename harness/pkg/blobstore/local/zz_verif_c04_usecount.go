//go:build verif

package local

import (
	vnd "github.com/buildbarn/bb-storage/internal/verifnd"
	"github.com/buildbarn/bb-storage/pkg/blobstore/buffer"
	pb "github.com/buildbarn/bb-storage/pkg/proto/blobstore/local"
)

// Verif_C04_R1_UseCount: all histories of <= k operations on the real
// block-device block allocator with two device blocks: allocate a block, drop
// the list's reference (Release), open a reader (Get), close a reader, start an
// upload (Put), finish an upload, fail an upload (source error). Ghost model: per block the number of holders.
// After every step: the region of a block is on the free list iff nobody holds
// the block any more, exactly once; NewBlock never hands out a region that
// somebody still holds; nothing panics (use counts never go negative or get
// resurrected).
//
// symgo: maxpaths=400000
func Verif_C04_R1_UseCount() {
	const S, sectors, nblocks = 2, 2, 2
	dev := &verifDevice{image: make([]byte, nblocks*sectors*S), sector: S, hi: nblocks * sectors * S}
	pa := NewBlockDeviceBackedBlockAllocator(dev, verifPlainFactory{}, S, sectors, nblocks, "verif").(*blockDeviceBackedBlockAllocator)
	type live struct {
		b       Block
		off     int64 // device offset in bytes
		listRef bool
		readers []buffer.Buffer
		writers []BlockPutWriter
		holders int
	}
	var blocks []*live
	steps := 4
	if vnd.Thorough() {
		steps = 5
	}
	check := func() {
		// free list must hold exactly the regions nobody holds, each once
		for off := int64(0); off < nblocks; off++ {
			held := false
			for _, l := range blocks {
				if l.off == off*sectors*S && l.holders > 0 {
					held = true
				}
			}
			count := 0
			for _, f := range pa.freeOffsets {
				if f == off*sectors {
					count++
				}
			}
			if held {
				vnd.Assert(count == 0, "the region of a block that is still referenced is on the free list")
			} else {
				vnd.Assert(count == 1, "the region of a block nobody references is not on the free list exactly once (leaked or duplicated)")
			}
		}
	}
	check()
	for s := 0; s < steps; s++ {
		op := vnd.Choose(7)
		switch op {
		case 0: // allocate
			b, loc, err := pa.NewBlock()
			if err != nil {
				vnd.Cover("exhausted")
				for off := int64(0); off < nblocks; off++ {
					held := false
					for _, l := range blocks {
						if l.off == off*sectors*S && l.holders > 0 {
							held = true
						}
					}
					vnd.Assert(held, "allocation failed although a region is free")
				}
				break
			}
			for _, l := range blocks {
				vnd.Assert(!(l.holders > 0 && l.off == loc.OffsetBytes), "NewBlock handed out a region that a reader, writer or the block list still holds")
			}
			blocks = append(blocks, &live{b: b, off: loc.OffsetBytes, listRef: true, holders: 1})
		case 1: // the block list drops its reference
			for _, l := range blocks {
				if l.listRef {
					l.b.Release()
					l.listRef = false
					l.holders--
					vnd.Cover("list-released")
					break
				}
			}
		case 2: // open a reader on a block the list still holds (Get is only called on listed blocks)
			for _, l := range blocks {
				if l.listRef && len(l.readers) < 2 {
					l.readers = append(l.readers, l.b.Get(verifObjDigest, 0, 1, func(bool) {}))
					l.holders++
					break
				}
			}
		case 3: // close the oldest open reader (possibly after the list released the block)
			for _, l := range blocks {
				if len(l.readers) > 0 {
					l.readers[0].Discard()
					l.readers = l.readers[1:]
					l.holders--
					vnd.Cover("reader-closed")
					break
				}
			}
		case 4: // start an upload into a listed block
			for _, l := range blocks {
				if l.listRef && len(l.writers) < 1 && l.b.HasSpace(1) {
					l.writers = append(l.writers, l.b.Put(1))
					l.holders++
					break
				}
			}
		case 5: // finish an upload (possibly after the list released the block)
			for _, l := range blocks {
				if len(l.writers) > 0 {
					fin := l.writers[0](buffer.NewValidatedBufferFromByteSlice([]byte{7}))
					fin()
					l.writers = l.writers[1:]
					l.holders--
					vnd.Cover("writer-finished")
					break
				}
			}
		case 6: // an upload whose data source fails (possibly after the list released the block)
			for _, l := range blocks {
				if len(l.writers) > 0 {
					fin := l.writers[0](buffer.NewBufferFromError(verifErrNoSpace))
					_, err := fin()
					vnd.Assert(err != nil, "an upload whose source failed was acknowledged by the block")
					l.writers = l.writers[1:]
					l.holders--
					vnd.Cover("writer-failed")
					break
				}
			}
		}
		check()
	}
	vnd.Observe("r1", uint64(len(blocks)), uint64(len(pa.freeOffsets)))
}

// Verif_C04_R5_ReattachFreeList: what a restart does to the allocator: blocks listed in the
// state file are re-attached at their recorded locations (any subset of the device's
// regions, in any order). Afterwards the free list holds exactly the OTHER regions, each
// once; a region cannot be re-attached twice; fresh allocations never hand out a
// re-attached region and exhaust exactly the others; releasing everything gives all
// regions back.
func Verif_C04_R5_ReattachFreeList() {
	const S, sectors, nblocks = 2, 2, 3
	dev := &verifDevice{image: make([]byte, nblocks*sectors*S), sector: S, hi: nblocks * sectors * S}
	pa := NewBlockDeviceBackedBlockAllocator(dev, verifPlainFactory{}, S, sectors, nblocks, "verif").(*blockDeviceBackedBlockAllocator)
	loc := func(r int) *pb.BlockLocation {
		return &pb.BlockLocation{OffsetBytes: int64(r * sectors * S), SizeBytes: sectors * S}
	}
	attached := make([]bool, nblocks)
	var held []Block
	orders := [][]int{{0, 1, 2}, {0, 2, 1}, {1, 0, 2}, {1, 2, 0}, {2, 0, 1}, {2, 1, 0}}
	order := orders[vnd.Choose(6)]
	k := vnd.Choose(nblocks + 1)
	for _, r := range order[:k] {
		b, found := pa.NewBlockAtLocation(loc(r), int64(vnd.Int(0, sectors*S)))
		vnd.Assert(found, "a free region was not re-attached at its recorded location")
		attached[r] = true
		held = append(held, b)
		_, again := pa.NewBlockAtLocation(loc(r), 0)
		vnd.Assert(!again, "the same region was re-attached twice")
	}
	check := func(what string) {
		for r := 0; r < nblocks; r++ {
			count := 0
			for _, f := range pa.freeOffsets {
				if f == int64(r*sectors) {
					count++
				}
			}
			if attached[r] {
				vnd.Assert(count == 0, what+": a region that is in use is on the free list")
			} else {
				vnd.Assert(count == 1, what+": a region that is not in use is not on the free list exactly once")
			}
		}
		vnd.Assert(len(pa.freeOffsets) <= nblocks, what+": the free list holds more entries than the device has regions")
	}
	check("after re-attaching")
	// fresh allocations use exactly the other regions
	for {
		b, l, err := pa.NewBlock()
		if err != nil {
			break
		}
		r := int(l.OffsetBytes) / (sectors * S)
		vnd.Assert(r >= 0 && r < nblocks && !attached[r], "NewBlock handed out a region that a re-attached block holds")
		attached[r] = true
		held = append(held, b)
		check("after allocating")
	}
	for r := range attached {
		vnd.Assert(attached[r], "allocation failed although a region is free")
	}
	for _, b := range held {
		b.Release()
	}
	for r := range attached {
		attached[r] = false
	}
	check("after releasing everything")
	vnd.Cover("r5-done")
}
