//go:build verif

package local

import (
	vnd "github.com/buildbarn/bb-storage/internal/verifnd"
	"github.com/buildbarn/bb-storage/pkg/blobstore/buffer"
)

// Verif_C04_R1_UseCount: all histories of <= k operations on the real
// block-device block allocator with two device blocks: allocate a block, drop
// the list's reference (Release), open a reader (Get), close a reader, start an
// upload (Put), finish an upload, fail an upload (source error). Ghost model: per block the number of holders.
// After every step: the region of a block is on the free list iff nobody holds
// the block any more, exactly once; NewBlock never hands out a region that
// somebody still holds; nothing panics (use counts never go negative or get
// resurrected).
//
// symgo: maxpaths=400000
func Verif_C04_R1_UseCount() {
	const S, sectors, nblocks = 2, 2, 2
	dev := &verifDevice{image: make([]byte, nblocks*sectors*S), sector: S, hi: nblocks * sectors * S}
	pa := NewBlockDeviceBackedBlockAllocator(dev, verifPlainFactory{}, S, sectors, nblocks, "verif").(*blockDeviceBackedBlockAllocator)
	type live struct {
		b       Block
		off     int64 // device offset in bytes
		listRef bool
		readers []buffer.Buffer
		writers []BlockPutWriter
		holders int
	}
	var blocks []*live
	steps := 4
	if vnd.Thorough() {
		steps = 5
	}
	check := func() {
		// free list must hold exactly the regions nobody holds, each once
		for off := int64(0); off < nblocks; off++ {
			held := false
			for _, l := range blocks {
				if l.off == off*sectors*S && l.holders > 0 {
					held = true
				}
			}
			count := 0
			for _, f := range pa.freeOffsets {
				if f == off*sectors {
					count++
				}
			}
			if held {
				vnd.Assert(count == 0, "the region of a block that is still referenced is on the free list")
			} else {
				vnd.Assert(count == 1, "the region of a block nobody references is not on the free list exactly once (leaked or duplicated)")
			}
		}
	}
	check()
	for s := 0; s < steps; s++ {
		op := vnd.Choose(7)
		switch op {
		case 0: // allocate
			b, loc, err := pa.NewBlock()
			if err != nil {
				vnd.Cover("exhausted")
				for off := int64(0); off < nblocks; off++ {
					held := false
					for _, l := range blocks {
						if l.off == off*sectors*S && l.holders > 0 {
							held = true
						}
					}
					vnd.Assert(held, "allocation failed although a region is free")
				}
				break
			}
			for _, l := range blocks {
				vnd.Assert(!(l.holders > 0 && l.off == loc.OffsetBytes), "NewBlock handed out a region that a reader, writer or the block list still holds")
			}
			blocks = append(blocks, &live{b: b, off: loc.OffsetBytes, listRef: true, holders: 1})
		case 1: // the block list drops its reference
			for _, l := range blocks {
				if l.listRef {
					l.b.Release()
					l.listRef = false
					l.holders--
					vnd.Cover("list-released")
					break
				}
			}
		case 2: // open a reader on a block the list still holds (Get is only called on listed blocks)
			for _, l := range blocks {
				if l.listRef && len(l.readers) < 2 {
					l.readers = append(l.readers, l.b.Get(verifObjDigest, 0, 1, func(bool) {}))
					l.holders++
					break
				}
			}
		case 3: // close the oldest open reader (possibly after the list released the block)
			for _, l := range blocks {
				if len(l.readers) > 0 {
					l.readers[0].Discard()
					l.readers = l.readers[1:]
					l.holders--
					vnd.Cover("reader-closed")
					break
				}
			}
		case 4: // start an upload into a listed block
			for _, l := range blocks {
				if l.listRef && len(l.writers) < 1 && l.b.HasSpace(1) {
					l.writers = append(l.writers, l.b.Put(1))
					l.holders++
					break
				}
			}
		case 5: // finish an upload (possibly after the list released the block)
			for _, l := range blocks {
				if len(l.writers) > 0 {
					fin := l.writers[0](buffer.NewValidatedBufferFromByteSlice([]byte{7}))
					fin()
					l.writers = l.writers[1:]
					l.holders--
					vnd.Cover("writer-finished")
					break
				}
			}
		case 6: // an upload whose data source fails (possibly after the list released the block)
			for _, l := range blocks {
				if len(l.writers) > 0 {
					fin := l.writers[0](buffer.NewBufferFromError(verifErrNoSpace))
					_, err := fin()
					vnd.Assert(err != nil, "an upload whose source failed was acknowledged by the block")
					l.writers = l.writers[1:]
					l.holders--
					vnd.Cover("writer-failed")
					break
				}
			}
		}
		check()
	}
	vnd.Observe("r1", uint64(len(blocks)), uint64(len(pa.freeOffsets)))
}
