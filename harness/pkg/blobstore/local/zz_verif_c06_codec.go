//go:build verif

package local

import vnd "github.com/buildbarn/bb-storage/internal/verifnd"

// C06 H4 = C02 P4: both record array back ends; see zz_verif_c02_checksum.go
// (the file is included for C02 only, so C06 has thin copies of the entry points
// through the shared helpers in zz_verif_common_records.go).

func Verif_C06_H4_RecordRoundTrip() { verifScenarioRecordRoundTrip() }

// H4b: the codec on a grid of concrete records (see verifScenarioRecordRoundTripGrid).
func Verif_C06_H4b_RecordRoundTripGrid() { verifScenarioRecordRoundTripGrid() }

// Verif_C06_H5_VolatileReferences: block references of the volatile block list. A
// record written for block i carries (reference, hash seed) = BlockIndexToBlockReference(i).
// After any number of later PushBacks and PopFronts, resolving that reference yields the
// SAME physical block (index shifted by the releases) and the SAME hash seed - so the
// record's checksum still validates - or nothing once the block has been released. (The
// index Get lemma H2 assumes exactly this of its resolver.)
func Verif_C06_H5_VolatileReferences() {
	n := 1 + vnd.Choose(3)
	alloc := &verifPAllocator{refuseAt: -1}
	bl := &volatileBlockList{blockAllocator: alloc, oldestEpochID: vnd.U32()}
	vnd.Assume(bl.oldestEpochID < 1<<31)
	var phys []*verifPBlock
	for j := 0; j < n; j++ {
		sb := &verifPBlock{id: j}
		phys = append(phys, sb)
		bl.blocks = append(bl.blocks, volatileBlockInfo{block: sb, epochHashSeed: vnd.U64()})
	}
	i := vnd.Choose(n)
	ref, seed := bl.BlockIndexToBlockReference(i)
	pushes := vnd.Choose(3)
	for k := 0; k < pushes; k++ {
		vnd.Assert(bl.PushBack() == nil, "PushBack failed although the allocator works")
	}
	pops := vnd.Choose(n + 1)
	for k := 0; k < pops; k++ {
		bl.PopFront()
	}
	idx, seed2, ok := bl.BlockReferenceToBlockIndex(ref)
	if i < pops {
		vnd.Cover("h5-released")
		vnd.Assert(!ok, "a reference into a released block still resolves")
		return
	}
	vnd.Cover("h5-alive")
	vnd.Assert(ok, "a reference into a block that is still in the list does not resolve")
	vnd.Assert(idx == i-pops, "a reference resolves to another block than the one it was created for")
	if ok && idx >= 0 && idx < len(bl.blocks) {
		vnd.Assert(bl.blocks[idx].block == Block(phys[i]), "a reference resolves to another physical block")
	}
	vnd.Assert(seed2 == seed, "a reference resolves with another hash seed than the one its record was written with (the record's checksum would fail)")
	if ref.BlocksFromLast > 0 {
		vnd.Cover("h5-not-the-newest-block")
	}
}

// Verif_C06_H6_PersistentReferences: the persistent block list as the index's reference
// resolver: the finalizer's epoch bookkeeping decides which entries PopFront invalidates
// ("releasing a block removes exactly the entries that point into it").
func Verif_C06_H6_PersistentReferences() { verifScenarioPBLFinalizer() }
