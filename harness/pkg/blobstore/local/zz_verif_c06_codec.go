//go:build verif

package local

// C06 H4 = C02 P4: both record array back ends; see zz_verif_c02_checksum.go
// (the file is included for C02 only, so C06 has thin copies of the entry points
// through the shared helpers in zz_verif_common_records.go).

func Verif_C06_H4_RecordRoundTrip() { verifScenarioRecordRoundTrip() }

// H4b: the codec on a grid of concrete records (see verifScenarioRecordRoundTripGrid).
func Verif_C06_H4b_RecordRoundTripGrid() { verifScenarioRecordRoundTripGrid() }
