//go:build verif

package local

import (
	vnd "github.com/buildbarn/bb-storage/internal/verifnd"
)

// verifTable is a LocationRecordArray whose complete contents are chosen by
// the harness: an arbitrary table. Invalid slots model records whose block
// reference no longer resolves.
type verifTable struct {
	valid []bool
	rec   []LocationRecord
	puts  int
}

func (t *verifTable) Get(i int) (LocationRecord, error) {
	if !t.valid[i] {
		return LocationRecord{}, ErrLocationRecordInvalid
	}
	return t.rec[i], nil
}

func (t *verifTable) Put(i int, r LocationRecord) error {
	t.valid[i] = true
	t.rec[i] = r
	t.puts++
	return nil
}

// verifSymKey returns a key drawn from a space of 65536 keys: two symbolic
// bytes, the rest zero. The index treats keys as opaque (equality + hash), and
// the hash is uninterpreted in these harnesses, so this loses no behaviour for
// up to 65536 distinct keys.
func verifSymKey() Key {
	var k Key
	b := vnd.Bytes(2)
	k[0], k[17] = b[0], b[1]
	return k
}

func verifSymLocation(maxBlock int) Location {
	l := Location{BlockIndex: vnd.Int(0, maxBlock), OffsetBytes: vnd.I64(), SizeBytes: vnd.I64()}
	vnd.Assume(l.OffsetBytes >= 0)
	vnd.Assume(l.SizeBytes >= 0)
	return l
}

// verifKeyWords packs a key into four words (argument of the uninterpreted hash).
func verifKeyWords(k *Key) (w [4]uint64) {
	for i := 0; i < len(k); i++ {
		w[i/8] |= uint64(k[i]) << (8 * uint(i%8))
	}
	return
}

// verifKeyWord folds a key into one word (injective on keys built by verifSymKey).
func verifKeyWord(k *Key) uint64 {
	w := verifKeyWords(k)
	return w[0] ^ w[1]<<1 ^ w[2]<<2 ^ w[3]<<3
}

// verifNativeHashHook: see native_hooks.json — consulted by the natively compiled
// LocationRecordKey.Hash (overlay) before the real computation. Nil outside C06.
var verifNativeHashHook func(k *LocationRecordKey, hashInitialization uint64) (uint64, bool)
