//go:build verif

package local

import (
	vnd "github.com/buildbarn/bb-storage/internal/verifnd"
	"github.com/buildbarn/bb-storage/pkg/blobstore/buffer"
	"github.com/buildbarn/bb-storage/pkg/digest"
	"github.com/prometheus/client_golang/prometheus"

	"google.golang.org/grpc/codes"
	"google.golang.org/grpc/status"
)

// verifTable is a LocationRecordArray whose complete contents are chosen by
// the harness: an arbitrary table. Invalid slots model records whose block
// reference no longer resolves.
type verifTable struct {
	valid []bool
	rec   []LocationRecord
	puts  int
}

func (t *verifTable) Get(i int) (LocationRecord, error) {
	if !t.valid[i] {
		return LocationRecord{}, ErrLocationRecordInvalid
	}
	return t.rec[i], nil
}

func (t *verifTable) Put(i int, r LocationRecord) error {
	t.valid[i] = true
	t.rec[i] = r
	t.puts++
	return nil
}

// verifSymKey returns a key drawn from a space of 65536 keys: two symbolic
// bytes, the rest zero. The index treats keys as opaque (equality + hash), and
// the hash is uninterpreted in these harnesses, so this loses no behaviour for
// up to 65536 distinct keys.
func verifSymKey() Key {
	var k Key
	b := vnd.Bytes(2)
	k[0], k[17] = b[0], b[1]
	return k
}

func verifSymLocation(maxBlock int) Location {
	l := Location{BlockIndex: vnd.Int(0, maxBlock), OffsetBytes: vnd.I64(), SizeBytes: vnd.I64()}
	vnd.Assume(l.OffsetBytes >= 0)
	vnd.Assume(l.SizeBytes >= 0)
	return l
}

// verifKeyWords packs a key into four words (argument of the uninterpreted hash).
func verifKeyWords(k *Key) (w [4]uint64) {
	for i := 0; i < len(k); i++ {
		w[i/8] |= uint64(k[i]) << (8 * uint(i%8))
	}
	return
}

// verifKeyWord folds a key into one word (injective on keys built by verifSymKey).
func verifKeyWord(k *Key) uint64 {
	w := verifKeyWords(k)
	return w[0] ^ w[1]<<1 ^ w[2]<<2 ^ w[3]<<3
}

// verifNativeHashHook: see native_hooks.json — consulted by the natively compiled
// LocationRecordKey.Hash (overlay) before the real computation. Nil outside C06.
var verifNativeHashHook func(k *LocationRecordKey, hashInitialization uint64) (uint64, bool)

// ---------------------------------------------------------------------------
// verifBlockList: a BlockList stub for checking OldCurrentNewLocationBlobMap in
// isolation. Blocks are identified by an absolute number (released + index);
// BlockReference.EpochID carries that absolute number. Free space per block is
// chosen by the harness (symbolic); blocks appended by PushBack are empty.
// ---------------------------------------------------------------------------
type verifBlockList struct {
	blockSize   int64
	space       []int64 // free bytes per block currently in the list
	released    int     // blocks popped so far
	pops        int
	pushes      int
	failPush    bool // when set (symbolic), the next PushBack fails
	puts        []verifListPut
	getCalls    int
	lastCB      func(bool) // integrity callback of the most recent Get
	finalizeErr bool       // Put finalizer reports failure
}

type verifListPut struct {
	index int
	size  int64
}

func (bl *verifBlockList) BlockReferenceToBlockIndex(r BlockReference) (int, uint64, bool) {
	idx := int(r.EpochID) - bl.released
	if idx < 0 || idx >= len(bl.space) || r.BlocksFromLast != 0 {
		return 0, 0, false
	}
	return idx, 0, true
}

func (bl *verifBlockList) BlockIndexToBlockReference(blockIndex int) (BlockReference, uint64) {
	return BlockReference{EpochID: uint32(bl.released + blockIndex)}, 0
}

func (bl *verifBlockList) PopFront() {
	if len(bl.space) == 0 {
		vnd.Unreachable("PopFront on an empty block list")
	}
	bl.space = bl.space[1:]
	bl.released++
	bl.pops++
}

func (bl *verifBlockList) PushBack() error {
	if bl.failPush {
		return verifErrNoSpace
	}
	bl.space = append(bl.space, bl.blockSize)
	bl.pushes++
	return nil
}

func (bl *verifBlockList) Get(index int, d digest.Digest, offsetBytes, sizeBytes int64, cb buffer.DataIntegrityCallback) buffer.Buffer {
	if index < 0 || index >= len(bl.space) {
		vnd.Unreachable("BlockList.Get with an index outside the list")
	}
	bl.getCalls++
	bl.lastCB = cb
	return buffer.NewBufferFromError(verifErrNoSpace)
}

func (bl *verifBlockList) HasSpace(index int, sizeBytes int64) bool {
	if index < 0 || index >= len(bl.space) {
		vnd.Unreachable("BlockList.HasSpace with an index outside the list")
	}
	return bl.space[index] >= sizeBytes
}

func (bl *verifBlockList) Put(index int, sizeBytes int64) BlockListPutWriter {
	if index < 0 || index >= len(bl.space) {
		vnd.Unreachable("BlockList.Put with an index outside the list")
	}
	if bl.space[index] < sizeBytes {
		vnd.Unreachable("BlockList.Put into a block without space")
	}
	off := bl.blockSize - bl.space[index]
	bl.space[index] -= sizeBytes
	bl.puts = append(bl.puts, verifListPut{index: index, size: sizeBytes})
	return func(b buffer.Buffer) BlockPutFinalizer {
		b.Discard()
		return func() (int64, error) {
			if bl.finalizeErr {
				return 0, verifErrNoSpace
			}
			return off, nil
		}
	}
}

var verifErrNoSpace = status.Error(codes.Unavailable, "verif: injected block list failure")

type verifErrorLogger struct{ n int }

func (l *verifErrorLogger) Log(err error) { l.n++ }

// verifOCN is an OldCurrentNewLocationBlobMap in an arbitrary valid state over a stub block list.
type verifOCN struct {
	lbm     *OldCurrentNewLocationBlobMap
	bl      *verifBlockList
	logger  *verifErrorLogger
	O, C, N int
	mutable bool
}

// verifNewOCN builds the state directly (in-package), constrained only by the
// representation invariant: counts non-negative, len(old) <= O, current <= C,
// new <= N, list length = old+current+new, allocation cursor inside `new`.
func verifNewOCN(maxO int) *verifOCN { return verifNewOCNProfile(maxO, true) }

// verifNewOCNProfile with full=false fixes what the quarantine lemmas do not
// depend on (growth policy parameters, allocation cursor) to keep paths few.
func verifNewOCNProfile(maxO int, full bool) *verifOCN {
	x := &verifOCN{}
	x.O = vnd.Choose(maxO + 1)
	if full {
		x.C = vnd.Choose(3)
		x.N = 1 + vnd.Choose(2)
		x.mutable = vnd.Choose(2) == 1
	} else {
		x.C = 1
		x.N = 1 + vnd.Choose(2)
		x.mutable = vnd.Choose(2) == 1
	}
	old := vnd.Choose(x.O + 1)
	cur := vnd.Choose(x.C + 1)
	nw := vnd.Choose(x.N + 1)
	const blockSize = 64
	x.bl = &verifBlockList{blockSize: blockSize}
	for i := 0; i < old+cur+nw; i++ {
		free := int64(vnd.Int(0, blockSize))
		x.bl.space = append(x.bl.space, free)
	}
	x.bl.released = vnd.Int(0, 1000)
	x.logger = &verifErrorLogger{}
	var policy BlockListGrowthPolicy
	if x.mutable {
		policy = NewMutableBlockListGrowthPolicy(x.C)
	} else {
		policy = NewImmutableBlockListGrowthPolicy(x.C, x.N)
	}
	lbm := &OldCurrentNewLocationBlobMap{
		blockList:                        x.bl,
		blockListGrowthPolicy:            policy,
		errorLogger:                      x.logger,
		blockSizeBytes:                   blockSize,
		desiredOldBlocksCount:            x.O,
		desiredNewBlocksCount:            x.N,
		oldBlocks:                        make([]oldBlockState, old),
		currentBlocks:                    cur,
		newBlocks:                        nw,
		totalBlocksReleased:              uint64(x.bl.released),
		lastRemovedOldBlockInsertionTime: verifGauge{},
	}
	lbm.totalBlocksToBeReleased.Store(uint64(x.bl.released))
	lbm.allocationBlockIndex = -1
	if nw > 0 && full {
		// cursor == -1 only right after a reset, which also zeroes the attempts
		lbm.allocationBlockIndex = vnd.Choose(nw+1) - 1
		if lbm.allocationBlockIndex >= 0 {
			lbm.allocationAttemptsRemaining = vnd.Choose(3)
		}
	}
	x.lbm = lbm
	return x
}

type verifGauge struct{ prometheus.Gauge }

func (verifGauge) Set(float64) {}
