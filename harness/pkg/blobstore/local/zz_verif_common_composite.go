//go:build verif

package local

import (
	"context"

	remoteexecution "github.com/bazelbuild/remote-apis/build/bazel/remote/execution/v2"
	vnd "github.com/buildbarn/bb-storage/internal/verifnd"
	"github.com/buildbarn/bb-storage/pkg/blobstore/buffer"
	"github.com/buildbarn/bb-storage/pkg/blobstore/slicing"
	"github.com/buildbarn/bb-storage/pkg/digest"
)

// ---------------------------------------------------------------------------
// Scenario: flatBlobAccess.GetFromComposite over the scenario stubs, with a
// block list that may ROTATE (an allocation - the read's own refresh, or an
// upload by another request while the lock is released for slicing - may
// release the oldest block, which shifts every relative block index by one).
// Index answers and index writes are stamped with the number of rotations that
// had happened, so the oracle compares ABSOLUTE positions.
// ---------------------------------------------------------------------------

var (
	verifChildData   = verifObjData[1:]
	verifChildDigest = func() digest.Digest {
		g := digest.MustNewFunction("", remoteexecution.DigestFunction_MD5).NewGenerator(1)
		g.Write(verifObjData[1:])
		return g.Sum()
	}()
	verifSiblingDigest = func() digest.Digest {
		g := digest.MustNewFunction("", remoteexecution.DigestFunction_MD5).NewGenerator(1)
		g.Write(verifObjData[:1])
		return g.Sum()
	}()
)

type verifSlicer struct {
	f          *verifFlat
	calls      int
	interfered bool
	failed     bool
	slices     []slicing.BlobSlice
	child      *verifSource // backs the child buffer handed back to the store (counts Close calls)
}

// Slice consumes the parent, and - being called without the store's lock held,
// as any I/O is - lets another request allocate space in the meantime.
func (s *verifSlicer) Slice(b buffer.Buffer, childDigest digest.Digest) (buffer.Buffer, []slicing.BlobSlice) {
	s.calls++
	data, err := b.ToByteSlice(100)
	if vnd.Choose(2) == 1 && s.f.lock.TryLock() {
		// a concurrent upload allocates space and the block list rotates
		s.f.lbm.epoch++
		s.f.lbm.rot++
		s.interfered = true
		s.f.lock.Unlock()
	}
	if err != nil {
		s.failed = true
		return buffer.NewBufferFromError(err), nil
	}
	vnd.Assert(string(data) == string(verifObjData), "the slicer was handed bytes other than the parent's")
	// two slices: the sibling at [0,1) and the requested child at [1,2)
	s.slices = []slicing.BlobSlice{
		{Digest: verifSiblingDigest, OffsetBytes: 0, SizeBytes: 1},
		{Digest: childDigest, OffsetBytes: 1, SizeBytes: 1},
	}
	// The child is handed back as a stream-backed buffer, so that the store's
	// obligation to consume or discard it exactly once is observable.
	s.child = &verifSource{data: append([]byte(nil), data[1:2]...)}
	return buffer.NewCASBufferFromReader(childDigest, s.child, buffer.UserProvided), s.slices
}

func verifScenarioFlatComposite() {
	f := verifNewFlat()
	f.klm.world = f.lbm
	f.lbm.rotates = true
	f.lbm.objects = map[digest.Digest][]byte{verifChildDigest: verifChildData, verifSiblingDigest: verifObjData[:1]}
	ctx := context.Background()
	sl := &verifSlicer{f: f}
	b := f.ba.GetFromComposite(ctx, verifObjDigest, verifChildDigest, sl)
	how := vnd.Choose(3)
	data, err := verifConsume(b, how)
	parentKey := f.ba.getKey(verifObjDigest)
	childKey := f.ba.getKey(verifChildDigest)
	siblingKey := f.ba.getKey(verifSiblingDigest)
	verifAllClosedOnce(f.lbm)
	if sl.child != nil {
		vnd.Cover("composite-child-from-slicer")
		vnd.Assert(sl.child.closes == 1, "the child buffer returned by the slicer was not consumed or discarded exactly once")
	}
	for _, ok := range f.lbm.integrity {
		vnd.Assert(ok, "integrity callback reported corruption on an uncorrupted medium")
	}
	if err == nil {
		vnd.Cover("composite-ok")
		vnd.Assert(string(data) == string(verifChildData), "a composite read completed with bytes other than the designated slice")
	} else {
		vnd.Cover("composite-failed")
	}
	vnd.Assert(sl.calls <= 1, "the parent was sliced more than once for one read")

	// Index writes: the parent's key only with the location of a finalizer that succeeded...
	okPuts := 0
	for _, p := range f.lbm.puts {
		if p.finalOK {
			okPuts++
		}
	}
	parentWrites, sliceWrites := 0, 0
	for _, w := range f.klm.puts {
		if w.key == parentKey {
			parentWrites++
			found := false
			for _, p := range f.lbm.puts {
				if p.finalOK && p.loc == w.loc && p.finalRot == w.rot {
					found = true
				}
			}
			vnd.Assert(found, "the parent's index entry does not carry the location of a finalizer that succeeded")
			continue
		}
		// ... and a slice's key only with that slice's bytes: the same ABSOLUTE block as a
		// place the parent is known to be at (an index answer for the parent's key, or the
		// refreshed copy), at the parent's offset plus the slice's offset, of the slice's size.
		sliceWrites++
		var slice *slicing.BlobSlice
		for i := range sl.slices {
			k := f.ba.getKey(sl.slices[i].Digest)
			if w.key == k {
				slice = &sl.slices[i]
			}
		}
		if slice == nil {
			vnd.Unreachable("index written under a key that is neither the parent's nor a slice's")
			continue
		}
		vnd.Assert(w.loc.BlockIndex >= 0, "a slice's index entry has a negative block index")
		matches := false
		for _, g := range f.klm.history {
			if g.key == parentKey && g.kind == 0 {
				matches = vnd.Or(matches, vnd.And(g.rot+g.loc.BlockIndex == w.rot+w.loc.BlockIndex, g.loc.OffsetBytes+slice.OffsetBytes == w.loc.OffsetBytes))
			}
		}
		for _, p := range f.lbm.puts {
			if p.finalOK {
				matches = vnd.Or(matches, vnd.And(p.finalRot+p.loc.BlockIndex == w.rot+w.loc.BlockIndex, p.loc.OffsetBytes+slice.OffsetBytes == w.loc.OffsetBytes))
			}
		}
		vnd.Assert(matches, "a slice's index entry does not point at that slice of the parent (block index or offset is not the parent's at the time of writing)")
		vnd.Assert(w.loc.SizeBytes == slice.SizeBytes, "a slice's index entry has a size other than the slice's")
	}
	vnd.Assert(parentWrites == okPuts, "parent index entry written although no finalizer succeeded (or not written although one did)")
	if sl.calls == 1 && err == nil {
		vnd.Cover("composite-sliced")
		vnd.Assert(sliceWrites == len(sl.slices), "a sliced read succeeded without an index entry per slice")
		if sl.interfered {
			vnd.Cover("composite-sliced-during-rotation")
		}
	}
	if sl.calls == 0 && err == nil {
		// fast path: the bytes came from the getter obtained for the index's answer for the child
		vnd.Cover("composite-child-present")
		n := len(f.lbm.getLocs)
		vnd.Assert(n > 0 && f.lbm.getCalls[n-1] == verifChildDigest, "the child was not read through a getter for the child's digest")
		var last *verifKLMGet
		for i := range f.klm.history {
			if f.klm.history[i].key == childKey && f.klm.history[i].kind == 0 {
				last = &f.klm.history[i]
			}
		}
		vnd.Assert(last != nil && n > 0 && f.lbm.getLocs[n-1] == last.loc, "the child was read from a location other than the index's answer for it")
	}
	if okPuts > 0 {
		vnd.Cover("composite-refreshed")
	}
	_ = siblingKey
	vnd.Observe("composite", uint64(sl.calls), uint64(len(f.lbm.puts)), uint64(len(f.klm.puts)))
}
