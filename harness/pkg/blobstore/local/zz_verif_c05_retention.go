//go:build verif

package local

import (
	vnd "github.com/buildbarn/bb-storage/internal/verifnd"
)

// Verif_C05_T1_AllocationStep (inductive step): an object that was touched sits
// in a block at list index i >= len(old) (T2 establishes that). Ghost state: i
// and s = number of blocks allocated (PushBack) since the touch, with the
// potential invariant  i >= 0  and  (i - len(old)) + s >= 0,  s <= O.
// One real findBlockWithSpace of an arbitrary size from an arbitrary valid map
// state, with no corruption pending: the potential invariant is preserved, and
// while s' <= O the object's block is still in the list (i' >= 0) — hence the
// object survives old_blocks further block allocations, in the fill phase and
// in steady state, for both growth policies.
func Verif_C05_T1_AllocationStep() {
	x := verifNewOCN(2)
	lbm := x.lbm
	L := len(x.bl.space)
	if L == 0 {
		vnd.Cover("empty-list")
		// nothing can have been touched yet; still run the allocation for totality
	}
	i := vnd.Int(0, 5)
	s := vnd.Int(0, 2)
	vnd.Assume(i < L || L == 0)
	vnd.Assume(s <= x.O)
	old0 := len(lbm.oldBlocks)
	vnd.Assume(i-old0+s >= 0)
	size := int64(vnd.Int(0, 80))

	idx, err := lbm.findBlockWithSpace(size)
	if err != nil {
		vnd.Cover("rejected")
		vnd.Assert(size > lbm.blockSizeBytes, "allocation of a blob that fits a block failed although the block list did not fail")
		vnd.Assert(x.bl.pops == 0 && x.bl.pushes == 0, "rejected allocation modified the block list")
		return
	}
	vnd.Cover("allocated")
	i2 := i - x.bl.pops
	s2 := s + x.bl.pushes
	old2 := len(lbm.oldBlocks)
	if x.bl.pops > 0 {
		vnd.Cover("rotated")
	}
	if L > 0 {
		vnd.Assert(i2-old2+s2 >= 0, "potential (index - #old + allocations) decreased by more than the number of allocated blocks")
		vnd.Assert(vnd.Implies(s2 <= x.O, i2 >= 0), "a touched object's block was released before old_blocks further blocks had been allocated")
	}
	// structural post-conditions of the allocator
	vnd.Assert(old2 <= x.O, "more old blocks than configured after an allocation")
	vnd.Assert(old2+lbm.currentBlocks+lbm.newBlocks == len(x.bl.space), "old+current+new does not equal the length of the block list")
	vnd.Assert(lbm.newBlocks >= 1, "no new block after an allocation")
	vnd.Assert(idx >= old2+lbm.currentBlocks && idx < len(x.bl.space), "allocation outside the new blocks")
	vnd.Assert(x.bl.space[idx] >= size, "allocated block lacks space")
	vnd.Assert(lbm.totalBlocksReleased == uint64(x.bl.released), "released counter out of step with the block list")
	vnd.Observe("alloc", uint64(idx), uint64(x.bl.pops), uint64(x.bl.pushes))
}

// Verif_C05_T1b_NeedsRefreshVerdict: Get on the location map reports
// needs-refresh exactly for locations in old blocks (index < len(old)).
func Verif_C05_T1b_NeedsRefreshVerdict() {
	x := verifNewOCN(2)
	L := len(x.bl.space)
	if L == 0 {
		vnd.Cover("empty")
		return
	}
	idx := vnd.Choose(L)
	_, needsRefresh := x.lbm.Get(Location{BlockIndex: idx, OffsetBytes: 0, SizeBytes: 1})
	vnd.Assert(needsRefresh == (idx < len(x.lbm.oldBlocks)), "needs-refresh verdict is not 'the block is an old block'")
	if needsRefresh {
		vnd.Cover("old")
	} else {
		vnd.Cover("fresh")
	}
}

// T2 / T3 through the real access layers over a quiescent index and location map.
func Verif_C05_T2_FlatGetTouch()         { verifScenarioFlatTouch(false) }
func Verif_C05_T2_FlatFindMissingTouch() { verifScenarioFlatTouch(true) }
func Verif_C05_T2_HierGetTouch()         { verifScenarioHierTouch(false) }
func Verif_C05_T2_HierFindMissingTouch() { verifScenarioHierTouch(true) }

// T2 over a multi-digest existence check: every refresh a FindMissing performs on
// behalf of one object touches that object's own entries with that object's bytes.
func Verif_C05_T2_HierFindMissingTwoObjects() { verifScenarioHierFindMissingTwo() }

// T3: an existence check answers "present" only for what the index still holds when the
// check completes: an object that vanished between the scan and the refresh pass (rotated
// out by the refresh of another object of the same request) is reported missing.
func Verif_C05_T3_FlatFindMissingOutcomes() { verifScenarioFlatFindMissing() }

// T4/T5: a refresh is only worth something if the copy it made stays reachable. The copy's
// index entry carries what the put finalizers report: (T4) the persistent block list's
// finalizer leaves the blob in an epoch whose last block is at or after the blob's block
// (otherwise the entry's reference does not resolve and the object is gone at the next
// read); (T5) the location map's finalizer reports the very block the bytes went to,
// whatever rotations happened during the copy.
func Verif_C05_T4_RefreshedCopyResolves()  { verifScenarioPBLFinalizer() }
func Verif_C05_T5_FinalizerUnderRotation() { verifScenarioFinalizerUnderRotation() }
