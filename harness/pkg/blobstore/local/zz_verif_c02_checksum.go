//go:build verif

package local

import (
	vnd "github.com/buildbarn/bb-storage/internal/verifnd"
)

// ---------------------------------------------------------------------------
// C02 P4 / C06 H4: on-disk index records.
//
// The checksum is a 52-fold composition of h <- (h XOR b) * p. No solver decides
// injectivity of the whole chain directly (probed: unknown at 60 s for 4 steps),
// so it is decided by structural peeling:
//   (K) the real computeChecksumForRecord equals, as a term, the reference fold
//       of the one-step function over exactly bytes [6,58) starting from the
//       seed (identical computations hash-cons to the same term; a different
//       range, constant or start value makes this an equality of two 52-step
//       chains, which the solver does not finish: inconclusive, never a pass);
//   (L) one step is injective in h for fixed b, and injective in b for fixed h
//       (solver, instant).
// (K)+(L) give by induction: a record read under a different seed, or with any
// single covered byte changed, has a different checksum. The induction itself
// is this comment, not a machine-checked step.
// ---------------------------------------------------------------------------

const verifFNVPrime = 1099511628211

func verifStep(h uint64, b byte) uint64 { return (h ^ uint64(b)) * verifFNVPrime }

func Verif_C02_P4_ChecksumIsSeededChain() {
	var rec [BlockDeviceBackedLocationRecordSize]byte
	copy(rec[:], vnd.Bytes(BlockDeviceBackedLocationRecordSize))
	seed := vnd.U64()
	want := seed
	for i := 6; i < 58; i++ {
		want = verifStep(want, rec[i])
	}
	got := computeChecksumForRecord(&rec, seed)
	vnd.Assert(got == want, "record checksum is not the seeded chain over key, attempt, offset and size (bytes 6..57)")
	vnd.Assert(BlockDeviceBackedLocationRecordSize == 66, "record layout changed: checksum coverage must be re-derived")
	vnd.Cover("chain")
}

func Verif_C02_P4_StepInjective() {
	a, c := vnd.U64(), vnd.U64()
	b, b2 := vnd.U8(), vnd.U8()
	vnd.Assert(vnd.Implies(verifStep(a, b) == verifStep(c, b), a == c), "one checksum step is not injective in the running hash")
	vnd.Assert(vnd.Implies(verifStep(a, b) == verifStep(a, b2), b == b2), "one checksum step is not injective in the data byte")
	vnd.Cover("step")
}

// Verif_C02_P4_RecordRoundTrip: Put then Get returns the same record for every
// record, reference, seed and slot; neighbouring slots are untouched; a record
// whose reference no longer resolves is invalid; a slot that was never written
// (all zero) is invalid unless its checksum happens to match (not asserted).
func Verif_C02_P4_RecordRoundTrip() { verifScenarioRecordRoundTrip() }

func Verif_C02_P4_RecordRoundTripGrid() { verifScenarioRecordRoundTripGrid() }
