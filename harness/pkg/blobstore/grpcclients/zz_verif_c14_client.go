//go:build verif

package grpcclients

import (
	"context"

	remoteexecution "github.com/bazelbuild/remote-apis/build/bazel/remote/execution/v2"
	vnd "github.com/buildbarn/bb-storage/internal/verifnd"
	"github.com/buildbarn/bb-storage/internal/verifstub"
	"github.com/buildbarn/bb-storage/pkg/blobstore/grpcservers"
	"github.com/buildbarn/bb-storage/pkg/digest"

	"google.golang.org/grpc"
)

// verifLoopbackCAS hands the client's FindMissingBlobs requests straight to the
// repository's own CAS server over a model backend ("connected back to back").
type verifLoopbackCAS struct {
	remoteexecution.ContentAddressableStorageClient
	server remoteexecution.ContentAddressableStorageServer
	calls  int
}

func (c *verifLoopbackCAS) FindMissingBlobs(ctx context.Context, in *remoteexecution.FindMissingBlobsRequest, opts ...grpc.CallOption) (*remoteexecution.FindMissingBlobsResponse, error) {
	c.calls++
	return c.server.FindMissingBlobs(ctx, in)
}

// Verif_C14_B6_ClientServerFindMissing: the CAS client's FindMissing connected back
// to back with the CAS server over a model backend behaves like the backend: for a
// request that spans two instance names (the client issues one RPC per instance
// name / digest function, iterating a Go map - every iteration order is explored)
// it returns exactly the digests the backend lacks, in the caller's names, and a
// backend failure fails the call.
func Verif_C14_B6_ClientServerFindMissing() {
	vnd.ExploreMapOrders(true)
	ctx := context.Background()
	objsA := verifstub.Universe("", 2)
	objsB := verifstub.Universe("some/instance", 2)
	backend := verifstub.NewModel("backend", objsA)
	failing := backend.FailFindMissing
	loop := &verifLoopbackCAS{server: grpcservers.NewContentAddressableStorageServer(backend, 1<<20)}
	sb := digest.NewSetBuilder(4)
	var asked []digest.Digest
	for i := 0; i < 2; i++ {
		if vnd.Choose(2) == 1 {
			sb.Add(objsA[i].Digest)
			asked = append(asked, objsA[i].Digest)
		}
		if vnd.Choose(2) == 1 {
			sb.Add(objsB[i].Digest)
			asked = append(asked, objsB[i].Digest)
		}
	}
	missing, err := findMissingBlobsInternal(ctx, sb.Build(), loop)
	if len(asked) == 0 {
		vnd.Cover("b6-empty-request")
		vnd.Assert(err == nil && missing.Empty(), "an empty existence check did not succeed with an empty answer")
		return
	}
	if failing {
		vnd.Cover("b6-backend-fails")
		vnd.Assert(err != nil, "a failing backend was answered with success")
		return
	}
	vnd.Cover("b6-ok")
	vnd.Assert(err == nil, "existence check failed although the backend works")
	for _, d := range asked {
		absent := !backend.Present[backend.Index(d)]
		reported := false
		for _, x := range missing.Items() {
			if x == d {
				reported = true
			}
		}
		vnd.Assert(reported == absent, "client and server back to back: FindMissing does not return exactly what the backend lacks (in the caller's instance names)")
	}
	vnd.Assert(missing.Length() <= len(asked), "FindMissing invented digests")
	if len(asked) == 4 {
		vnd.Cover("b6-two-instance-names")
	}
}
