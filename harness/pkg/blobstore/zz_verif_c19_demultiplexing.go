//go:build verif

package blobstore

import (
	"context"

	remoteexecution "github.com/bazelbuild/remote-apis/build/bazel/remote/execution/v2"
	vnd "github.com/buildbarn/bb-storage/internal/verifnd"
	"github.com/buildbarn/bb-storage/internal/verifstub"
	"github.com/buildbarn/bb-storage/pkg/blobstore/buffer"
	"github.com/buildbarn/bb-storage/pkg/digest"

	"google.golang.org/grpc/codes"
	"google.golang.org/grpc/status"
)

// ---- oracle: routing computed on strings with a component-boundary test ----

// verifC19IsPrefix: p is a component-wise prefix of q.
func verifC19IsPrefix(p, q string) bool {
	if p == "" || p == q {
		return true
	}
	return len(q) > len(p) && q[:len(p)] == p && q[len(p)] == '/'
}

// verifC19Rewrite: q with its prefix p replaced by add.
func verifC19Rewrite(p, add, q string) string {
	rest := q[len(p):]
	if len(rest) > 0 && rest[0] == '/' {
		rest = rest[1:]
	}
	if add == "" {
		return rest
	}
	if rest == "" {
		return add
	}
	return add + "/" + rest
}

// verifC19Backend is a model backend that also records GetCapabilities.
type verifC19Backend struct {
	*verifstub.Model
	caps []digest.InstanceName
}

func (b *verifC19Backend) GetCapabilities(ctx context.Context, instanceName digest.InstanceName) (*remoteexecution.ServerCapabilities, error) {
	b.caps = append(b.caps, instanceName)
	return b.Model.GetCapabilities(ctx, instanceName)
}

// verifC19CloseCounter is a reader whose Close calls are counted, so that the
// release of an upload's buffer is observable.
type verifC19CloseCounter struct {
	data   []byte
	pos    int
	closes int
}

func (c *verifC19CloseCounter) Read(p []byte) (int, error) {
	n := copy(p, c.data[c.pos:])
	c.pos += n
	if c.pos == len(c.data) {
		return n, ioEOF
	}
	return n, nil
}
func (c *verifC19CloseCounter) Close() error { c.closes++; return nil }

// registered prefixes (includes the empty prefix and "ab", a string- but not
// component-prefix relative of "a/b") and two rewrite tables: identity, strip,
// insert, lengthen, shorten, and a rewrite onto another registered prefix.
var verifC19Prefixes = []string{"", "a", "a/b", "ab"}
var verifC19AddPrefixes = [][]string{
	{"", "x", "", "a/b"},
	{"x", "a", "x/y/z", ""},
}

// caller-side names
var verifC19CallerNames = []string{"", "a", "a/b", "a/b/c", "ab", "a/bc", "b", "ab/c/d"}

type verifC19Demux struct {
	member   []bool
	add      []string
	backends []*verifC19Backend // nil when the prefix is not registered
	ba       BlobAccess
	objs     [][]verifstub.Object // per caller name: the universe under that name
	nObjects int
}

func verifC19MustName(s string) digest.InstanceName {
	n, err := digest.NewInstanceName(s)
	vnd.Assert(err == nil, "valid instance name rejected")
	return n
}

// verifC19NewDemux builds the composite the way pkg/blobstore/configuration
// does: real trie, real patchers, one backend per registered prefix.
func verifC19NewDemux(mask, table, nObjects int) *verifC19Demux {
	k := len(verifC19Prefixes)
	dm := &verifC19Demux{member: make([]bool, k), add: verifC19AddPrefixes[table], backends: make([]*verifC19Backend, k), nObjects: nObjects}
	trie := digest.NewInstanceNameTrie()
	type info struct {
		backend BlobAccess
		name    string
		patcher digest.InstanceNamePatcher
	}
	var infos []info
	universe := verifstub.Universe("", nObjects)
	for i, p := range verifC19Prefixes {
		if mask&(1<<uint(i)) == 0 {
			continue
		}
		dm.member[i] = true
		b := &verifC19Backend{Model: verifstub.NewReliableModel("backend-"+p, universe)}
		dm.backends[i] = b
		match := verifC19MustName(p)
		trie.Set(match, len(infos))
		infos = append(infos, info{backend: b, name: match.String(), patcher: digest.NewInstanceNamePatcher(match, verifC19MustName(dm.add[i]))})
	}
	dm.ba = NewDemultiplexingBlobAccess(func(i digest.InstanceName) (BlobAccess, string, digest.InstanceNamePatcher, error) {
		idx := trie.GetLongestPrefix(i)
		if idx < 0 {
			return nil, "", digest.NoopInstanceNamePatcher, status.Errorf(codes.InvalidArgument, "Unknown instance name: %#v", i.String())
		}
		return infos[idx].backend, infos[idx].name, infos[idx].patcher, nil
	})
	for _, n := range verifC19CallerNames {
		dm.objs = append(dm.objs, verifstub.Universe(n, nObjects))
	}
	return dm
}

// route returns the oracle's backend index for caller name q (or -1) and the
// name that backend must see.
func (dm *verifC19Demux) route(q string) (int, string) {
	best := -1
	for i, p := range verifC19Prefixes {
		if dm.member[i] && verifC19IsPrefix(p, q) && (best < 0 || len(p) > len(verifC19Prefixes[best])) {
			best = i
		}
	}
	if best < 0 {
		return -1, ""
	}
	return best, verifC19Rewrite(verifC19Prefixes[best], dm.add[best], q)
}

func (dm *verifC19Demux) totalCalls() int {
	n := 0
	for _, b := range dm.backends {
		if b != nil {
			n += len(b.Calls) + len(b.caps)
		}
	}
	return n
}

// expectOnlyCall asserts that since `before` exactly one call was made, to
// backend bi, of kind op, carrying exactly the digests want.
func (dm *verifC19Demux) expectOnlyCall(before int, bi int, op string, want []digest.Digest) {
	vnd.Assert(dm.totalCalls() == before+1, "operation did not reach exactly one backend exactly once")
	b := dm.backends[bi]
	vnd.Assert(len(b.Calls) > 0, "operation did not reach the backend of the longest registered prefix")
	c := b.Calls[len(b.Calls)-1]
	vnd.Assert(c.Op == op, "backend of the longest prefix received a different operation")
	vnd.Assert(len(c.Digests) == len(want), "backend call carries the wrong number of digests")
	for i := range want {
		vnd.Assert(c.Digests[i] == want[i], "backend did not receive the digest under the rewritten instance name")
	}
}

var verifC19DemuxMasksQuick = []int{0b0111, 0b1110, 0b1001, 0b0100, 0b1011, 0b0000}

func verifC19ChooseDemux(nObjects int) *verifC19Demux {
	var mask, table int
	if vnd.Thorough() {
		mask = vnd.Choose(16)
		table = vnd.Choose(2)
	} else {
		mi := vnd.Choose(len(verifC19DemuxMasksQuick))
		mask = verifC19DemuxMasksQuick[mi]
		table = mi % 2
	}
	return verifC19NewDemux(mask, table, nObjects)
}

// Verif_C19_T3_DemuxSingle: Get, GetFromComposite, Put and GetCapabilities for
// every caller name reach exactly the backend registered for the longest
// component-wise prefix, with the digest / name rewritten; results come back
// unchanged; unknown names are rejected without touching any backend and an
// upload's buffer is released exactly once either way.
func Verif_C19_T3_DemuxSingle() {
	ctx := context.Background()
	dm := verifC19ChooseDemux(2)
	universe := verifstub.Universe("", 2)
	op := vnd.Choose(4)
	for qi, q := range verifC19CallerNames {
		bi, rewritten := dm.route(q)
		oi := 0 // quick: one presence bit per backend decides hit or miss
		if vnd.Thorough() {
			oi = qi % 2
		}
		d := dm.objs[qi][oi].Digest
		var want digest.Digest
		if bi >= 0 {
			want = verifstub.Universe(rewritten, 2)[oi].Digest
		}
		before := dm.totalCalls()
		switch op {
		case 0: // Get
			data, err := dm.ba.Get(ctx, d).ToByteSlice(100)
			if bi < 0 {
				vnd.Cover("t3-get-unknown")
				vnd.Assert(status.Code(err) == codes.InvalidArgument, "Get for an unknown instance name was not rejected")
				vnd.Assert(dm.totalCalls() == before, "backend contacted for an unknown instance name")
				continue
			}
			dm.expectOnlyCall(before, bi, "Get", []digest.Digest{want})
			vnd.Assert(vnd.Iff(err == nil, dm.backends[bi].Present[oi]), "Get succeeds although the routed backend lacks the object, or fails although it holds it")
			if err == nil {
				vnd.Cover("t3-get-hit")
				vnd.Assert(string(data) == string(universe[oi].Data), "Get returned other data than the routed backend holds")
			} else {
				vnd.Cover("t3-get-miss")
				vnd.Assert(status.Code(err) == codes.NotFound, "Get of an object the routed backend lacks did not report NotFound")
			}
		case 1: // GetFromComposite
			child := dm.objs[qi][1-oi].Digest
			_, err := dm.ba.GetFromComposite(ctx, d, child, verifSlicer{}).ToByteSlice(100)
			if bi < 0 {
				vnd.Assert(status.Code(err) == codes.InvalidArgument, "GetFromComposite for an unknown instance name was not rejected")
				vnd.Assert(dm.totalCalls() == before, "backend contacted for an unknown instance name")
				continue
			}
			vnd.Cover("t3-composite-routed")
			dm.expectOnlyCall(before, bi, "GetFromComposite", []digest.Digest{want, verifstub.Universe(rewritten, 2)[1-oi].Digest})
		case 2: // Put
			src := &verifC19CloseCounter{data: universe[oi].Data}
			err := dm.ba.Put(ctx, d, buffer.NewCASBufferFromReader(d, src, buffer.UserProvided))
			vnd.Assert(src.closes == 1, "upload buffer not released exactly once")
			if bi < 0 {
				vnd.Cover("t3-put-unknown")
				vnd.Assert(status.Code(err) == codes.InvalidArgument, "Put for an unknown instance name was not rejected")
				vnd.Assert(dm.totalCalls() == before, "backend contacted for an unknown instance name")
				continue
			}
			vnd.Cover("t3-put-routed")
			vnd.Assert(err == nil, "Put of valid content to a known instance name failed")
			dm.expectOnlyCall(before, bi, "Put", []digest.Digest{want})
			vnd.Assert(dm.backends[bi].PutOK > 0, "routed backend did not store the upload")
		case 3: // GetCapabilities
			_, err := dm.ba.GetCapabilities(ctx, verifC19MustName(q))
			if bi < 0 {
				vnd.Assert(status.Code(err) == codes.InvalidArgument, "GetCapabilities for an unknown instance name was not rejected")
				vnd.Assert(dm.totalCalls() == before, "backend contacted for an unknown instance name")
				continue
			}
			vnd.Cover("t3-capabilities-routed")
			vnd.Assert(err == nil, "GetCapabilities for a known instance name failed")
			vnd.Assert(dm.totalCalls() == before+1, "GetCapabilities did not reach exactly one backend")
			caps := dm.backends[bi].caps
			vnd.Assert(len(caps) > 0 && caps[len(caps)-1].String() == rewritten, "GetCapabilities did not reach the longest-prefix backend with the rewritten name")
		}
	}
	vnd.Observe("demux-single", uint64(op), uint64(dm.totalCalls()))
}

// Verif_C19_T3_DemuxFindMissing: FindMissing over digests of all routable
// caller names (several names per backend, several backends) returns exactly
// the union of what the individual backends report missing, expressed in the
// caller's names: no digest lost, none invented, none under a rewritten name.
// Each backend is asked once, for exactly its share under rewritten names. A
// set containing an unknown name is rejected.
func Verif_C19_T3_DemuxFindMissing() {
	ctx := context.Background()
	dm := verifC19ChooseDemux(2)
	withUnknown := vnd.Choose(2) == 1
	sb := digest.NewSetBuilder(0)
	type item struct {
		d, rewritten digest.Digest
		bi, oi       int
	}
	var items []item
	perBackend := make([]int, len(verifC19Prefixes))
	unknown := 0
	for qi, q := range verifC19CallerNames {
		bi, rewritten := dm.route(q)
		if bi < 0 {
			if withUnknown && unknown == 0 {
				sb.Add(dm.objs[qi][0].Digest)
				unknown++
			}
			continue
		}
		// object qi%2 under every name, both objects under the deepest names
		for oi := 0; oi < 2; oi++ {
			if oi == qi%2 || q == "a/b/c" || q == "ab/c/d" {
				d := dm.objs[qi][oi].Digest
				sb.Add(d)
				items = append(items, item{d, verifstub.Universe(rewritten, 2)[oi].Digest, bi, oi})
				perBackend[bi]++
			}
		}
	}
	vnd.Assume(!withUnknown || unknown > 0)
	set := sb.Build()
	missing, err := dm.ba.FindMissing(ctx, set)
	if withUnknown {
		vnd.Cover("t3-findmissing-unknown")
		vnd.Assert(status.Code(err) == codes.InvalidArgument, "FindMissing with an unknown instance name was not rejected")
		vnd.Assert(missing.Empty(), "rejected FindMissing returned digests")
		return
	}
	vnd.Assert(err == nil, "FindMissing over known instance names failed")
	// every backend asked exactly once iff it has a share, for exactly its share
	for bi, b := range dm.backends {
		if b == nil {
			continue
		}
		if perBackend[bi] == 0 {
			vnd.Assert(len(b.Calls) == 0, "backend asked although no digest of the set routes to it")
			continue
		}
		vnd.Assert(len(b.Calls) == 1 && b.Calls[0].Op == "FindMissing", "backend with a share of the set not asked exactly once")
		vnd.Assert(len(b.Calls[0].Digests) == perBackend[bi], "backend asked for more or fewer digests than route to it")
	}
	for _, it := range items {
		asked := false
		for _, a := range dm.backends[it.bi].Calls[0].Digests {
			if a == it.rewritten {
				asked = true
			}
		}
		vnd.Assert(asked, "routed backend was not asked for the digest under the rewritten instance name")
	}
	// result == { item : the routed backend lacks the object }, in caller names.
	// (presence bits are symbolic terms: the per-item equivalences are
	// conjoined fork-free and decided by one query)
	got := missing.Items()
	agree := true
	foundCount := 0
	for _, it := range items {
		found := false
		for _, g := range got {
			if g == it.d {
				found = true
			}
		}
		if found {
			foundCount++
		}
		agree = vnd.And(agree, vnd.Iff(found, vnd.Not(dm.backends[it.bi].Present[it.oi])))
	}
	vnd.Assert(agree, "FindMissing result differs from the routed backends' answers for some digest (in the caller's name)")
	vnd.Assert(len(got) == foundCount, "FindMissing returned digests outside the union of the backends' answers (or not in the caller's names)")
	if len(items) > 0 {
		vnd.Cover("t3-findmissing-nonempty")
	}
	if foundCount > 0 && foundCount < len(items) {
		vnd.Cover("t3-findmissing-mixed")
	}
	vnd.Observe("demux-findmissing", uint64(len(got)), uint64(len(items)))
}
