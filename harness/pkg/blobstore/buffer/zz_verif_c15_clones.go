//go:build verif

package buffer

import (
	"io"

	vnd "github.com/buildbarn/bb-storage/internal/verifnd"

	"google.golang.org/grpc/codes"
	"google.golang.org/grpc/status"
)

// ---------------------------------------------------------------------------
// C15: cloned buffers and background tasks.
// ---------------------------------------------------------------------------

var verifTaskErr = status.Error(codes.Aborted, "verif: background task failed")

// verifGoodReader delivers the reference object correctly, in one or two pieces.
type verifGoodReader struct {
	data   []byte
	pos    int
	split  int
	closes int
}

func (r *verifGoodReader) Read(p []byte) (int, error) {
	if r.closes > 0 {
		vnd.Unreachable("Read after Close on the source")
	}
	if r.pos >= len(r.data) {
		return 0, io.EOF
	}
	end := len(r.data)
	if r.pos < r.split {
		end = r.split
	}
	n := copy(p, r.data[r.pos:end])
	r.pos += n
	return n, nil
}

func (r *verifGoodReader) ReadAt(p []byte, off int64) (int, error) {
	if r.closes > 0 {
		vnd.Unreachable("ReadAt after Close on the source")
	}
	if off < 0 { // as os.File.ReadAt
		return 0, verifIOErrorStatus
	}
	if off >= int64(len(r.data)) {
		return 0, io.EOF
	}
	n := copy(p, r.data[off:])
	if n < len(p) {
		return n, io.EOF
	}
	return n, nil
}

func (r *verifGoodReader) Close() error { r.closes++; return nil }

type verifNoopHandler struct{ done, errs int }

func (h *verifNoopHandler) OnError(err error) (Buffer, error) { h.errs++; return nil, err }
func (h *verifNoopHandler) Done()                             { h.done++ }

type verifZ1Result struct {
	size     int64
	serr     error
	data     []byte
	err      error
	how      int
	taskFail bool
}

type verifZ1 struct {
	ref      *verifRef
	handlers []*verifNoopHandler
	tasksRun int
	tasks    int
	results  []*verifZ1Result
	done     chan struct{}
	leaves   int
}

// plan: every derived buffer is handled in its own goroutine (as the property
// demands for clones): it is either decorated/cloned further, or consumed.
func (z *verifZ1) run(b Buffer, taskFail bool, depth int) {
	op := 0
	if depth > 0 {
		op = vnd.Choose(5)
	}
	switch op {
	case 1:
		b1, b2 := b.CloneStream()
		z.leaves++
		go z.run(b1, taskFail, depth-1)
		z.run(b2, taskFail, depth-1)
		return
	case 2:
		b1, b2 := b.CloneCopy(100)
		z.leaves++
		go z.run(b1, taskFail, depth-1)
		z.run(b2, taskFail, depth-1)
		return
	case 3:
		fail := vnd.Choose(2) == 1
		z.tasks++
		z.run(b.WithTask(func() error {
			z.tasksRun++
			if fail {
				return verifTaskErr
			}
			return nil
		}), taskFail || fail, depth-1)
		return
	case 4:
		eh := &verifNoopHandler{}
		z.handlers = append(z.handlers, eh)
		z.run(WithErrorHandler(b, eh), taskFail, depth-1)
		return
	}
	r := &verifZ1Result{how: vnd.Choose(5), taskFail: taskFail}
	z.results = append(z.results, r)
	r.size, r.serr = b.GetSizeBytes()
	switch r.how {
	case 0:
		r.data, r.err = b.ToByteSlice(100)
	case 1:
		w := &verifWriter{}
		r.err = b.IntoWriter(w)
		r.data = w.data
	case 2:
		rd := b.ToReader()
		data, err := io.ReadAll(rd)
		cerr := rd.Close()
		if err == nil {
			err = cerr
		}
		r.data, r.err = data, err
	case 3:
		b.Discard()
	case 4:
		// a consumer whose size limit is too small for the object: refused, and the handle is let go
		r.data, r.err = b.ToByteSlice(1)
	}
	z.done <- struct{}{}
}

// Verif_C15_Z1_DecoratedClones: every Buffer method keeps working on clones of
// decorated buffers: GetSizeBytes, then a consumption method, on every buffer
// obtained by up to two levels of CloneStream / CloneCopy / WithTask /
// WithErrorHandler over each buffer kind, each clone handled in its own
// goroutine: no panic, no deadlock, size = digest size, bytes = the object, a
// failing task's error (and nothing else) surfaces.
//
// symgo: maxpaths=400000
func Verif_C15_Z1_DecoratedClones() {
	n := 2
	ref := verifNewRef(n)
	src := &verifGoodReader{data: ref.data, split: vnd.Choose(2)}
	integ := &verifIntegrity{}
	var base Buffer
	switch vnd.Choose(3) {
	case 0:
		base = NewCASBufferFromReader(ref.digest, src, BackendProvided(integ.callback))
	case 1:
		base = NewValidatedBufferFromReaderAt(src, int64(n))
	case 2:
		src.closes = 1
		base = NewValidatedBufferFromByteSlice(ref.data)
	}
	z := &verifZ1{ref: ref, done: make(chan struct{}, 8), leaves: 1}
	z.run(base, false, 2)
	for i := 0; i < z.leaves; i++ {
		<-z.done
	}
	if z.leaves > 1 {
		vnd.Cover("several-handles")
	}
	for _, r := range z.results {
		if r.how == 4 {
			vnd.Cover("limit-too-small")
			vnd.Assert(r.err != nil && len(r.data) == 0, "an object larger than the consumer's limit was handed out")
			continue
		}
		if r.taskFail {
			vnd.Cover("task-error")
			// a task that failed in the foreground turns the buffer into an error buffer:
			// asking for its size then reports that error
			vnd.Assert((r.serr == nil && r.size == int64(n)) || r.serr == verifTaskErr, "GetSizeBytes on a derived buffer reports neither the digest's size nor the task's error")
			if r.how != 3 {
				vnd.Assert(r.err == verifTaskErr, "a failing task's error did not surface (or something else did) although the data was fine")
			}
			continue
		}
		vnd.Assert(r.serr == nil && r.size == int64(n), "GetSizeBytes on a derived buffer does not report the digest's size")
		if r.how != 3 {
			vnd.Assert(r.err == nil, "consuming a derived buffer of valid content failed")
			vnd.Assert(verifBytesEqual(r.data, ref.data), "a derived buffer yielded bytes other than the object's")
		}
	}
	vnd.Assert(z.tasksRun == z.tasks, "a background task did not run exactly once")
	vnd.Assert(src.closes == 1, "underlying source not closed exactly once")
	for _, eh := range z.handlers {
		vnd.Assert(eh.done == 1, "error handler not told exactly once that the buffer is finished")
	}
	vnd.Observe("z1", uint64(z.leaves), uint64(z.tasksRun))
}

// Verif_C15_Z2_Multiplexer: two consumers of a stream-cloned buffer, each in its
// own goroutine, under ALL interleavings at synchronisation points: every
// consumer that reads to the end sees the same bytes or the same error, the
// source is closed exactly once, nobody deadlocks or panics.
//
// symgo: maxpaths=400000
func Verif_C15_Z2_Multiplexer() { verifScenarioMultiplexer() }

// Verif_C15_Z3_TaskCompletion: a buffer with a background task does not report
// completion before the task has finished, under all interleavings; the task's
// error surfaces iff the data itself was fine.
func Verif_C15_Z3_TaskCompletion() {
	vnd.ExploreSchedules(true)
	n := 2
	ref := verifNewRef(n)
	bad := vnd.Choose(2) == 1
	data := ref.data
	if bad {
		data = []byte{ref.data[0], ref.data[1] + 1}
	}
	src := &verifGoodReader{data: data}
	integ := &verifIntegrity{}
	base := NewCASBufferFromReader(ref.digest, src, BackendProvided(integ.callback))
	taskFinished := false
	fail := vnd.Choose(2) == 1
	b := base.WithTask(func() error {
		vnd.Yield()
		taskFinished = true
		if fail {
			return verifTaskErr
		}
		return nil
	})
	var got []byte
	var err error
	switch vnd.Choose(4) {
	case 0:
		got, err = b.ToByteSlice(100)
	case 1:
		w := &verifWriter{}
		err = b.IntoWriter(w)
		got = w.data
	case 2:
		r := b.ToReader()
		got, err = io.ReadAll(r)
		if cerr := r.Close(); err == nil {
			err = cerr
		}
	case 3:
		// chunked consumption: the end of the stream (io.EOF) is the completion report
		r := b.ToChunkReader(0, 1+vnd.Choose(2))
		for i := 0; i < 8; i++ {
			var c []byte
			c, err = r.Read()
			got = append(got, c...)
			if err != nil {
				break
			}
		}
		// A data error handed out by Read() is not yet the completion report (the
		// consumer still has to Close(), which waits); io.EOF and the task's own error are.
		if err == io.EOF || err == verifTaskErr {
			vnd.Assert(taskFinished, "a chunk reader with a background task reported the end of the stream (or the task's error) before the task had finished")
		}
		r.Close()
		if err == io.EOF {
			err = nil
		}
	}
	vnd.Assert(taskFinished, "a buffer with a background task reported completion before the task had finished")
	if bad {
		vnd.Cover("bad-data")
		vnd.Assert(err != nil && err != verifTaskErr, "mismatching data did not surface as a validation error")
	} else if fail {
		vnd.Cover("task-failed")
		vnd.Assert(err == verifTaskErr, "the task's error did not surface although the data was fine")
	} else {
		vnd.Cover("all-good")
		vnd.Assert(err == nil && verifBytesEqual(got, ref.data), "valid data with a successful task did not complete correctly")
	}
	vnd.Assert(src.closes == 1, "underlying source not closed exactly once")
}

// Verif_C15_Z4_TaskConsumesSiblingClone: the replication pattern
// (LocalBlobReplicator.ReplicateSingle): a buffer is stream-cloned, one clone is
// handed to the caller decorated with a background task that consumes the OTHER
// clone. Whatever the caller does with its handle - read it, read part of it,
// discard it - nobody blocks forever, the source is closed exactly once, the
// task has finished when the caller is done, and a caller that read to the end
// got the object's bytes.
func Verif_C15_Z4_TaskConsumesSiblingClone() {
	vnd.ExploreSchedules(true)
	n := 2
	ref := verifNewRef(n)
	src := &verifGoodReader{data: ref.data, split: vnd.Choose(2)}
	integ := &verifIntegrity{}
	base := NewCASBufferFromReader(ref.digest, src, BackendProvided(integ.callback))
	b1, b2 := base.CloneStream()
	taskFinished := false
	var taskData []byte
	var taskErr error
	bt := b1.WithTask(func() error {
		taskData, taskErr = b2.ToByteSlice(100)
		taskFinished = true
		return taskErr
	})
	var got []byte
	var err error
	how := vnd.Choose(4)
	switch how {
	case 0:
		vnd.Cover("z4-discard")
		bt.Discard()
	case 1:
		vnd.Cover("z4-to-byte-slice")
		got, err = bt.ToByteSlice(100)
	case 2:
		vnd.Cover("z4-chunk-reader-closed-early")
		r := bt.ToChunkReader(0, 1)
		r.Read()
		r.Close()
	case 3:
		vnd.Cover("z4-limit-too-small")
		_, err = bt.ToByteSlice(1)
		vnd.Assert(err != nil, "an object larger than the consumer's limit was handed out")
		err = nil
	}
	vnd.Assert(taskFinished, "the caller was done with a buffer whose background task had not finished")
	vnd.Assert(src.closes == 1, "underlying source not closed exactly once")
	vnd.Assert(taskErr == nil && verifBytesEqual(taskData, ref.data), "the task's clone did not yield the complete object although the source is fine")
	if how == 1 {
		vnd.Assert(err == nil && verifBytesEqual(got, ref.data), "the caller's clone did not yield the complete object although the source is fine")
	}
}

// Verif_C15_Z5_CloneRandomAccess: one stream clone is read with ReadAt at any offset
// (also outside the object, where the skip phase fails before any data is used) while
// the other clone reads everything: the source is closed exactly once, only after both
// are done, and the full reader gets the complete object.
func Verif_C15_Z5_CloneRandomAccess() {
	n := 2
	ref := verifNewRef(n)
	src := &verifGoodReader{data: ref.data, split: vnd.Choose(2)}
	integ := &verifIntegrity{}
	var base Buffer
	if vnd.Choose(2) == 0 {
		base = NewCASBufferFromReader(ref.digest, src, BackendProvided(integ.callback))
	} else {
		base = NewValidatedBufferFromReaderAt(src, int64(n))
	}
	b1, b2 := base.CloneStream()
	off := vnd.Choose(n+3) - 1
	done := make(chan struct{})
	var n1 int
	var err1 error
	go func() {
		p := make([]byte, 1)
		n1, err1 = b1.ReadAt(p, int64(off))
		close(done)
	}()
	got, err := b2.ToByteSlice(100)
	<-done
	vnd.Assert(src.closes == 1, "underlying source not closed exactly once")
	vnd.Assert(err == nil && verifBytesEqual(got, ref.data), "the clone that reads everything did not get the complete object (the source was closed under it?)")
	if off < 0 || off > n {
		vnd.Cover("z5-offset-outside")
		vnd.Assert(err1 != nil && n1 == 0, "random access outside the object did not fail")
	} else {
		vnd.Cover("z5-offset-inside")
	}
}
