//go:build verif

package buffer

import (
	"io"

	vnd "github.com/buildbarn/bb-storage/internal/verifnd"

	"google.golang.org/grpc/codes"
	"google.golang.org/grpc/status"
)

// verifC09Bounds: size of the reference object, deliveries, bytes per delivery.
func verifC09Bounds() (maxN, k, maxLen int) {
	if vnd.Thorough() {
		return 3, 2, 2 // (3, 3, 3) did not finish V10 within 20 minutes
	}
	return 2, 2, 2
}

// verifCheckOutcome is the common oracle: what the consumer saw (got, err,
// completed) against the reference object, the source stream and the callback.
func verifCheckOutcome(ref *verifRef, streamed []byte, srcErrored bool, off int, got []byte, err error, integ *verifIntegrity, backend bool) {
	matches := verifBytesEqual(streamed, ref.data)
	if ref.bogus {
		matches = false // the digest's hash is the hash of no content
	}
	if err == nil {
		vnd.Cover("completed")
		vnd.Assert(matches, "consumer observed completion although the source content differs from the digest's content")
		if verifLastScript != nil {
			// "complete content": what the source HOLDS, whether or not the buffer chose to read it
			full, fails := verifFullContent(verifLastScript)
			vnd.Assert(!fails, "consumer observed completion although the source fails before its end of stream")
			vnd.Assert(!ref.bogus && verifBytesEqual(full, ref.data), "consumer observed completion although the complete content of the source differs from the digest's content (unread data)")
		}
		vnd.Assert(off >= 0 && off <= ref.n, "completed read at an offset outside the object")
		if off >= 0 && off <= ref.n {
			vnd.Assert(verifBytesEqual(got, ref.data[off:]), "consumer completed with bytes that are not the object's suffix at the requested offset")
		}
		if backend {
			vnd.Assert(integ.invalid == 0, "integrity callback received a negative verdict for matching content")
		}
	} else {
		vnd.Cover("failed")
		c := status.Code(err)
		if srcErrored {
			// "source I/O errors are passed through": a read failure is not a verdict about the
			// content. Only a stream that had ALREADY delivered more than the object's size may
			// be rejected on its size instead.
			vnd.Assert(err == verifIOError || len(streamed) > ref.n, "a source I/O error was replaced by another error although the stream had not exceeded the object's size (e.g. reported as a size mismatch)")
			vnd.Assert(integ.invalid == 0 || len(streamed) > ref.n, "the integrity callback received a negative verdict because the source failed to deliver (an I/O error is not corruption)")
		}
		if srcErrored && err == verifIOError {
			vnd.Cover("ioerror-passed-through")
		} else if c == codes.InvalidArgument || c == codes.Internal {
			if backend {
				vnd.Assert(vnd.Implies(integ.invalid > 0, c == codes.Internal), "backend-provided data failed validation with a code other than INTERNAL")
			} else {
				vnd.Assert(c == codes.InvalidArgument, "client-supplied data failed validation with a code other than INVALID_ARGUMENT")
			}
		}
	}
	vnd.Assert(vnd.Implies(integ.valid > 0, matches), "integrity callback received a positive verdict for mismatching content")
	vnd.Assert(vnd.Implies(integ.invalid > 0, vnd.Not(matches)), "integrity callback received a negative verdict for matching content")
	vnd.Assert(integ.valid+integ.invalid <= 1, "integrity callback invoked more than once for one validated stream")
}

func verifSource(backend bool, integ *verifIntegrity) Source {
	if backend {
		return BackendProvided(integ.callback)
	}
	return UserProvided
}

// Verif_C09_V1_ReaderToByteSlice: reader-backed CAS buffer consumed as a whole.
func Verif_C09_V1_ReaderToByteSlice() {
	maxN, k, maxLen := verifC09Bounds()
	ref := verifNewRefKind(vnd.Choose(maxN+1), vnd.Choose(2) == 1)
	src := &verifReader{script: verifScript(k, maxLen)}
	backend := vnd.Choose(2) == 1
	integ := &verifIntegrity{}
	b := NewCASBufferFromReader(ref.digest, src, verifSource(backend, integ))
	got, err := b.ToByteSlice(10)
	vnd.Assert(src.closes == 1, "source not closed exactly once")
	verifCheckOutcome(ref, src.all, src.sticky == verifIOError, 0, got, err, integ, backend)
	vnd.ObserveBytes("got", got)
}

// Verif_C09_V2_ReaderIntoWriter: streaming into a writer; on failure everything
// handed to the writer must be a STRICT prefix of the source stream unless the
// stream itself was short (the final portion is withheld).
func Verif_C09_V2_ReaderIntoWriter() {
	maxN, k, maxLen := verifC09Bounds()
	ref := verifNewRef(vnd.Choose(maxN + 1))
	src := &verifReader{script: verifScript(k, maxLen)}
	backend := vnd.Choose(2) == 1
	integ := &verifIntegrity{}
	b := NewCASBufferFromReader(ref.digest, src, verifSource(backend, integ))
	w := &verifWriter{}
	err := b.IntoWriter(w)
	vnd.Assert(src.closes == 1, "source not closed exactly once")
	verifCheckOutcome(ref, src.all, src.sticky == verifIOError, 0, w.data, err, integ, backend)
	if err != nil {
		vnd.Assert(verifIsPrefix(w.data, src.all), "bytes handed to the writer are not a prefix of the source stream")
		// a size/hash mismatch must be detected before the last bytes of a complete-looking stream are released
		if len(src.all) == ref.n && src.sticky != verifIOError && ref.n > 0 {
			vnd.Assert(len(w.data) < len(src.all), "the complete mismatching content was handed to the consumer before the error")
		}
	}
	vnd.ObserveBytes("written", w.data)
}

// Verif_C09_V3_ReaderToReader: ToReader consumed with reads of symbolic sizes.
func Verif_C09_V3_ReaderToReader() {
	maxN, k, maxLen := verifC09Bounds()
	ref := verifNewRef(vnd.Choose(maxN + 1))
	src := &verifReader{script: verifScript(k, maxLen)}
	backend := vnd.Choose(2) == 1
	integ := &verifIntegrity{}
	b := NewCASBufferFromReader(ref.digest, src, verifSource(backend, integ))
	r := b.ToReader()
	var got []byte
	var err error
	for i := 0; i < 2*(maxN+2); i++ {
		p := make([]byte, 1+vnd.Choose(2))
		var n int
		n, err = r.Read(p)
		got = append(got, p[:n]...)
		if err != nil {
			break
		}
	}
	vnd.Assert(err != nil, "reader neither finished nor failed within the unwinding bound")
	// errors are sticky
	_, err2 := r.Read(make([]byte, 1))
	vnd.Assert(err2 == err, "error of a validating reader is not sticky")
	r.Close()
	vnd.Assert(src.closes == 1, "source not closed exactly once")
	var cerr error
	if err != io.EOF {
		cerr = err
	}
	verifCheckOutcome(ref, src.all, src.sticky == verifIOError, 0, got, cerr, integ, backend)
	if cerr != nil && len(src.all) == ref.n && src.sticky != verifIOError && ref.n > 0 {
		vnd.Assert(len(got) < len(src.all), "the complete mismatching content was handed to the consumer before the error")
	}
	vnd.ObserveBytes("read", got)
}

// Verif_C09_V4_ReaderToChunkReader: chunked consumption at an offset with a maximum chunk size.
func Verif_C09_V4_ReaderToChunkReader() {
	maxN, k, maxLen := verifC09Bounds()
	ref := verifNewRef(vnd.Choose(maxN + 1))
	src := &verifReader{script: verifScript(k, maxLen)}
	backend := vnd.Choose(2) == 1
	integ := &verifIntegrity{}
	off := vnd.Choose(maxN+3) - 1 // -1 .. maxN+1
	maxChunk := 1 + vnd.Choose(2)
	b := NewCASBufferFromReader(ref.digest, src, verifSource(backend, integ))
	cr := b.ToChunkReader(int64(off), maxChunk)
	var got []byte
	var err error
	for i := 0; i < 2*(maxN+2); i++ {
		var c []byte
		c, err = cr.Read()
		vnd.Assert(len(c) <= maxChunk, "chunk larger than the maximum chunk size")
		got = append(got, c...)
		if err != nil {
			break
		}
	}
	vnd.Assert(err != nil, "chunk reader neither finished nor failed within the unwinding bound")
	cr.Close()
	vnd.Assert(src.closes == 1, "source not closed exactly once")
	var cerr error
	if err != io.EOF {
		cerr = err
	}
	if off < 0 || off > ref.n {
		vnd.Cover("bad-offset")
		vnd.Assert(cerr != nil, "read at an offset outside the object did not fail")
		vnd.Assert(len(got) == 0, "read at an offset outside the object returned data")
		return
	}
	verifCheckOutcome(ref, src.all, src.sticky == verifIOError, off, got, cerr, integ, backend)
	vnd.ObserveBytes("chunks", got)
}

// Verif_C09_V5_ReaderReadAt: ReadAt(p, off).
func Verif_C09_V5_ReaderReadAt() {
	maxN, k, maxLen := verifC09Bounds()
	ref := verifNewRef(vnd.Choose(maxN + 1))
	src := &verifReader{script: verifScript(k, maxLen)}
	backend := vnd.Choose(2) == 1
	integ := &verifIntegrity{}
	off := vnd.Choose(maxN+3) - 1
	p := make([]byte, vnd.Choose(maxN+2))
	b := NewCASBufferFromReader(ref.digest, src, verifSource(backend, integ))
	n, err := b.ReadAt(p, int64(off))
	vnd.Assert(src.closes == 1, "source not closed exactly once")
	if err == nil || err == io.EOF {
		vnd.Cover("readat-ok")
		// a successful ReadAt returns bytes of the object at that offset, and the whole stream was validated
		vnd.Assert(verifBytesEqual(src.all, ref.data), "ReadAt succeeded although the source content differs from the digest's content")
		vnd.Assert(off >= 0, "ReadAt at a negative offset succeeded")
		if off >= 0 && off <= ref.n {
			want := ref.data[off:]
			if len(want) > len(p) {
				want = want[:len(p)]
			}
			vnd.Assert(n == len(want), "ReadAt returned a wrong byte count")
			if n == len(want) {
				vnd.Assert(verifBytesEqual(p[:n], want), "ReadAt returned bytes that are not the object's bytes at that offset")
			}
			vnd.Assert((err == io.EOF) == (n < len(p)), "ReadAt end-of-file indication inconsistent with the byte count")
		}
	} else {
		vnd.Cover("readat-failed")
	}
	vnd.Assert(vnd.Implies(integ.valid > 0, verifBytesEqual(src.all, ref.data)), "integrity callback received a positive verdict for mismatching content")
	vnd.Assert(vnd.Implies(integ.invalid > 0, vnd.Not(verifBytesEqual(src.all, ref.data))), "integrity callback received a negative verdict for matching content")
	vnd.ObserveBytes("readat", p[:n])
}
