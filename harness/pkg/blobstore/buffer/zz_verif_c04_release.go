//go:build verif

package buffer

import (
	"io"

	vnd "github.com/buildbarn/bb-storage/internal/verifnd"
)

// C04, last clause ("every buffer handed to or obtained inside a storage
// operation is consumed or released exactly once on every path"), at the level
// of the two buffer types the local store hands out for block readers
// (cas_reader_buffer.go, validated_reader_at_buffer.go): whatever ONE thing a
// consumer does with such a buffer - including the calls that fail before any
// data is read (offset outside the object, size limit too small, failing
// writer, failing foreground task) and consumers that stop early - the
// underlying block reader is closed exactly once, so the block's use count
// drops back and its space can be reused.

type verifReaderAt struct {
	data   []byte
	fail   bool
	closes int
}

func (r *verifReaderAt) ReadAt(p []byte, off int64) (int, error) {
	if r.closes > 0 {
		vnd.Unreachable("ReadAt after Close on the block reader")
	}
	if r.fail || off < 0 { // as os.File.ReadAt: a negative offset is an error
		return 0, verifIOError
	}
	if off >= int64(len(r.data)) {
		return 0, io.EOF
	}
	n := copy(p, r.data[off:])
	if n < len(p) {
		return n, io.EOF
	}
	return n, nil
}

func (r *verifReaderAt) Close() error {
	r.closes++
	return nil
}

type verifFailingWriter struct {
	ok   int // accept this many Write calls, then fail
	data []byte
}

func (w *verifFailingWriter) Write(p []byte) (int, error) {
	if w.ok == 0 {
		return 0, verifIOError
	}
	w.ok--
	w.data = append(w.data, p...)
	return len(p), nil
}

func verifC04Buffer(n int) (Buffer, func() int) {
	ref := verifNewRef(n)
	if vnd.Choose(2) == 0 {
		vnd.Cover("cas-reader-buffer")
		kind := vnd.Choose(3) // the stream ends with nil+EOF later, EOF, or an I/O error
		src := &verifReader{script: []verifDelivery{{data: ref.data, kind: kind}}}
		return NewCASBufferFromReader(ref.digest, src, BackendProvided(func(bool) {})), func() int { return src.closes }
	}
	vnd.Cover("reader-at-buffer")
	ra := &verifReaderAt{data: ref.data, fail: vnd.Choose(2) == 1}
	return NewValidatedBufferFromReaderAt(ra, int64(n)), func() int { return ra.closes }
}

func Verif_C04_R4_BlockReaderReleasedOnce() {
	const n = 2
	b, closes := verifC04Buffer(n)
	switch vnd.Choose(11) {
	case 0:
		vnd.Cover("discard")
		b.Discard()
	case 1:
		vnd.Cover("to-byte-slice")
		b.ToByteSlice(vnd.Choose(n + 2)) // the limit may be too small
	case 2:
		vnd.Cover("into-writer")
		b.IntoWriter(&verifFailingWriter{ok: vnd.Choose(3)})
	case 3:
		vnd.Cover("read-at")
		p := make([]byte, vnd.Choose(n+2))
		b.ReadAt(p, int64(vnd.Choose(n+3)-1))
	case 4:
		vnd.Cover("chunk-reader")
		r := b.ToChunkReader(int64(vnd.Choose(n+3)-1), 1+vnd.Choose(2))
		for k := vnd.Choose(n + 2); k > 0; k-- { // the consumer may stop early
			if _, err := r.Read(); err != nil {
				break
			}
		}
		r.Close()
	case 5:
		vnd.Cover("reader")
		r := b.ToReader()
		p := make([]byte, 1)
		for k := vnd.Choose(n + 2); k > 0; k-- {
			if _, err := r.Read(p); err != nil {
				break
			}
		}
		r.Close()
	case 6:
		vnd.Cover("clone-copy")
		b1, b2 := b.CloneCopy(vnd.Choose(n + 2))
		b1.ToByteSlice(n)
		b2.Discard()
	case 7:
		vnd.Cover("clone-stream")
		b1, b2 := b.CloneStream()
		done := make(chan struct{})
		go func() {
			if vnd.Choose(2) == 1 {
				b2.ToByteSlice(n)
			} else {
				b2.Discard()
			}
			close(done)
		}()
		b1.ToChunkReader(int64(vnd.Choose(n+3)-1), 1).Close()
		<-done
	case 8:
		vnd.Cover("with-task")
		fail := vnd.Choose(2) == 1
		bt := b.WithTask(func() error {
			if fail {
				return verifIOError
			}
			return nil
		})
		if vnd.Choose(2) == 1 {
			bt.ToByteSlice(n)
		} else {
			bt.Discard()
		}
	case 9:
		vnd.Cover("unvalidated-reader")
		r := b.toUnvalidatedReader(int64(vnd.Choose(n+3) - 1))
		p := make([]byte, 1)
		r.Read(p)
		r.Close()
	case 10:
		vnd.Cover("unvalidated-chunk-reader")
		r := b.toUnvalidatedChunkReader(int64(vnd.Choose(n+3)-1), 1+vnd.Choose(2))
		r.Read()
		r.Close()
	}
	vnd.Assert(closes() == 1, "a block reader behind a buffer was not closed exactly once (leaked or closed twice)")
}
