//go:build verif

package buffer

import (
	"io"

	vnd "github.com/buildbarn/bb-storage/internal/verifnd"

	"google.golang.org/grpc/codes"
	"google.golang.org/grpc/status"
)

// What the handler stub may return, per call, for the stitching consumers:
// one replacement drawn in some detail over a richly drawn original; a second
// OnError call gets an error. Two repaired failures: Verif_C16_E8_TwoFailures.
func verifC16Options() []verifC16Opt {
	return []verifC16Opt{{
		kinds: []int{verifC16HandlerError, verifC16Slice, verifC16Reader, verifC16Chunk, verifC16ErrBuf, verifC16CASSlice},
		level: verifC16Medium,
	}}
}

var verifC16StreamKinds = []int{verifC16Reader, verifC16Chunk}

// Verif_C16_E1_ToReader: stitched stream consumed through ToReader.
func Verif_C16_E1_ToReader() {
	ref, h, b := verifC16Setup(verifC16StreamKinds, verifC16Rich, verifC16Options(), false)
	psize := 1 + vnd.Choose(2)
	r := b.ToReader()
	var got []byte
	var err error
	for i := 0; i < 2*(ref.n+2)+4; i++ {
		p := make([]byte, psize)
		var n int
		n, err = r.Read(p)
		got = append(got, p[:n]...)
		if err != nil {
			break
		}
	}
	vnd.Assert(err != nil, "reader neither finished nor failed within the unwinding bound")
	_, err2 := r.Read(make([]byte, 1))
	vnd.Assert(err2 == err, "error of the stitched reader is not sticky")
	r.Close()
	if err == io.EOF {
		err = nil
	}
	verifC16CheckStreamed(ref, h, 0, got, err)
	vnd.ObserveBytes("read", got)
	vnd.Observe("calls", uint64(h.calls), uint64(h.done))
}

// Verif_C16_E2_ToChunkReader: chunked consumption at an offset.
func Verif_C16_E2_ToChunkReader() {
	ref, h, b := verifC16Setup(verifC16StreamKinds, verifC16Rich, verifC16Options(), false)
	off := vnd.Choose(ref.n + 1)
	maxChunk := 1 + vnd.Choose(2)
	cr := b.ToChunkReader(int64(off), maxChunk)
	var got []byte
	var err error
	for i := 0; i < 2*(ref.n+2)+4; i++ {
		var c []byte
		c, err = cr.Read()
		vnd.Assert(len(c) <= maxChunk, "chunk larger than the maximum chunk size")
		got = append(got, c...)
		if err != nil {
			break
		}
	}
	vnd.Assert(err != nil, "chunk reader neither finished nor failed within the unwinding bound")
	cr.Close()
	if err == io.EOF {
		err = nil
	}
	verifC16CheckStreamed(ref, h, off, got, err)
	vnd.ObserveBytes("chunks", got)
	vnd.Observe("calls", uint64(h.calls), uint64(h.done))
}

// Verif_C16_E3_IntoWriter: stitched stream copied into a writer.
func Verif_C16_E3_IntoWriter() {
	ref, h, b := verifC16Setup(verifC16StreamKinds, verifC16Rich, verifC16Options(), false)
	w := &verifWriter{}
	err := b.IntoWriter(w)
	verifC16CheckStreamed(ref, h, 0, w.data, err)
	vnd.ObserveBytes("written", w.data)
	vnd.Observe("calls", uint64(h.calls), uint64(h.done))
}

// verifC16RetryOptions: replacements for whole-operation retries. A validated
// byte slice is trusted by construction, so the stub only hands out the
// object's own content that way; arbitrary content goes through
// NewCASBufferFromByteSlice.
func verifC16RetryOptions(failures int) []verifC16Opt {
	opts := []verifC16Opt{
		{kinds: []int{verifC16HandlerError, verifC16Reader, verifC16Chunk, verifC16ErrBuf, verifC16CASSlice}, level: verifC16Lean},
		{kinds: []int{verifC16HandlerError, verifC16CASSlice}, level: verifC16Lean},
	}
	// (thorough: objects up to 3 bytes; letting the second replacement be of every kind as well
	// did not finish within 25 minutes)
	return opts[:failures]
}

// verifC16CheckRetried: oracle parts shared by ToByteSlice and ReadAt.
func verifC16CheckRetried(ref *verifRef, h *verifC16Handler, err error) {
	last := h.bufs[len(h.bufs)-1]
	for last.kind == verifC16Wrapped {
		last = last.inner.bufs[len(last.inner.bufs)-1]
	}
	if err == nil {
		vnd.Cover("c16-retry-completed")
		vnd.Assert(h.lastErr == nil, "operation succeeded although the handler returned an error")
		switch last.kind {
		case verifC16Reader, verifC16Chunk:
			vnd.Assert(verifBytesEqual(last.st.delivered(), ref.data), "operation succeeded on a source whose content differs from the object")
		case verifC16Slice:
			vnd.Assert(verifBytesEqual(last.data, ref.data), "operation succeeded on a byte slice whose content differs from the object")
		default:
			vnd.Unreachable("operation succeeded on an error buffer")
		}
		if len(h.bufs) > 1 {
			vnd.Cover("c16-retry-completed-after-replacement")
		}
	} else {
		vnd.Cover("c16-retry-failed")
		vnd.Assert(err == h.lastErr, "consumer's error is not what the handler returned last")
	}
	all := h.bufs
	if h.bufs[0].kind == verifC16Wrapped {
		all = append(append([]*verifC16Buf{}, h.bufs[0].inner.bufs...), h.bufs[1:]...)
	}
	for _, b := range all {
		if b.st == nil {
			continue
		}
		same := verifBytesEqual(b.st.delivered(), ref.data)
		vnd.Assert(vnd.Implies(b.integ.valid > 0, same), "integrity callback received a positive verdict for mismatching content")
		vnd.Assert(vnd.Implies(b.integ.invalid > 0, vnd.Not(same)), "integrity callback received a negative verdict for matching content")
		vnd.Assert(b.integ.valid+b.integ.invalid <= 1, "integrity callback invoked more than once for one buffer")
	}
	h.checkEnd(true)
}

// Verif_C16_E4_ToByteSlice: whole-object read, retried in its entirety.
func Verif_C16_E4_ToByteSlice() {
	ref, h, b := verifC16Setup(verifC16StreamKinds, verifC16Medium, verifC16RetryOptions(2), true)
	got, err := b.ToByteSlice(10)
	if err == nil {
		vnd.Assert(verifBytesEqual(got, ref.data), "ToByteSlice completed with bytes that are not the object")
	}
	verifC16CheckRetried(ref, h, err)
	vnd.ObserveBytes("got", got)
	vnd.Observe("calls", uint64(h.calls), uint64(h.done))
}

// Verif_C16_E5_ReadAt: ReadAt(p, off), retried in its entirety.
func Verif_C16_E5_ReadAt() {
	ref, h, b := verifC16Setup(verifC16StreamKinds, verifC16Medium, verifC16RetryOptions(1), true)
	off := vnd.Choose(ref.n + 1)
	p := make([]byte, 1+vnd.Choose(2))
	n, err := b.ReadAt(p, int64(off))
	var cerr error
	if err != io.EOF {
		cerr = err
	}
	if cerr == nil {
		var want []byte
		if off <= ref.n {
			want = ref.data[off:]
		}
		if len(want) > len(p) {
			want = want[:len(p)]
		}
		vnd.Assert(n == len(want), "ReadAt returned a wrong byte count")
		if n == len(want) {
			vnd.Assert(verifBytesEqual(p[:n], want), "ReadAt returned bytes that are not the object's bytes at that offset")
		}
		vnd.Assert((err == io.EOF) == (n < len(p)), "ReadAt end-of-file indication inconsistent with the byte count")
	} else {
		vnd.Assert(n == 0, "ReadAt returned data together with an error")
	}
	verifC16CheckRetried(ref, h, cerr)
	vnd.ObserveBytes("readat", p[:n])
	vnd.Observe("calls", uint64(h.calls), uint64(h.done))
}

// Verif_C16_E6_LetGo: the consumer lets go early - Discard(), a read at an
// offset outside the object, or closing a reader / chunk reader after a few
// reads. Done exactly once, sources closed exactly once, no OnError after Done.
func Verif_C16_E6_LetGo() {
	options := []verifC16Opt{{kinds: []int{verifC16HandlerError, verifC16Slice, verifC16Reader, verifC16Chunk, verifC16ErrBuf}, level: verifC16Lean}}
	ref, h, b := verifC16Setup(verifC16StreamKinds, verifC16Medium, options, false)
	switch vnd.Choose(4) {
	case 0:
		vnd.Cover("c16-discard")
		b.Discard()
		vnd.Assert(h.calls == 0, "Discard consulted the error handler")
	case 1:
		vnd.Cover("c16-bad-offset")
		off := -1
		if vnd.Choose(2) == 1 {
			off = ref.n + 1
		}
		cr := b.ToChunkReader(int64(off), 1+vnd.Choose(2))
		c, err := cr.Read()
		vnd.Assert(len(c) == 0, "read at an offset outside the object returned data")
		vnd.Assert(status.Code(err) == codes.InvalidArgument, "read at an offset outside the object did not fail with INVALID_ARGUMENT")
		cr.Close()
		vnd.Assert(h.calls == 0, "read at an offset outside the object consulted the error handler")
	case 2:
		vnd.Cover("c16-reader-closed-early")
		r := b.ToReader()
		reads := vnd.Choose(3)
		var got []byte
		for i := 0; i < reads; i++ {
			p := make([]byte, 1)
			n, err := r.Read(p)
			got = append(got, p[:n]...)
			if err != nil {
				break
			}
		}
		r.Close()
		vnd.Assert(verifIsPrefix(got, h.stitched()), "bytes read before closing are not a prefix of the stitched stream")
	case 3:
		vnd.Cover("c16-chunk-reader-closed-early")
		cr := b.ToChunkReader(0, 1)
		reads := vnd.Choose(3)
		var got []byte
		for i := 0; i < reads; i++ {
			c, err := cr.Read()
			got = append(got, c...)
			if err != nil {
				break
			}
		}
		cr.Close()
		vnd.Assert(verifIsPrefix(got, h.stitched()), "chunks read before closing are not a prefix of the stitched stream")
	}
	h.checkEnd(false)
	vnd.Observe("calls", uint64(h.calls), uint64(h.done))
}

// Verif_C16_E7_KnownState: WithErrorHandler on buffers in a known state. An
// error buffer consults the handler at once (and the replacement gets the
// handler attached in turn); a validated byte slice finishes the handler at
// once. Then the result is consumed through ToReader.
func Verif_C16_E7_KnownState() {
	options := []verifC16Opt{
		{kinds: []int{verifC16HandlerError, verifC16Slice, verifC16Reader, verifC16Chunk, verifC16ErrBuf}, level: verifC16Medium},
		{kinds: []int{verifC16HandlerError, verifC16Slice, verifC16Reader, verifC16ErrBuf}, level: verifC16Lean},
	}
	ref, h, b := verifC16Setup([]int{verifC16ErrBuf, verifC16Slice}, verifC16Medium, options, false)
	if h.bufs[0].kind == verifC16ErrBuf {
		vnd.Assert(h.calls >= 1, "error buffer: the handler was not consulted when it was attached")
		vnd.Assert(h.args[0] == h.bufs[0].err, "error buffer: the handler was offered a different error")
	} else {
		vnd.Assert(h.calls == 0 && h.done == 1, "byte slice buffer: the handler was not finished at once")
	}
	last := h.bufs[len(h.bufs)-1]
	streamed := last.kind == verifC16Reader || last.kind == verifC16Chunk
	if !streamed {
		// known state reached while attaching: handler is finished already
		vnd.Assert(h.done == 1, "buffer in a known state, but the handler was not finished while attaching")
	} else {
		vnd.Assert(h.done == 0, "handler finished before the stream-backed replacement was consumed")
	}
	r := b.ToReader()
	var got []byte
	var err error
	for i := 0; i < 2*(ref.n+2)+4; i++ {
		p := make([]byte, 1)
		var n int
		n, err = r.Read(p)
		got = append(got, p[:n]...)
		if err != nil {
			break
		}
	}
	vnd.Assert(err != nil, "reader neither finished nor failed within the unwinding bound")
	r.Close()
	if err == io.EOF {
		err = nil
	}
	if streamed {
		vnd.Cover("c16-known-then-stream")
		// the stitched stream starts at the first stream-backed buffer: everything
		// before it was an error buffer, which contributes nothing
		verifC16CheckStreamed(ref, h, 0, got, err)
	} else {
		vnd.Cover("c16-known-final")
		if err == nil {
			// a validated byte slice is handed out as is
			vnd.Assert(last.kind == verifC16Slice, "error buffer read successfully")
			vnd.Assert(verifBytesEqual(got, last.data), "byte slice buffer read back different bytes")
		} else {
			vnd.Assert(err == h.lastErr, "consumer's error is not what the handler returned")
		}
		h.checkEnd(true)
	}
	vnd.ObserveBytes("read", got)
	vnd.Observe("calls", uint64(h.calls), uint64(h.done))
}

// Verif_C16_E8_TwoFailures: two failures are repaired (original and first
// replacement both fail part-way, the second replacement may fail as well, which
// the handler then answers with an error), every buffer drawn lean, consumed
// through one of the three stitching consumers.
func Verif_C16_E8_TwoFailures() {
	first := []int{verifC16Reader, verifC16Chunk, verifC16ErrBuf}
	second := []int{verifC16HandlerError, verifC16Slice, verifC16Reader}
	if vnd.Thorough() {
		first = append(first, verifC16Slice)
		second = append(second, verifC16Chunk, verifC16ErrBuf)
	}
	options := []verifC16Opt{{kinds: first, level: verifC16Lean}, {kinds: second, level: verifC16Lean}}
	ref, h, b := verifC16Setup(verifC16StreamKinds, verifC16Lean, options, false)
	var got []byte
	var err error
	off := 0
	switch vnd.Choose(3) {
	case 0:
		r := b.ToReader()
		for i := 0; i < 2*(ref.n+2)+4; i++ {
			p := make([]byte, 1)
			var n int
			n, err = r.Read(p)
			got = append(got, p[:n]...)
			if err != nil {
				break
			}
		}
		vnd.Assert(err != nil, "reader neither finished nor failed within the unwinding bound")
		r.Close()
		if err == io.EOF {
			err = nil
		}
	case 1:
		if ref.n > 0 {
			off = 1
		}
		if vnd.Thorough() {
			off = vnd.Choose(ref.n + 1)
		}
		cr := b.ToChunkReader(int64(off), 2)
		for i := 0; i < 2*(ref.n+2)+4; i++ {
			var c []byte
			c, err = cr.Read()
			got = append(got, c...)
			if err != nil {
				break
			}
		}
		vnd.Assert(err != nil, "chunk reader neither finished nor failed within the unwinding bound")
		cr.Close()
		if err == io.EOF {
			err = nil
		}
	case 2:
		w := &verifWriter{}
		err = b.IntoWriter(w)
		got = w.data
	}
	if len(h.bufs) > 2 {
		vnd.Cover("c16-two-replacements")
		if err == nil {
			vnd.Cover("c16-completed-after-two-replacements")
		}
	}
	verifC16CheckStreamed(ref, h, off, got, err)
	vnd.ObserveBytes("got", got)
	vnd.Observe("calls", uint64(h.calls), uint64(h.done))
}

// Verif_C16_E9_Nested: a second handler attached to a buffer that already has
// one (casErrorHandlingBuffer.applyErrorHandler). The inner handler sees every
// failure first; what it returns as an error is offered to the outer handler,
// which may supply a replacement of its own, resumed at the offset reached so
// far. Both handlers are finished exactly once.
func Verif_C16_E9_Nested() {
	maxN := verifC16Bounds()
	ref := verifNewRef(vnd.Choose(maxN + 1))
	retried := vnd.Choose(2) == 1
	innerKinds := []int{verifC16HandlerError, verifC16Reader, verifC16Slice}
	outerKinds := []int{verifC16HandlerError, verifC16Chunk, verifC16Slice}
	if retried {
		innerKinds = []int{verifC16HandlerError, verifC16Reader, verifC16CASSlice}
		outerKinds = []int{verifC16HandlerError, verifC16Chunk, verifC16CASSlice}
	}
	inner := &verifC16Handler{ref: ref, maxT: ref.n + 1, retried: retried,
		options: []verifC16Opt{{kinds: innerKinds, level: verifC16Lean}}}
	b0 := verifC16NewBuf(ref, 0, verifC16StreamKinds[vnd.Choose(2)], inner.maxT, verifC16Lean)
	vnd.Assume(b0.st.end == verifDeliverErr) // the original fails: without a failure no handler is involved (E1-E5)
	inner.bufs = append(inner.bufs, b0)
	wrapped := WithErrorHandler(b0.buf, inner)
	outer := &verifC16Handler{ref: ref, maxT: ref.n + 1, retried: retried, idBase: 4,
		options: []verifC16Opt{{kinds: outerKinds, level: verifC16Lean}}}
	outer.bufs = append(outer.bufs, &verifC16Buf{kind: verifC16Wrapped, inner: inner, integ: b0.integ, buf: wrapped})
	b := WithErrorHandler(wrapped, outer)
	vnd.Assert(inner.done == 0 && outer.done == 0 && inner.calls == 0 && outer.calls == 0, "attaching a handler to a stream-backed buffer consulted or finished a handler")
	var got []byte
	var err error
	if retried {
		got, err = b.ToByteSlice(10)
		if err == nil {
			vnd.Assert(verifBytesEqual(got, ref.data), "ToByteSlice completed with bytes that are not the object")
		}
		verifC16CheckRetried(ref, outer, err)
	} else {
		how := vnd.Choose(2) // ToReader or ToChunkReader
		got, err, _ = verifC16ConsumeStreamed(b, how, 0, ref.n)
		verifC16CheckStreamed(ref, outer, 0, got, err)
	}
	if outer.calls > 0 {
		vnd.Cover("c16-outer-handler-consulted")
		if len(outer.bufs) > 1 && err == nil {
			vnd.Cover("c16-completed-on-outer-replacement")
		}
	}
	vnd.ObserveBytes("got", got)
	vnd.Observe("calls", uint64(inner.calls), uint64(inner.done), uint64(outer.calls), uint64(outer.done))
}

// verifC16ConsumeStreamed: ToReader (how = 0, one byte at a time) or
// ToChunkReader(off, 2) (how = 1), read to the end and closed.
func verifC16ConsumeStreamed(b Buffer, how, off, n int) (got []byte, err error, usedOff int) {
	if how == 0 {
		r := b.ToReader()
		for i := 0; i < 2*(n+2)+4; i++ {
			p := make([]byte, 1)
			var m int
			m, err = r.Read(p)
			got = append(got, p[:m]...)
			if err != nil {
				break
			}
		}
		vnd.Assert(err != nil, "reader neither finished nor failed within the unwinding bound")
		r.Close()
		off = 0
	} else {
		cr := b.ToChunkReader(int64(off), 2)
		for i := 0; i < 2*(n+2)+4; i++ {
			var c []byte
			c, err = cr.Read()
			got = append(got, c...)
			if err != nil {
				break
			}
		}
		vnd.Assert(err != nil, "chunk reader neither finished nor failed within the unwinding bound")
		cr.Close()
	}
	if err == io.EOF {
		err = nil
	}
	return got, err, off
}

// verifE10Reader delivers data[:failAfter] (one byte per Read) and then fails.
type verifE10Reader struct {
	data      []byte
	failAfter int
	pos       int
	closes    int
	err       error
}

func (r *verifE10Reader) Read(p []byte) (int, error) {
	if r.closes > 0 {
		vnd.Unreachable("Read after Close")
	}
	if r.pos >= r.failAfter {
		return 0, r.err
	}
	if len(p) == 0 {
		return 0, nil
	}
	p[0] = r.data[r.pos]
	r.pos++
	return 1, nil
}

func (r *verifE10Reader) Close() error { r.closes++; return nil }

type verifE10Handler struct {
	replacement func() Buffer
	calls, done int
}

func (h *verifE10Handler) OnError(err error) (Buffer, error) {
	h.calls++
	return h.replacement(), nil
}
func (h *verifE10Handler) Done() { h.done++ }

// Verif_C16_E10_ReplacementWithOwnHandler: the replacement supplied by the handler is
// itself a buffer with an error handler (as back ends routinely return), it is
// opened at the offset reached so far, fails later as well, and ITS handler
// supplies a healthy copy: the consumer still receives every byte exactly once,
// both handlers are consulted once and finished once, all sources are closed.
func Verif_C16_E10_ReplacementWithOwnHandler() {
	n := 3
	ref := verifNewRef(n)
	j1 := 1 + vnd.Choose(n-1) // the original fails after 1..n-1 bytes
	j2 := vnd.Choose(n - j1)  // the replacement delivers 0..n-j1-1 further bytes, then fails
	ioErr := status.Error(codes.Unavailable, "verif: injected I/O error")
	first := &verifE10Reader{data: ref.data, failAfter: j1, err: ioErr}
	second := &verifE10Reader{data: ref.data, failAfter: j1 + j2, err: ioErr}
	hB := &verifE10Handler{replacement: func() Buffer { return NewValidatedBufferFromByteSlice(ref.data) }}
	hA := &verifE10Handler{replacement: func() Buffer {
		return WithErrorHandler(NewCASBufferFromReader(ref.digest, second, UserProvided), hB)
	}}
	b := WithErrorHandler(NewCASBufferFromReader(ref.digest, first, UserProvided), hA)
	var got []byte
	var err error
	switch vnd.Choose(4) {
	case 0:
		r := b.ToChunkReader(0, 2)
		for i := 0; i < 10; i++ {
			var c []byte
			c, err = r.Read()
			got = append(got, c...)
			if err != nil {
				break
			}
		}
		r.Close()
		if err == io.EOF {
			err = nil
		}
	case 1:
		w := &verifWriter{}
		err = b.IntoWriter(w)
		got = w.data
	case 2:
		r := b.ToReader()
		got, err = io.ReadAll(r)
		r.Close()
	case 3:
		got, err = b.ToByteSlice(10)
	}
	vnd.Assert(err == nil, "recovery through a replacement that has its own error handler failed")
	vnd.Assert(len(got) == n, "consumer received a wrong number of bytes (a range was duplicated or skipped)")
	if len(got) == n {
		for i := 0; i < n; i++ {
			vnd.Assert(got[i] == ref.data[i], "consumer received a byte that is not the object's byte at that position")
		}
	}
	vnd.Assert(hA.calls == 1 && hB.calls >= 1, "handlers not consulted as expected")
	vnd.Assert(hA.done == 1 && hB.done == 1, "a handler was not told exactly once that the buffer is finished")
	vnd.Assert(first.closes == 1 && second.closes == 1, "a failed source was not closed exactly once")
	vnd.Cover("recovered")
	vnd.ObserveBytes("e10", got)
}

// Verif_C16_E11_ClonedReplacement: as E1, but every stream replacement the handler
// supplies is one half of a stream clone (what a replicating backend hands out): it,
// too, must be opened at the offset already delivered.
func Verif_C16_E11_ClonedReplacement() {
	ref, h, b := verifC16Setup(verifC16StreamKinds, verifC16Rich, verifC16Options(), false)
	h.cloneReplacements = true
	r := b.ToReader()
	var got []byte
	var err error
	for i := 0; i < 2*(ref.n+2)+4; i++ {
		p := make([]byte, 1)
		var n int
		n, err = r.Read(p)
		got = append(got, p[:n]...)
		if err != nil {
			break
		}
	}
	vnd.Assert(err != nil, "reader neither finished nor failed within the unwinding bound")
	r.Close()
	if err == io.EOF {
		err = nil
	}
	verifC16CheckStreamed(ref, h, 0, got, err)
	vnd.ObserveBytes("read", got)
}
