//go:build verif

package buffer

import (
	"io"

	vnd "github.com/buildbarn/bb-storage/internal/verifnd"
)

// verifScenarioMultiplexer: two consumers of a stream-cloned CAS buffer under all
// schedules with at most two preemptions (C15 Z2; also C09: a consumer that
// completes through a stream clone has seen exactly the object).
func verifScenarioMultiplexer() {
	vnd.ExploreSchedules(true)
	maxN := 2
	ref := verifNewRef(maxN)
	var script []verifDelivery
	if vnd.Thorough() {
		script = verifScript(2, 2)
	} else {
		// quick: four representative source behaviours (all chunkings of the object, an I/O
		// error after the first chunk, wrong content)
		switch vnd.Choose(4) {
		case 0:
			script = []verifDelivery{{data: ref.data, kind: verifDeliverNil}}
		case 1:
			script = []verifDelivery{{data: ref.data[:1], kind: verifDeliverNil}, {data: ref.data[1:], kind: verifDeliverNil}}
		case 2:
			script = []verifDelivery{{data: ref.data[:1], kind: verifDeliverNil}, {kind: verifDeliverErr}}
		case 3:
			script = []verifDelivery{{data: vnd.Bytes(2), kind: verifDeliverNil}}
		}
	}
	src := &verifChunkSource{script: script}
	integ := &verifIntegrity{}
	base := NewCASBufferFromChunkReader(ref.digest, src, BackendProvided(integ.callback))
	b1, b2 := base.CloneStream()
	type outcome struct {
		data    []byte
		err     error
		readAll bool
	}
	var o [2]outcome
	done := make(chan struct{}, 2)
	consume := func(i int, b Buffer, prog int) {
		switch prog {
		case 0: // read everything
			r := b.ToChunkReader(0, 2)
			for k := 0; k < 8; k++ {
				c, err := r.Read()
				o[i].data = append(o[i].data, c...)
				if err != nil {
					o[i].err = err
					break
				}
			}
			r.Close()
			o[i].readAll = true
		case 1: // read one chunk, then give up
			r := b.ToChunkReader(0, 2)
			r.Read()
			r.Close()
		case 2:
			b.Discard()
		}
		done <- struct{}{}
	}
	p1, p2 := vnd.Choose(3), vnd.Choose(3)
	go consume(0, b1, p1)
	go consume(1, b2, p2)
	<-done
	<-done
	vnd.Assert(src.closes == 1, "underlying source not closed exactly once")
	if o[0].readAll && o[1].readAll {
		vnd.Cover("both-read-all")
		vnd.Assert(verifBytesEqual(o[0].data, o[1].data), "two consumers of the same stream saw different bytes")
		vnd.Assert((o[0].err == io.EOF) == (o[1].err == io.EOF), "one consumer completed while the other failed")
	}
	for i := 0; i < 2; i++ {
		if o[i].readAll && o[i].err == io.EOF {
			vnd.Cover("completed")
			vnd.Assert(verifBytesEqual(o[i].data, ref.data), "a consumer completed with bytes other than the object's")
		}
	}
}
