//go:build verif

package buffer

import (
	"io"

	vnd "github.com/buildbarn/bb-storage/internal/verifnd"

	"google.golang.org/grpc/codes"
	"google.golang.org/grpc/status"
)

// ---- C16 scaffolding ---------------------------------------------------------
//
// A run consists of a sequence of buffers B0, B1, B2, ...: B0 is the original
// buffer, Bi (i >= 1) is the replacement that the error handler stub returned
// from its i-th OnError call. Every buffer is one of
//
//   reader   CAS buffer over a scripted io.ReadCloser  (NewCASBufferFromReader)
//   chunk    CAS buffer over a scripted ChunkReader    (NewCASBufferFromChunkReader)
//   slice    NewValidatedBufferFromByteSlice of symbolic bytes of a chosen length
//   casslice NewCASBufferFromByteSlice of symbolic bytes (validated eagerly)
//   errbuf   NewBufferFromError
//
// A scripted source delivers `data` (symbolic bytes, chosen length) in one or
// two deliveries and then ends either with io.EOF or with its own I/O error:
// the failure position is len(data). Every source and every handler call has
// its own error VALUE, so the oracle can tell by identity which error reached
// whom.

const (
	verifC16Reader = iota
	verifC16Chunk
	verifC16Slice
	verifC16ErrBuf
	verifC16CASSlice
	verifC16HandlerError // not a buffer: OnError returns an error
	verifC16Wrapped      // original only: a buffer that already has an (inner) error handler attached
)

var (
	verifC16IOErrs = []error{
		status.Error(codes.Unavailable, "verif: I/O error of source 0"),
		status.Error(codes.Unavailable, "verif: I/O error of source 1"),
		status.Error(codes.Unavailable, "verif: I/O error of source 2"),
		status.Error(codes.Unavailable, "verif: I/O error of source 3"),
		status.Error(codes.Unavailable, "verif: I/O error of source 4"),
		status.Error(codes.Unavailable, "verif: I/O error of source 5"),
		status.Error(codes.Unavailable, "verif: I/O error of source 6"),
		status.Error(codes.Unavailable, "verif: I/O error of source 7"),
	}
	verifC16BufErrs = []error{
		status.Error(codes.DataLoss, "verif: error buffer 0"),
		status.Error(codes.DataLoss, "verif: error buffer 1"),
		status.Error(codes.DataLoss, "verif: error buffer 2"),
		status.Error(codes.DataLoss, "verif: error buffer 3"),
		status.Error(codes.DataLoss, "verif: error buffer 4"),
		status.Error(codes.DataLoss, "verif: error buffer 5"),
		status.Error(codes.DataLoss, "verif: error buffer 6"),
		status.Error(codes.DataLoss, "verif: error buffer 7"),
	}
	verifC16HandlerErrs = []error{
		status.Error(codes.Aborted, "verif: handler error 0"),
		status.Error(codes.Aborted, "verif: handler error 1"),
		status.Error(codes.Aborted, "verif: handler error 2"),
		status.Error(codes.Aborted, "verif: handler error 3"),
		status.Error(codes.Aborted, "verif: handler error 4"),
		status.Error(codes.Aborted, "verif: handler error 5"),
		status.Error(codes.Aborted, "verif: handler error 6"),
		status.Error(codes.Aborted, "verif: handler error 7"),
	}
)

// Cover tags of cases that only some consumers can reach (held in variables so
// that they are recorded where they occur without being demanded of every harness).
var (
	verifC16TagIOMasked      = "c16-io-error-masked-by-size-check"
	verifC16TagHandlerMasked = "c16-handler-error-masked-by-size-check"
)

// verifC16Stream is a scripted source with an explicit failure position.
type verifC16Stream struct {
	data  []byte // everything the source can deliver
	cut   int    // the first delivery ends here, the second at len(data)
	end   int    // verifDeliverEOF or verifDeliverErr: what follows the data
	joint bool   // reader only: the end indication accompanies the last bytes
	ioErr error

	pos        int
	emptyGiven bool
	closes     int
	errReturns int
	eofReturns int
}

// Detail levels of a drawn buffer. verifC16Rich: one or two deliveries at any
// cut, end indication with or apart from the last bytes. verifC16Medium: readers
// deliver at once, chunk sources in one chunk or 1+rest. verifC16Lean: one
// delivery, an I/O error accompanies the last bytes. The thorough tier draws
// everything one step richer.
const (
	verifC16Rich = iota
	verifC16Medium
	verifC16Lean
)

func verifC16NewStream(id, maxT int, reader bool, level int) *verifC16Stream {
	if vnd.Thorough() && level > verifC16Rich {
		level-- // thorough tier: one step more detail
	}
	t := vnd.Choose(maxT + 1)
	s := &verifC16Stream{data: vnd.Bytes(t), cut: t, ioErr: verifC16IOErrs[id]}
	switch level {
	case verifC16Rich:
		if reader {
			if t > 1 {
				s.cut = 1 + vnd.Choose(t) // 1..t
			}
		} else if t > 0 {
			s.cut = vnd.Choose(t + 1) // 0..t; 0 = an empty chunk first
		}
		s.end = verifDeliverEOF + vnd.Choose(2)
		if reader && t > 0 {
			s.joint = vnd.Choose(2) == 1
		}
	case verifC16Medium:
		if reader {
			switch vnd.Choose(3) {
			case 0:
				s.end = verifDeliverEOF
			case 1:
				s.end = verifDeliverErr
			case 2:
				s.end = verifDeliverErr
				s.joint = t > 0
			}
		} else {
			if t > 1 && vnd.Choose(2) == 1 {
				s.cut = 1
			}
			s.end = verifDeliverEOF + vnd.Choose(2)
		}
	default:
		s.end = verifDeliverEOF + vnd.Choose(2)
		s.joint = reader && t > 0 && s.end == verifDeliverErr
	}
	return s
}

// verifC16SliceLen draws the length of a byte slice replacement.
func verifC16SliceLen(n, maxT, level int, cas bool) int {
	if vnd.Thorough() {
		return vnd.Choose(maxT + 1)
	}
	lo, hi := n-1, n+1
	if level == verifC16Lean {
		hi = n
	}
	if cas {
		lo = n
	}
	if lo < 0 {
		lo = 0
	}
	if hi > maxT {
		hi = maxT
	}
	return lo + vnd.Choose(hi-lo+1)
}

func (s *verifC16Stream) endErr() error {
	if s.end == verifDeliverErr {
		s.errReturns++
		return s.ioErr
	}
	s.eofReturns++
	return io.EOF
}

func (s *verifC16Stream) delivered() []byte { return s.data[:s.pos] }

type verifC16ReaderSrc struct{ s *verifC16Stream }

func (r verifC16ReaderSrc) Read(p []byte) (int, error) {
	s := r.s
	if s.closes > 0 {
		vnd.Unreachable("Read after Close on a source")
	}
	if s.pos >= len(s.data) {
		return 0, s.endErr()
	}
	limit := len(s.data)
	if s.pos < s.cut {
		limit = s.cut
	}
	n := copy(p, s.data[s.pos:limit])
	s.pos += n
	if s.pos == len(s.data) && s.joint {
		return n, s.endErr()
	}
	return n, nil
}

func (r verifC16ReaderSrc) Close() error {
	r.s.closes++
	return nil
}

type verifC16ChunkSrc struct{ s *verifC16Stream }

func (r verifC16ChunkSrc) Read() ([]byte, error) {
	s := r.s
	if s.closes > 0 {
		vnd.Unreachable("Read after Close on a chunk source")
	}
	if s.pos >= len(s.data) {
		return nil, s.endErr()
	}
	if s.cut == 0 && !s.emptyGiven {
		s.emptyGiven = true
		return []byte{}, nil
	}
	limit := len(s.data)
	if s.pos < s.cut {
		limit = s.cut
	}
	c := s.data[s.pos:limit]
	s.pos = limit
	return c, nil
}

func (r verifC16ChunkSrc) Close() { r.s.closes++ }

// verifC16Buf is one buffer of the sequence together with what the oracle
// needs to know about it.
type verifC16Buf struct {
	kind  int
	st    *verifC16Stream  // reader, chunk
	data  []byte           // slice, casslice (validated case)
	err   error            // errbuf, casslice (rejected case)
	inner *verifC16Handler // wrapped
	integ *verifIntegrity
	buf   Buffer
}

func verifC16NewBuf(ref *verifRef, id, kind, maxT, level int) *verifC16Buf {
	b := &verifC16Buf{kind: kind, integ: &verifIntegrity{}}
	src := BackendProvided(b.integ.callback)
	switch kind {
	case verifC16Reader:
		b.st = verifC16NewStream(id, maxT, true, level)
		b.buf = NewCASBufferFromReader(ref.digest, verifC16ReaderSrc{b.st}, src)
	case verifC16Chunk:
		b.st = verifC16NewStream(id, maxT, false, level)
		b.buf = NewCASBufferFromChunkReader(ref.digest, verifC16ChunkSrc{b.st}, src)
	case verifC16Slice:
		b.data = vnd.Bytes(verifC16SliceLen(ref.n, maxT, level, false))
		b.buf = NewValidatedBufferFromByteSlice(b.data)
	case verifC16CASSlice:
		data := vnd.Bytes(verifC16SliceLen(ref.n, maxT, level, true))
		b.buf = NewCASBufferFromByteSlice(ref.digest, data, src)
		if eb, ok := b.buf.(errorBuffer); ok {
			// rejected: behaves as an error buffer from here on
			vnd.Assert(vnd.Not(verifBytesEqual(data, ref.data)), "NewCASBufferFromByteSlice rejected the object's own content")
			vnd.Assert(status.Code(eb.err) == codes.Internal, "backend-provided byte slice failed validation with a code other than INTERNAL")
			b.kind = verifC16ErrBuf
			b.err = eb.err
		} else {
			vnd.Assert(verifBytesEqual(data, ref.data), "NewCASBufferFromByteSlice accepted content that differs from the digest's content")
			b.kind = verifC16Slice
			b.data = data
		}
	case verifC16ErrBuf:
		b.err = verifC16BufErrs[id]
		b.buf = NewBufferFromError(b.err)
	}
	return b
}

// verifC16Opt: the kinds one OnError call may return and their detail level.
type verifC16Opt struct {
	kinds []int
	level int
}

// verifC16Handler is the ErrorHandler stub.
type verifC16Handler struct {
	ref     *verifRef
	maxT    int
	options []verifC16Opt // options[i]: what call i+1 may return; beyond that: an error
	retried bool          // consumer retries whole operations (ToByteSlice, ReadAt) instead of stitching
	idBase  int           // first index into the error value tables (distinct per handler)

	calls   int
	done    int
	args    []error
	bufs    []*verifC16Buf // bufs[0] = original, then one per replacement handed out
	lastErr error          // what the most recent OnError call returned as error (nil: a buffer)
	// cloneReplacements: stream replacements are handed out as one half of a stream clone (the
	// other half is discarded), as a replicating backend does
	cloneReplacements bool
}

func (h *verifC16Handler) OnError(err error) (Buffer, error) {
	vnd.Assert(h.done == 0, "OnError called after Done")
	vnd.Assert(err != nil && err != io.EOF, "OnError called with nil or io.EOF")
	h.checkArg(err)
	h.args = append(h.args, err)
	i := h.calls
	h.calls++
	kind := verifC16HandlerError
	level := verifC16Lean
	if i < len(h.options) {
		opts := h.options[i].kinds
		kind = opts[vnd.Choose(len(opts))]
		level = h.options[i].level
	}
	if kind == verifC16HandlerError {
		h.lastErr = verifC16HandlerErrs[h.idBase+i]
		return nil, h.lastErr
	}
	h.lastErr = nil
	b := verifC16NewBuf(h.ref, h.idBase+len(h.bufs), kind, h.maxT, level)
	h.bufs = append(h.bufs, b)
	if h.cloneReplacements && (b.kind == verifC16Reader || b.kind == verifC16Chunk) {
		b1, b2 := b.buf.CloneStream()
		go b2.Discard() // in its own goroutine: a clone waits until its sibling has said how it will read
		return b1, nil
	}
	return b.buf, nil
}

func (h *verifC16Handler) Done() { h.done++ }

// stitched is the stream a correct implementation presents to the validator:
// every buffer contributes the bytes it delivered beyond what its predecessors
// already supplied (it is opened at the offset reached so far).
func (h *verifC16Handler) stitched() []byte {
	var s []byte
	for _, b := range h.bufs {
		var d []byte
		switch b.kind {
		case verifC16Reader, verifC16Chunk:
			d = b.st.delivered()
		case verifC16Slice:
			d = b.data
		case verifC16Wrapped:
			d = b.inner.stitched()
		}
		if len(d) > len(s) {
			s = append(s, d[len(s):]...)
		}
	}
	return s
}

// checkArg: the error offered to the handler is the failure of the buffer that
// is currently in use, and that failure has not been offered before.
func (h *verifC16Handler) checkArg(err error) {
	cur := h.bufs[len(h.bufs)-1]
	for _, prev := range h.args {
		vnd.Assert(prev != err, "the same underlying error was offered to the handler twice")
	}
	vnd.Assert(h.lastErr == nil, "OnError called again after the handler returned an error")
	switch cur.kind {
	case verifC16Reader, verifC16Chunk:
		if err == cur.st.ioErr {
			vnd.Assert(cur.st.errReturns > 0, "handler was offered an I/O error that the source never returned")
			return
		}
		// whole-operation retries also offer the buffer's own validation failure
		vnd.Assert(h.retried, "streaming consumer: handler was offered something other than the current source's I/O error")
		vnd.Assert(status.Code(err) == codes.Internal || status.Code(err) == codes.InvalidArgument, "retrying consumer: handler was offered an error that is neither the source's I/O error nor a validation failure")
		if status.Code(err) == codes.Internal {
			vnd.Assert(vnd.Not(verifBytesEqual(cur.st.delivered(), h.ref.data)), "a validation failure was reported for a source that delivered exactly the object")
		}
	case verifC16Wrapped:
		// an inner handler sees every failure first: only what it returned gets out
		vnd.Assert(err == cur.inner.lastErr, "outer handler was offered something other than the error the inner handler returned")
	case verifC16ErrBuf:
		vnd.Assert(err == cur.err, "handler was offered something other than the error buffer's error")
	case verifC16Slice:
		// a byte slice can only fail by being too short for the resume offset or too long for the caller's limit
		vnd.Assert(status.Code(err) == codes.InvalidArgument, "a validated byte slice buffer failed with an unexpected error")
	}
}

// final checks that hold on every path once the consumer has let go of the buffer.
func (h *verifC16Handler) checkEnd(strict bool) {
	vnd.Assert(h.done == 1, "Done not called exactly once")
	for _, b := range h.bufs {
		if b.inner != nil {
			b.inner.checkEnd(strict)
		}
		if b.st == nil {
			continue
		}
		vnd.Assert(b.st.closes == 1, "an underlying source was not closed exactly once")
		offered := 0
		for _, a := range h.args {
			if a == b.st.ioErr {
				offered++
			}
		}
		vnd.Assert(offered <= 1, "an I/O error was offered to the handler more than once")
		vnd.Assert(vnd.Implies(offered == 1, b.st.errReturns > 0), "the handler was offered an I/O error that the source never returned")
		if strict && b.st.errReturns > 0 && offered == 0 {
			// The only thing that may come between a source's I/O error and the
			// handler is the size check on the bytes that accompanied the error.
			vnd.Cover(verifC16TagIOMasked)
			if h.retried {
				vnd.Assert(len(b.st.delivered()) > h.ref.n, "an I/O error of an underlying source was not offered to the handler")
			} else {
				vnd.Assert(len(h.stitched()) > h.ref.n, "an I/O error of an underlying source was not offered to the handler")
			}
		}
	}
}

func verifC16Bounds() (maxN int) {
	if vnd.Thorough() {
		return 3
	}
	return 2
}

// verifC16Setup draws the reference object and the original buffer and wraps it.
func verifC16Setup(origKinds []int, origLevel int, options []verifC16Opt, retried bool) (*verifRef, *verifC16Handler, Buffer) {
	maxN := verifC16Bounds()
	ref := verifNewRef(vnd.Choose(maxN + 1))
	h := &verifC16Handler{ref: ref, maxT: ref.n + 1, options: options, retried: retried}
	kind := origKinds[vnd.Choose(len(origKinds))]
	b0 := verifC16NewBuf(ref, 0, kind, h.maxT, origLevel)
	h.bufs = append(h.bufs, b0)
	return ref, h, WithErrorHandler(b0.buf, h)
}

// verifC16IsValidation: the error is a size/hash verdict of the stitched stream's validator.
func verifC16IsHandlerErr(err error) bool {
	for _, e := range verifC16HandlerErrs {
		if e == err {
			return true
		}
	}
	return false
}

// verifC16CheckStreamed is the oracle for the stitching consumers (ToReader,
// ToChunkReader, IntoWriter). got = bytes the consumer received from offset
// off on; err = nil for completion.
func verifC16CheckStreamed(ref *verifRef, h *verifC16Handler, off int, got []byte, err error) {
	s := h.stitched()
	whole := verifBytesEqual(s, ref.data)
	// no byte duplicated, none skipped - whether or not the transfer completed
	if len(s) >= off {
		vnd.Assert(verifIsPrefix(got, s[off:]), "bytes handed to the consumer are not the stitched stream from the requested offset: a byte was duplicated or skipped")
	} else {
		vnd.Assert(len(got) == 0, "consumer received data although the stream ended before the requested offset")
	}
	if err == nil {
		vnd.Cover("c16-completed")
		vnd.Assert(whole, "consumer observed completion although the stitched content differs from the object")
		vnd.Assert(verifBytesEqual(got, ref.data[off:]), "consumer completed with bytes that are not exactly R[off:]")
		vnd.Assert(h.lastErr == nil, "consumer observed completion although the handler returned an error")
		if len(h.bufs) > 1 {
			vnd.Cover("c16-completed-after-replacement")
		}
	} else if verifC16IsHandlerErr(err) {
		vnd.Cover("c16-handler-error")
		vnd.Assert(err == h.lastErr, "consumer received a handler error that is not the one the handler returned last")
	} else {
		vnd.Cover("c16-validation-error")
		// the only other legitimate failure: the validator above the stitched stream
		vnd.Assert(status.Code(err) == codes.Internal, "consumer received an error that is neither the handler's nor a validation failure")
		vnd.Assert(vnd.Not(whole), "validation failed although the stitched stream is exactly the object: wrong resume offset")
		if h.lastErr != nil {
			// The handler's error arrived together with bytes that overflow the
			// object's size: the size check on those bytes comes first.
			vnd.Cover(verifC16TagHandlerMasked)
			vnd.Assert(len(s) > ref.n, "handler returned an error but the consumer received a different one")
		}
	}
	b0 := h.bufs[0]
	vnd.Assert(vnd.Implies(b0.integ.valid > 0, whole), "integrity callback received a positive verdict for mismatching stitched content")
	vnd.Assert(vnd.Implies(b0.integ.invalid > 0, vnd.Not(whole)), "integrity callback received a negative verdict for matching stitched content")
	vnd.Assert(b0.integ.valid+b0.integ.invalid <= 1, "integrity callback invoked more than once for one stitched stream")
	h.checkEnd(true)
}
