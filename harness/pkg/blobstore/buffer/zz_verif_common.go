//go:build verif

package buffer

import (
	"hash"
	"io"

	remoteexecution "github.com/bazelbuild/remote-apis/build/bazel/remote/execution/v2"
	vnd "github.com/buildbarn/bb-storage/internal/verifnd"
	"github.com/buildbarn/bb-storage/pkg/digest"

	"google.golang.org/grpc/codes"
	"google.golang.org/grpc/status"
)

// ---- hash idealisation -----------------------------------------------------
//
// The reference object R has a concrete size n and symbolic content. Its digest
// carries a fixed hash string. The model hasher returns exactly those hash
// bytes iff the bytes written to it equal R, and otherwise some value that
// differs from them (collision-freeness for the one reference object, which is
// all a validator may assume about a hash function).

var verifRefHashHex = "000102030405060708090a0b0c0d0e0f"

type verifModelHasher struct {
	bogus    bool // the digest's hash is the hash of NO content (a digest that was made up)
	ref      []byte
	expected []byte
	written  []byte
	sums     int
}

func (h *verifModelHasher) Write(p []byte) (int, error) {
	h.written = append(h.written, p...)
	return len(p), nil
}

func (h *verifModelHasher) Sum(b []byte) []byte {
	h.sums++
	same := len(h.written) == len(h.ref) && !h.bogus
	if same {
		for i := range h.ref {
			same = vnd.And(same, h.written[i] == h.ref[i])
		}
	}
	other := vnd.Bytes(len(h.expected))
	differs := false
	for i := range other {
		differs = vnd.Or(differs, other[i] != h.expected[i])
	}
	vnd.Assume(differs)
	out := make([]byte, len(h.expected))
	for i := range out {
		out[i] = vnd.IteU8(same, h.expected[i], other[i])
	}
	return append(b, out...)
}

func (h *verifModelHasher) Reset()         { h.written = nil }
func (h *verifModelHasher) Size() int      { return len(h.expected) }
func (h *verifModelHasher) BlockSize() int { return 64 }

// verifRef is a reference object with its digest and the installed model hasher.
type verifRef struct {
	bogus   bool
	n       int
	data    []byte
	digest  digest.Digest
	hashers []*verifModelHasher
}

// verifNewBogusRef: a digest of size n whose hash is the hash of no content at all.
func verifNewBogusRef(n int) *verifRef { return verifNewRefKind(n, true) }

func verifNewRef(n int) *verifRef { return verifNewRefKind(n, false) }

func verifNewRefKind(n int, bogus bool) *verifRef {
	r := &verifRef{n: n, data: vnd.Bytes(n), bogus: bogus}
	r.digest = digest.MustNewDigest("", remoteexecution.DigestFunction_MD5, verifRefHashHex, int64(n))
	expected := r.digest.GetHashBytes()
	digest.VerifSetHasherFactory(remoteexecution.DigestFunction_MD5, func(int64) hash.Hash {
		h := &verifModelHasher{ref: r.data, expected: expected, bogus: bogus}
		r.hashers = append(r.hashers, h)
		return h
	})
	return r
}

// ---- scripted source ---------------------------------------------------------

const (
	verifDeliverNil = iota
	verifDeliverEOF
	verifDeliverErr
)

var (
	verifIOErrorStatus = status.Error(codes.Unavailable, "verif: injected I/O error")
	// verifIOError is THE error the scripted sources fail with on the current path: a gRPC
	// status or - verifChooseIOError - io.ErrUnexpectedEOF (what a truncated file or a broken
	// connection yields, and easily mistaken for a clean end of stream).
	verifIOError = verifIOErrorStatus
)

func verifChooseIOError() {
	if vnd.Choose(2) == 1 {
		verifIOError = io.ErrUnexpectedEOF
	} else {
		verifIOError = verifIOErrorStatus
	}
}

func init() { vnd.RegisterReset(func() { verifIOError = verifIOErrorStatus }) }

type verifDelivery struct {
	data []byte
	kind int
}

// verifScript draws a script of at most k deliveries, each 0..maxLen bytes with a
// nil error, io.EOF or an I/O error; after the script the source reports EOF.
func verifScript(k, maxLen int) []verifDelivery {
	cnt := vnd.Choose(k + 1)
	out := make([]verifDelivery, cnt)
	for i := range out {
		out[i].data = vnd.Bytes(vnd.Choose(maxLen + 1))
		out[i].kind = vnd.Choose(3)
	}
	verifLastScript = append([]verifDelivery(nil), out...)
	return out
}

// verifLastScript: the script most recently drawn, so that oracles can speak about the
// COMPLETE content of the source (not only the part a consumer happened to read).
var verifLastScript []verifDelivery

func init() { vnd.RegisterReset(func() { verifLastScript = nil }) }

// verifFullContent: everything the scripted source holds up to its end of stream, and
// whether it fails before reaching it.
func verifFullContent(script []verifDelivery) (content []byte, fails bool) {
	for _, d := range script {
		if d.kind == verifDeliverErr {
			return content, true
		}
		content = append(content, d.data...)
		if d.kind == verifDeliverEOF {
			break
		}
	}
	return content, false
}

type verifReader struct {
	script []verifDelivery
	pos    int
	off    int // offset in current delivery
	closes int
	reads  int
	all    []byte // everything handed out so far
	sticky error
}

func (r *verifReader) Read(p []byte) (int, error) {
	r.reads++
	if r.closes > 0 {
		vnd.Unreachable("Read after Close on the source")
	}
	if r.sticky != nil {
		return 0, r.sticky
	}
	if r.pos >= len(r.script) {
		return 0, io.EOF
	}
	d := &r.script[r.pos]
	n := copy(p, d.data[r.off:])
	r.all = append(r.all, p[:n]...)
	r.off += n
	if r.off < len(d.data) {
		return n, nil
	}
	// delivery exhausted: its error (if any) accompanies the last bytes
	r.pos++
	r.off = 0
	switch d.kind {
	case verifDeliverEOF:
		r.sticky = io.EOF
		return n, io.EOF
	case verifDeliverErr:
		r.sticky = verifIOError
		return n, verifIOError
	}
	return n, nil
}

func (r *verifReader) Close() error {
	r.closes++
	return nil
}

// verifChunkSource is the same script behind the ChunkReader interface.
type verifChunkSource struct {
	script []verifDelivery
	pos    int
	closes int
	all    []byte
	sticky error
}

func (r *verifChunkSource) Read() ([]byte, error) {
	if r.closes > 0 {
		vnd.Unreachable("Read after Close on the chunk source")
	}
	if r.sticky != nil {
		return nil, r.sticky
	}
	if r.pos >= len(r.script) {
		return nil, io.EOF
	}
	d := r.script[r.pos]
	r.pos++
	switch d.kind {
	case verifDeliverEOF:
		// a chunk reader cannot return data together with EOF: data now, EOF next
		r.script = r.script[:r.pos]
	case verifDeliverErr:
		r.sticky = verifIOError
		return nil, verifIOError
	}
	r.all = append(r.all, d.data...)
	return d.data, nil
}

func (r *verifChunkSource) Close() { r.closes++ }

// verifIntegrity records the verdicts passed to the data integrity callback.
type verifIntegrity struct {
	valid, invalid int
}

func (v *verifIntegrity) callback(ok bool) {
	if ok {
		v.valid++
	} else {
		v.invalid++
	}
}

// verifBytesEqual is a fork-free comparison of two byte slices of known lengths.
func verifBytesEqual(a, b []byte) bool {
	if len(a) != len(b) {
		return false
	}
	eq := true
	for i := range a {
		eq = vnd.And(eq, a[i] == b[i])
	}
	return eq
}

// verifIsPrefix: a is a prefix of b (fork-free).
func verifIsPrefix(a, b []byte) bool {
	if len(a) > len(b) {
		return false
	}
	return verifBytesEqual(a, b[:len(a)])
}

type verifWriter struct{ data []byte }

func (w *verifWriter) Write(p []byte) (int, error) {
	w.data = append(w.data, p...)
	return len(p), nil
}
