//go:build verif

package buffer

import (
	"io"

	vnd "github.com/buildbarn/bb-storage/internal/verifnd"

	"google.golang.org/grpc/codes"
	"google.golang.org/grpc/status"
)

// C09 for the remaining constructors: chunk-reader-backed CAS buffers
// (casChunkReaderBuffer, casValidatingChunkReader, normalizingChunkReader,
// offsetChunkReader, chunkReaderBackedReader) with all five consumers, byte
// slice CAS buffers, and CloneCopy. Same oracle as the reader harnesses
// (verifCheckOutcome).

func verifC09ChunkBuffer() (*verifRef, *verifChunkSource, bool, *verifIntegrity, Buffer) {
	verifChooseIOError()
	maxN, k, maxLen := verifC09Bounds()
	ref := verifNewRef(vnd.Choose(maxN + 1))
	src := &verifChunkSource{script: verifScript(k, maxLen)}
	backend := vnd.Choose(2) == 1
	integ := &verifIntegrity{}
	return ref, src, backend, integ, NewCASBufferFromChunkReader(ref.digest, src, verifSource(backend, integ))
}

// Verif_C09_V6_ChunkToByteSlice: chunk-reader-backed CAS buffer consumed as a whole.
func Verif_C09_V6_ChunkToByteSlice() {
	ref, src, backend, integ, b := verifC09ChunkBuffer()
	got, err := b.ToByteSlice(10)
	vnd.Assert(src.closes == 1, "source not closed exactly once")
	verifCheckOutcome(ref, src.all, src.sticky == verifIOError, 0, got, err, integ, backend)
	vnd.ObserveBytes("got", got)
}

// Verif_C09_V7_ChunkIntoWriter: what reaches the writer before a validation
// error is a strict prefix of a complete-looking stream.
func Verif_C09_V7_ChunkIntoWriter() {
	ref, src, backend, integ, b := verifC09ChunkBuffer()
	w := &verifWriter{}
	err := b.IntoWriter(w)
	vnd.Assert(src.closes == 1, "source not closed exactly once")
	verifCheckOutcome(ref, src.all, src.sticky == verifIOError, 0, w.data, err, integ, backend)
	if err != nil {
		vnd.Assert(verifIsPrefix(w.data, src.all), "bytes handed to the writer are not a prefix of the source stream")
		if len(src.all) == ref.n && src.sticky != verifIOError && ref.n > 0 {
			vnd.Assert(len(w.data) < len(src.all), "the complete mismatching content was handed to the consumer before the error")
		}
	}
	vnd.ObserveBytes("written", w.data)
}

// Verif_C09_V8_ChunkToReader: ToReader over a chunk source, reads of chosen sizes.
func Verif_C09_V8_ChunkToReader() {
	ref, src, backend, integ, b := verifC09ChunkBuffer()
	r := b.ToReader()
	psize := 1 + vnd.Choose(2)
	var got []byte
	var err error
	for i := 0; i < 2*(ref.n+2)+2; i++ {
		p := make([]byte, psize)
		var n int
		n, err = r.Read(p)
		got = append(got, p[:n]...)
		if err != nil {
			break
		}
	}
	vnd.Assert(err != nil, "reader neither finished nor failed within the unwinding bound")
	_, err2 := r.Read(make([]byte, 1))
	vnd.Assert(err2 == err, "error of a validating reader is not sticky")
	r.Close()
	vnd.Assert(src.closes == 1, "source not closed exactly once")
	var cerr error
	if err != io.EOF {
		cerr = err
	}
	verifCheckOutcome(ref, src.all, src.sticky == verifIOError, 0, got, cerr, integ, backend)
	if cerr != nil {
		vnd.Assert(verifIsPrefix(got, src.all), "bytes read are not a prefix of the source stream")
		if len(src.all) == ref.n && src.sticky != verifIOError && ref.n > 0 {
			vnd.Assert(len(got) < len(src.all), "the complete mismatching content was handed to the consumer before the error")
		}
	}
	vnd.ObserveBytes("read", got)
}

// Verif_C09_V9_ChunkToChunkReader: chunked consumption at an offset with a
// maximum chunk size; no empty chunks, none larger than the maximum.
func Verif_C09_V9_ChunkToChunkReader() {
	ref, src, backend, integ, b := verifC09ChunkBuffer()
	off := vnd.Choose(ref.n+3) - 1 // -1 .. n+1
	maxChunk := 1 + vnd.Choose(2)
	cr := b.ToChunkReader(int64(off), maxChunk)
	var got []byte
	var err error
	for i := 0; i < 2*(ref.n+2)+2; i++ {
		var c []byte
		c, err = cr.Read()
		vnd.Assert(len(c) <= maxChunk, "chunk larger than the maximum chunk size")
		if err == nil {
			vnd.Assert(len(c) > 0, "normalized chunk reader returned an empty chunk")
		}
		got = append(got, c...)
		if err != nil {
			break
		}
	}
	vnd.Assert(err != nil, "chunk reader neither finished nor failed within the unwinding bound")
	_, err2 := cr.Read()
	vnd.Assert(err2 == err, "error of a validating chunk reader is not sticky")
	cr.Close()
	vnd.Assert(src.closes == 1, "source not closed exactly once")
	var cerr error
	if err != io.EOF {
		cerr = err
	}
	if off < 0 || off > ref.n {
		vnd.Cover("bad-offset")
		vnd.Assert(cerr != nil, "read at an offset outside the object did not fail")
		vnd.Assert(len(got) == 0, "read at an offset outside the object returned data")
		return
	}
	verifCheckOutcome(ref, src.all, src.sticky == verifIOError, off, got, cerr, integ, backend)
	if cerr != nil && len(src.all) == ref.n && src.sticky != verifIOError && ref.n > 0 {
		vnd.Assert(off+len(got) < len(src.all) || len(got) == 0, "the complete mismatching content was handed to the consumer before the error")
	}
	vnd.ObserveBytes("chunks", got)
}

// Verif_C09_V10_ChunkReadAt: ReadAt(p, off) over a chunk source.
func Verif_C09_V10_ChunkReadAt() {
	ref, src, backend, integ, b := verifC09ChunkBuffer()
	off := vnd.Choose(ref.n+3) - 1
	plens := ref.n + 2
	if plens > 3 && !vnd.Thorough() {
		plens = 3
	}
	p := make([]byte, vnd.Choose(plens))
	n, err := b.ReadAt(p, int64(off))
	vnd.Assert(src.closes == 1, "source not closed exactly once")
	matches := verifBytesEqual(src.all, ref.data)
	if err == nil || err == io.EOF {
		vnd.Cover("readat-ok")
		vnd.Assert(matches, "ReadAt succeeded although the source content differs from the digest's content")
		vnd.Assert(off >= 0, "ReadAt at a negative offset succeeded")
		if off >= 0 && off <= ref.n {
			want := ref.data[off:]
			if len(want) > len(p) {
				want = want[:len(p)]
			}
			vnd.Assert(n == len(want), "ReadAt returned a wrong byte count")
			if n == len(want) {
				vnd.Assert(verifBytesEqual(p[:n], want), "ReadAt returned bytes that are not the object's bytes at that offset")
			}
			vnd.Assert((err == io.EOF) == (n < len(p)), "ReadAt end-of-file indication inconsistent with the byte count")
		} else {
			vnd.Assert(n == 0, "ReadAt beyond the object returned data")
		}
	} else {
		vnd.Cover("readat-failed")
		vnd.Assert(n == 0, "ReadAt returned data together with an error")
		c := status.Code(err)
		if !(src.sticky == verifIOError && err == verifIOError) && off >= 0 {
			if backend {
				vnd.Assert(vnd.Implies(integ.invalid > 0, c == codes.Internal), "backend-provided data failed validation with a code other than INTERNAL")
			} else {
				vnd.Assert(c == codes.InvalidArgument, "client-supplied data failed validation with a code other than INVALID_ARGUMENT")
			}
		}
	}
	vnd.Assert(vnd.Implies(integ.valid > 0, matches), "integrity callback received a positive verdict for mismatching content")
	vnd.Assert(vnd.Implies(integ.invalid > 0, vnd.Not(matches)), "integrity callback received a negative verdict for matching content")
	vnd.Assert(integ.valid+integ.invalid <= 1, "integrity callback invoked more than once for one validated stream")
	vnd.ObserveBytes("readat", p[:n])
}

// ---- generic consumption -----------------------------------------------------

const (
	verifUseByteSlice = iota
	verifUseWriter
	verifUseReader
	verifUseChunkReader
	verifUseReadAt
	verifUseCount
)

// verifConsume reads b through the chosen method from offset off on (methods
// without an offset parameter read from 0 and report off = 0). err == nil means
// the consumer observed completion.
func verifConsume(b Buffer, how, off, n int) (got []byte, rerr error, usedOff int) {
	switch how {
	case verifUseByteSlice:
		got, rerr = b.ToByteSlice(10)
		return got, rerr, 0
	case verifUseWriter:
		w := &verifWriter{}
		rerr = b.IntoWriter(w)
		return w.data, rerr, 0
	case verifUseReader:
		r := b.ToReader()
		var err error
		for i := 0; i < 2*(n+2)+2; i++ {
			p := make([]byte, 1)
			var m int
			m, err = r.Read(p)
			got = append(got, p[:m]...)
			if err != nil {
				break
			}
		}
		vnd.Assert(err != nil, "reader neither finished nor failed within the unwinding bound")
		r.Close()
		if err != io.EOF {
			rerr = err
		}
		return got, rerr, 0
	case verifUseChunkReader:
		cr := b.ToChunkReader(int64(off), 2)
		var err error
		for i := 0; i < 2*(n+2)+2; i++ {
			var c []byte
			c, err = cr.Read()
			got = append(got, c...)
			if err != nil {
				break
			}
		}
		vnd.Assert(err != nil, "chunk reader neither finished nor failed within the unwinding bound")
		cr.Close()
		if err != io.EOF {
			rerr = err
		}
		return got, rerr, off
	default:
		// a window that always reaches the end of the object
		p := make([]byte, n+1)
		m, err := b.ReadAt(p, int64(off))
		if err != io.EOF {
			rerr = err
		}
		return p[:m], rerr, off
	}
}

// Verif_C09_V11_ByteSlice: NewCASBufferFromByteSlice validates eagerly; a
// mismatch yields an error buffer, from which no consumer obtains any data.
func Verif_C09_V11_ByteSlice() {
	maxN, _, _ := verifC09Bounds()
	ref := verifNewRefKind(vnd.Choose(maxN+1), vnd.Choose(2) == 1)
	data := vnd.Bytes(vnd.Choose(maxN + 2))
	backend := vnd.Choose(2) == 1
	integ := &verifIntegrity{}
	b := NewCASBufferFromByteSlice(ref.digest, data, verifSource(backend, integ))
	matches := verifBytesEqual(data, ref.data)
	if ref.bogus {
		// a digest whose hash is the hash of no content (of any size, including 0): nothing matches it
		vnd.Cover("slice-bogus-digest")
		matches = false
	}
	_, rejected := b.(errorBuffer)
	vnd.Assert(rejected == vnd.Not(matches), "byte slice CAS buffer: accepted mismatching content or rejected the object's own content")
	if backend {
		vnd.Assert(integ.valid+integ.invalid == 1, "byte slice CAS buffer: integrity verdict not delivered exactly once at construction")
		vnd.Assert(vnd.Implies(integ.valid > 0, matches), "integrity callback received a positive verdict for mismatching content")
		vnd.Assert(vnd.Implies(integ.invalid > 0, vnd.Not(matches)), "integrity callback received a negative verdict for matching content")
	}
	size, serr := b.GetSizeBytes()
	how := vnd.Choose(verifUseCount)
	off := 0
	if how == verifUseChunkReader || how == verifUseReadAt {
		off = vnd.Choose(ref.n + 1)
	}
	got, err, usedOff := verifConsume(b, how, off, ref.n)
	if rejected {
		vnd.Cover("slice-rejected")
		vnd.Assert(serr != nil, "error buffer reports a size")
		vnd.Assert(err != nil, "rejected byte slice was read successfully")
		vnd.Assert(len(got) == 0, "rejected byte slice handed out data")
		c := status.Code(err)
		if backend {
			vnd.Assert(c == codes.Internal, "backend-provided data failed validation with a code other than INTERNAL")
		} else {
			vnd.Assert(c == codes.InvalidArgument, "client-supplied data failed validation with a code other than INVALID_ARGUMENT")
		}
	} else {
		vnd.Cover("slice-accepted")
		vnd.Assert(serr == nil && size == int64(ref.n), "accepted byte slice reports a wrong size")
		vnd.Assert(err == nil, "accepted byte slice failed to read")
		vnd.Assert(matches, "consumer observed completion although the content differs from the digest's content")
		vnd.Assert(verifBytesEqual(got, ref.data[usedOff:]), "consumer completed with bytes that are not the object's suffix at the requested offset")
	}
	if backend {
		vnd.Assert(integ.valid+integ.invalid == 1, "byte slice CAS buffer: consuming the buffer produced another integrity verdict")
	}
	vnd.ObserveBytes("got", got)
}

// Verif_C09_V12_CloneCopy: CloneCopy(max) of a stream-backed CAS buffer, then
// both copies are consumed. Both see the whole validated object or the same
// error; the source is read and closed once; one verdict at most.
func Verif_C09_V12_CloneCopy() {
	maxN, k, maxLen := verifC09Bounds()
	ref := verifNewRef(vnd.Choose(maxN + 1))
	backend := vnd.Choose(2) == 1
	integ := &verifIntegrity{}
	max := 10
	if ref.n > 0 && vnd.Choose(2) == 1 {
		max = ref.n - 1
	}
	// The chunking of the source is the business of V1/V6 (CloneCopy goes
	// through ToByteSlice): quick tier draws a single delivery of any length.
	var script []verifDelivery
	if max >= ref.n {
		if vnd.Thorough() {
			script = verifScript(k, maxLen)
		} else {
			script = verifScript(1, maxN+1)
		}
	}
	var b Buffer
	var rsrc *verifReader
	var csrc *verifChunkSource
	if vnd.Choose(2) == 0 {
		rsrc = &verifReader{script: script}
		b = NewCASBufferFromReader(ref.digest, rsrc, verifSource(backend, integ))
	} else {
		csrc = &verifChunkSource{script: script}
		b = NewCASBufferFromChunkReader(ref.digest, csrc, verifSource(backend, integ))
	}
	b1, b2 := b.CloneCopy(max)
	// the source is consumed and released by the time the copies exist
	var all []byte
	var errored bool
	if rsrc != nil {
		vnd.Assert(rsrc.closes == 1, "source not closed exactly once")
		all, errored = rsrc.all, rsrc.sticky == verifIOError
	} else {
		vnd.Assert(csrc.closes == 1, "source not closed exactly once")
		all, errored = csrc.all, csrc.sticky == verifIOError
	}
	how1 := vnd.Choose(verifUseCount)
	how2 := (how1 + 2) % verifUseCount
	off1 := 0
	if how1 == verifUseChunkReader || how1 == verifUseReadAt {
		off1 = vnd.Choose(ref.n + 1)
	}
	got1, err1, used1 := verifConsume(b1, how1, off1, ref.n)
	got2, err2, used2 := verifConsume(b2, how2, ref.n/2, ref.n)
	if max < ref.n {
		vnd.Cover("clone-too-large")
		vnd.Assert(err1 != nil && err2 != nil, "copy of an object larger than the permitted maximum was readable")
		vnd.Assert(status.Code(err1) == codes.InvalidArgument, "object larger than the permitted maximum: error code is not INVALID_ARGUMENT")
		vnd.Assert(len(got1) == 0 && len(got2) == 0, "copy of an object larger than the permitted maximum handed out data")
		vnd.Assert(integ.valid+integ.invalid == 0, "integrity verdict although nothing was read")
		return
	}
	vnd.Assert((err1 == nil) == (err2 == nil), "one copy was readable, the other was not")
	if err1 != nil {
		vnd.Assert(err1 == err2, "the two copies fail with different errors")
		vnd.Assert(len(got1) == 0 && len(got2) == 0, "a failed copy handed out data")
	}
	verifCheckOutcome(ref, all, errored, used1, got1, err1, integ, backend)
	verifCheckOutcome(ref, all, errored, used2, got2, err2, integ, backend)
	vnd.ObserveBytes("got1", got1)
	vnd.ObserveBytes("got2", got2)
}

// Verif_C09_V13_StreamClones: completion through a stream clone implies matching
// content, whichever clone arrives first and whatever the other clone does.
//
// symgo: maxpaths=400000
func Verif_C09_V13_StreamClones() { verifScenarioMultiplexer() }

// Verif_C09_V14_ChunkTrailingData: a chunk-reader source that delivers exactly the
// object's bytes (in one or two chunks), then any number (0..2) of EMPTY chunks,
// then optionally more data, then EOF: the consumer may only observe completion
// if nothing followed; trailing data after empty chunks is still "too big".
func Verif_C09_V14_ChunkTrailingData() {
	n := 1 + vnd.Choose(2)
	ref := verifNewRef(n)
	var script []verifDelivery
	if n == 2 && vnd.Choose(2) == 1 {
		script = append(script, verifDelivery{data: ref.data[:1]}, verifDelivery{data: ref.data[1:]})
	} else {
		script = append(script, verifDelivery{data: ref.data})
	}
	empties := vnd.Choose(3)
	for i := 0; i < empties; i++ {
		script = append(script, verifDelivery{data: []byte{}})
	}
	trailing := vnd.Choose(2) == 1
	if trailing {
		script = append(script, verifDelivery{data: vnd.Bytes(1)})
	}
	src := &verifChunkSource{script: script}
	backend := vnd.Choose(2) == 1
	integ := &verifIntegrity{}
	b := NewCASBufferFromChunkReader(ref.digest, src, verifSource(backend, integ))
	var got []byte
	var err error
	switch vnd.Choose(3) {
	case 0:
		got, err = b.ToByteSlice(10)
	case 1:
		w := &verifWriter{}
		err = b.IntoWriter(w)
		got = w.data
	case 2:
		r := b.ToChunkReader(0, 2)
		for i := 0; i < 10; i++ {
			var c []byte
			c, err = r.Read()
			got = append(got, c...)
			if err != nil {
				break
			}
		}
		r.Close()
		if err == io.EOF {
			err = nil
		}
	}
	vnd.Assert(src.closes == 1, "source not closed exactly once")
	if trailing {
		vnd.Cover("trailing-data")
		vnd.Assert(err != nil, "consumer observed completion although data follows the object's last byte (after empty chunks)")
		vnd.Assert(integ.valid == 0, "integrity callback received a positive verdict for oversized content")
	} else {
		vnd.Cover("exact")
		vnd.Assert(err == nil, "exact content followed only by empty chunks was rejected")
		vnd.Assert(verifBytesEqual(got, ref.data), "completed with bytes other than the object's")
	}
	vnd.ObserveBytes("v14", got)
}

// Verif_C09_V15_DecoratedConsumers: decorating a reader-backed CAS buffer with a
// background task and/or an error handler that gives up does not weaken
// validation: every consumption method still completes only on exactly matching
// content, withholds the final portion otherwise, and delivers the verdict.
func Verif_C09_V15_DecoratedConsumers() {
	maxN, k, maxLen := verifC09Bounds()
	ref := verifNewRef(vnd.Choose(maxN + 1))
	src := &verifReader{script: verifScript(k, maxLen)}
	backend := vnd.Choose(2) == 1
	integ := &verifIntegrity{}
	var b Buffer = NewCASBufferFromReader(ref.digest, src, verifSource(backend, integ))
	taskRan := 0
	switch vnd.Choose(3) {
	case 0:
		vnd.Cover("v15-with-task")
		b = b.WithTask(func() error { taskRan++; return nil })
	case 1:
		vnd.Cover("v15-with-error-handler")
		b = WithErrorHandler(b, &verifGiveUpHandler{})
	case 2:
		vnd.Cover("v15-task-over-handler")
		b = WithErrorHandler(b, &verifGiveUpHandler{}).WithTask(func() error { taskRan++; return nil })
	}
	how := vnd.Choose(verifUseCount)
	off := 0
	if how == verifUseChunkReader || how == verifUseReadAt {
		off = vnd.Choose(ref.n + 1)
	}
	got, err, usedOff := verifConsume(b, how, off, ref.n)
	vnd.Assert(src.closes == 1, "source not closed exactly once")
	verifCheckOutcome(ref, src.all, src.sticky == verifIOError, usedOff, got, err, integ, backend)
	if err != nil && how != verifUseReadAt && len(src.all) == ref.n && src.sticky != verifIOError && ref.n > usedOff {
		vnd.Assert(len(got) < ref.n-usedOff, "the complete mismatching content was handed to the consumer of a decorated buffer before the error")
	}
	vnd.ObserveBytes("got", got)
}

// verifGiveUpHandler passes every error through unchanged.
type verifGiveUpHandler struct{ done int }

func (h *verifGiveUpHandler) OnError(err error) (Buffer, error) { return nil, err }
func (h *verifGiveUpHandler) Done()                             { h.done++ }

// Verif_C09_V14b_ReaderTrailingData: the same for an io.ReadCloser source: exactly the
// object's bytes WITHOUT end of stream (in one or two reads), then 0..2 reads that return
// (0, nil) - permitted by io.Reader, to be treated as "nothing happened" -, then optionally
// one more byte, then EOF. The consumer may only observe completion if nothing followed:
// the end-of-stream probe must not take an empty read for the end of the stream.
func Verif_C09_V14b_ReaderTrailingData() {
	n := 1 + vnd.Choose(2)
	ref := verifNewRef(n)
	var script []verifDelivery
	if n == 2 && vnd.Choose(2) == 1 {
		script = append(script, verifDelivery{data: ref.data[:1]}, verifDelivery{data: ref.data[1:]})
	} else {
		script = append(script, verifDelivery{data: ref.data})
	}
	empties := vnd.Choose(3)
	for i := 0; i < empties; i++ {
		script = append(script, verifDelivery{data: []byte{}})
	}
	trailing := vnd.Choose(2) == 1
	if trailing {
		script = append(script, verifDelivery{data: vnd.Bytes(1)})
	}
	src := &verifReader{script: script}
	backend := vnd.Choose(2) == 1
	integ := &verifIntegrity{}
	b := NewCASBufferFromReader(ref.digest, src, verifSource(backend, integ))
	var got []byte
	var err error
	switch vnd.Choose(4) {
	case 0:
		got, err = b.ToByteSlice(10)
	case 1:
		w := &verifWriter{}
		err = b.IntoWriter(w)
		got = w.data
	case 2:
		r := b.ToChunkReader(0, 2)
		for i := 0; i < 10; i++ {
			var c []byte
			c, err = r.Read()
			got = append(got, c...)
			if err != nil {
				break
			}
		}
		r.Close()
		if err == io.EOF {
			err = nil
		}
	case 3:
		r := b.ToReader()
		var p [2]byte
		for i := 0; i < 10; i++ {
			var k int
			k, err = r.Read(p[:])
			got = append(got, p[:k]...)
			if err != nil {
				break
			}
		}
		r.Close()
		if err == io.EOF {
			err = nil
		}
	}
	vnd.Assert(src.closes == 1, "source not closed exactly once")
	if trailing {
		vnd.Cover("trailing-data")
		if empties > 0 {
			vnd.Cover("trailing-data-after-empty-read")
		}
		vnd.Assert(err != nil, "consumer observed completion although data follows the object's last byte (after empty reads)")
		vnd.Assert(integ.valid == 0, "integrity callback received a positive verdict for oversized content")
	} else {
		vnd.Cover("exact")
		vnd.Assert(err == nil, "exact content followed only by empty reads was rejected")
		vnd.Assert(verifBytesEqual(got, ref.data), "completed with bytes other than the object's")
	}
	vnd.ObserveBytes("v14b", got)
}
