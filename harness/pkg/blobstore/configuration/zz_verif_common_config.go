//go:build verif

package configuration

import (
	pb "github.com/buildbarn/bb-storage/pkg/proto/configuration/blobstore"

	status_pb "google.golang.org/genproto/googleapis/rpc/status"
	"google.golang.org/grpc/codes"
)

// verifErrorBackend: the configuration of a leaf backend that answers every
// request with UNAVAILABLE and a message that identifies it.
func verifErrorBackend(name string) *pb.BlobAccessConfiguration {
	return &pb.BlobAccessConfiguration{
		Backend: &pb.BlobAccessConfiguration_Error{
			Error: &status_pb.Status{Code: int32(codes.Unavailable), Message: "leaf " + name},
		},
	}
}

func verifNewNested(cfg *pb.BlobAccessConfiguration) (BlobAccessInfo, error) {
	creator := NewCASBlobAccessCreator(nil, 1<<20, nil)
	return (&simpleNestedBlobAccessCreator{}).NewNestedBlobAccess(cfg, creator)
}
