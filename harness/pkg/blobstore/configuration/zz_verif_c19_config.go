//go:build verif

package configuration

import (
	"context"

	remoteexecution "github.com/bazelbuild/remote-apis/build/bazel/remote/execution/v2"
	vnd "github.com/buildbarn/bb-storage/internal/verifnd"
	"github.com/buildbarn/bb-storage/pkg/digest"
	pb "github.com/buildbarn/bb-storage/pkg/proto/configuration/blobstore"

	"google.golang.org/grpc/codes"
	"google.golang.org/grpc/status"
)

// Verif_C19_T5_ConfiguredDemultiplexer: the demultiplexing composite as ASSEMBLED
// FROM CONFIGURATION (new_blob_access.go), for every iteration order of the
// prefix map: a request is sent to the backend configured for the longest
// component-wise prefix of its instance name - the error comes from THAT leaf -
// and is labelled with the prefix that matched (the caller's name, not the
// replacement prefix); unknown names are rejected with INVALID_ARGUMENT.
func Verif_C19_T5_ConfiguredDemultiplexer() {
	vnd.ExploreMapOrders(true)
	prefixes := []string{"a", "a/b", "c"}
	adds := []string{"x", "", "y/z"}
	n := 2 + vnd.Choose(2)
	m := map[string]*pb.DemultiplexedBlobAccessConfiguration{}
	for i := 0; i < n; i++ {
		m[prefixes[i]] = &pb.DemultiplexedBlobAccessConfiguration{Backend: verifErrorBackend(prefixes[i]), AddInstanceNamePrefix: adds[i]}
	}
	info, err := verifNewNested(&pb.BlobAccessConfiguration{
		Backend: &pb.BlobAccessConfiguration_Demultiplexing{Demultiplexing: &pb.DemultiplexingBlobAccessConfiguration{InstanceNamePrefixes: m}},
	})
	vnd.Assert(err == nil, "a valid demultiplexing configuration was rejected")
	names := []string{"a", "a/q", "a/b", "a/b/c", "ab", "c", "c/d", "", "b"}
	want := []int{0, 0, 1, 1, -1, 2, 2, -1, -1} // index of the longest matching prefix
	k := vnd.Choose(len(names))
	w := want[k]
	if w >= n || (w == 1 && n < 2) {
		// the prefix is not configured in this instance: fall back to the next shorter one
		if names[k] == "a/b" || names[k] == "a/b/c" {
			w = 0
		} else {
			w = -1
		}
	}
	d := digest.MustNewDigest(names[k], remoteexecution.DigestFunction_MD5, "8b1a9953c4611296a827abf8c47804d7", 5)
	_, gerr := info.BlobAccess.Get(context.Background(), d).ToByteSlice(100)
	vnd.Assert(gerr != nil, "a read through error backends succeeded")
	if w < 0 {
		vnd.Cover("t5-unknown-name")
		vnd.Assert(status.Code(gerr) == codes.InvalidArgument, "an instance name no prefix matches was not rejected with INVALID_ARGUMENT")
		return
	}
	vnd.Cover("t5-routed")
	msg := status.Convert(gerr).Message()
	vnd.Assert(status.Code(gerr) == codes.Unavailable, "the backend's error code was not passed through")
	vnd.Assert(msg == "Backend \""+prefixes[w]+"\": leaf "+prefixes[w], "a configured demultiplexer sent a request to a backend other than the one of the longest matching prefix, or labelled the error with another name")
}
