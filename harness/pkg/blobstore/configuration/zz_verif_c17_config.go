//go:build verif

package configuration

// Verif_C17_U6_ConfiguredExistenceCache: see verifScenarioConfiguredExistenceCache (the
// existence cache never answers for an object/name pair the backend was not asked about).
func Verif_C17_U6_ConfiguredExistenceCache() { verifScenarioConfiguredExistenceCache() }
