//go:build verif

package configuration

import (
	"context"

	vnd "github.com/buildbarn/bb-storage/internal/verifnd"
	"github.com/buildbarn/bb-storage/internal/verifstub"
	"github.com/buildbarn/bb-storage/pkg/blobstore/buffer"
	pb "github.com/buildbarn/bb-storage/pkg/proto/configuration/blobstore"

	"google.golang.org/grpc/codes"
	"google.golang.org/grpc/status"
	"google.golang.org/protobuf/types/known/emptypb"
)

func verifInMemoryLocal() *pb.BlobAccessConfiguration {
	return &pb.BlobAccessConfiguration{
		Backend: &pb.BlobAccessConfiguration_Local{Local: &pb.LocalBlobAccessConfiguration{
			KeyLocationMapBackend:            &pb.LocalBlobAccessConfiguration_KeyLocationMapInMemory_{KeyLocationMapInMemory: &pb.LocalBlobAccessConfiguration_KeyLocationMapInMemory{Entries: 16}},
			KeyLocationMapMaximumGetAttempts: 8,
			KeyLocationMapMaximumPutAttempts: 32,
			OldBlocks:                        1,
			CurrentBlocks:                    1,
			NewBlocks:                        1,
			BlocksBackend:                    &pb.LocalBlobAccessConfiguration_BlocksInMemory_{BlocksInMemory: &pb.LocalBlobAccessConfiguration_BlocksInMemory{BlockSizeBytes: 64}},
		}},
	}
}

// Verif_C11_M8_ConfiguredReplicators: the mirrored pair as ASSEMBLED FROM CONFIGURATION
// over two in-memory stores, with DIFFERENT replicator strategies for the two
// directions (one copies, the other is "noop"): an object held by exactly one replica
// and read while the other replica is consulted first is copied to that replica iff the
// replicator configured FOR THAT DIRECTION copies.
func Verif_C11_M8_ConfiguredReplicators() {
	vnd.Replace("(github.com/buildbarn/bb-storage/pkg/random.cryptoSource).Uint64", func(interface{}) uint64 { return 42 })
	creator := NewCASBlobAccessCreator(nil, 1<<20, nil)
	infoA, errA := (&simpleNestedBlobAccessCreator{}).NewNestedBlobAccess(verifInMemoryLocal(), creator)
	infoB, errB := (&simpleNestedBlobAccessCreator{}).NewNestedBlobAccess(verifInMemoryLocal(), creator)
	vnd.Assert(errA == nil && errB == nil, "a valid local storage configuration was rejected")
	local := &pb.BlobReplicatorConfiguration{Mode: &pb.BlobReplicatorConfiguration_Local{Local: &emptypb.Empty{}}}
	noop := &pb.BlobReplicatorConfiguration{Mode: &pb.BlobReplicatorConfiguration_Noop{Noop: &emptypb.Empty{}}}
	aToBCopies := vnd.Choose(2) == 1
	cfg := &pb.MirroredBlobAccessConfiguration{
		BackendA:       &pb.BlobAccessConfiguration{Backend: &pb.BlobAccessConfiguration_Label{Label: "a"}},
		BackendB:       &pb.BlobAccessConfiguration{Backend: &pb.BlobAccessConfiguration_Label{Label: "b"}},
		ReplicatorAToB: noop,
		ReplicatorBToA: local,
	}
	if aToBCopies {
		cfg.ReplicatorAToB, cfg.ReplicatorBToA = local, noop
	}
	nc := &simpleNestedBlobAccessCreator{labels: map[string]BlobAccessInfo{"a": infoA, "b": infoB}}
	mirrored, err := nc.NewNestedBlobAccess(&pb.BlobAccessConfiguration{Backend: &pb.BlobAccessConfiguration_Mirrored{Mirrored: cfg}}, creator)
	vnd.Assert(err == nil, "a valid mirrored configuration was rejected")
	ctx := context.Background()
	obj := verifstub.Universe("inst", 1)[0]
	// the first read consults A first, the second one B
	holderIsB := vnd.Choose(2) == 1
	holder, lacking := infoA.BlobAccess, infoB.BlobAccess
	if holderIsB {
		holder, lacking = infoB.BlobAccess, infoA.BlobAccess
	}
	vnd.Assert(holder.Put(ctx, obj.Digest, buffer.NewValidatedBufferFromByteSlice(obj.Data)) == nil, "upload into one replica failed")
	if !holderIsB {
		// make B the replica consulted first: spend one round
		mirrored.BlobAccess.Get(ctx, obj.Digest).Discard()
	}
	data, err := mirrored.BlobAccess.Get(ctx, obj.Digest).ToByteSlice(100)
	vnd.Assert(err == nil && string(data) == string(obj.Data), "an object held by one replica could not be read through the mirrored pair")
	_, gerr := lacking.Get(ctx, obj.Digest).ToByteSlice(100)
	copies := aToBCopies != holderIsB // direction holder -> lacking is A->B iff the holder is A
	if copies {
		vnd.Cover("m8-direction-copies")
		vnd.Assert(gerr == nil, "the replicator configured for this direction copies, but the replica consulted first still lacks the object")
	} else {
		vnd.Cover("m8-direction-noop")
		vnd.Assert(status.Code(gerr) == codes.NotFound, "the replicator configured for this direction is 'noop', but the object was copied (the other direction's replicator is in use)")
	}
}
