//go:build verif

package configuration

import (
	vnd "github.com/buildbarn/bb-storage/internal/verifnd"
	"github.com/buildbarn/bb-storage/pkg/blobstore/local"
	pb "github.com/buildbarn/bb-storage/pkg/proto/configuration/blobstore"
)

// Verif_C08_Q5_ConfiguredStoreWiring: the quarantine lemmas (Q1-Q4) are about
// OldCurrentNewLocationBlobMap as a BlockReferenceResolver: after a negative
// verdict, references into the quarantined blocks stop resolving THROUGH IT.
// That only protects a running store if the index of the store as ASSEMBLED FROM
// CONFIGURATION (new_blob_access.go) resolves its references through that very
// object - not, say, through the raw block list, which knows nothing about
// quarantines. Checked for flat (CAS, AC) and hierarchical layouts with the
// in-memory index. Not covered: the block-device backed index (opening a block
// device is I/O the engine does not model) - the constructor call is the same
// shape, but it is not executed here.
func Verif_C08_Q5_ConfiguredStoreWiring() {
	hier := vnd.Choose(2) == 1
	cfg := &pb.BlobAccessConfiguration{
		Backend: &pb.BlobAccessConfiguration_Local{Local: &pb.LocalBlobAccessConfiguration{
			KeyLocationMapBackend:            &pb.LocalBlobAccessConfiguration_KeyLocationMapInMemory_{KeyLocationMapInMemory: &pb.LocalBlobAccessConfiguration_KeyLocationMapInMemory{Entries: 16}},
			KeyLocationMapMaximumGetAttempts: 8,
			KeyLocationMapMaximumPutAttempts: 32,
			OldBlocks:                        1,
			CurrentBlocks:                    1,
			NewBlocks:                        1,
			BlocksBackend:                    &pb.LocalBlobAccessConfiguration_BlocksInMemory_{BlocksInMemory: &pb.LocalBlobAccessConfiguration_BlocksInMemory{BlockSizeBytes: 64}},
			HierarchicalInstanceNames:        hier,
		}},
	}
	var creator BlobAccessCreator
	if vnd.Choose(2) == 1 && !hier {
		vnd.Cover("q5-action-cache")
		creator = NewACBlobAccessCreator(&BlobAccessInfo{}, nil, 1<<20)
	} else {
		vnd.Cover("q5-cas")
		creator = NewCASBlobAccessCreator(nil, 1<<20, nil)
	}
	info, _, err := (&simpleNestedBlobAccessCreator{}).newNestedBlobAccessBare(cfg, creator)
	vnd.Assert(err == nil, "a valid local storage configuration was rejected")
	resolver, lbm, ok := local.VerifStoreWiring(info.BlobAccess)
	vnd.Assert(ok, "the configured store is not an index over a location map")
	if hier {
		vnd.Cover("q5-hierarchical")
	}
	vnd.Assert(resolver != nil && lbm != nil, "the configured store has no resolver or no location map")
	same := false
	if r, isLBM := resolver.(local.LocationBlobMap); isLBM {
		same = r == lbm
	}
	vnd.Assert(same, "the index of the configured store does not resolve block references through the store's own (quarantine-aware) location map")
}
