//go:build verif

package configuration

import (
	"context"

	vnd "github.com/buildbarn/bb-storage/internal/verifnd"
	"github.com/buildbarn/bb-storage/internal/verifstub"
	"github.com/buildbarn/bb-storage/pkg/blobstore/buffer"
	"github.com/buildbarn/bb-storage/pkg/digest"
	pb "github.com/buildbarn/bb-storage/pkg/proto/configuration/blobstore"
	digest_pb "github.com/buildbarn/bb-storage/pkg/proto/configuration/digest"
	eviction_pb "github.com/buildbarn/bb-storage/pkg/proto/configuration/eviction"

	"google.golang.org/grpc/codes"
	"google.golang.org/grpc/status"
	"google.golang.org/protobuf/types/known/durationpb"
)

// verifScenarioConfiguredExistenceCache: an existence cache in front of a hierarchical
// local CAS, both ASSEMBLED FROM CONFIGURATION: what the cache remembers about an object
// under the uploader's instance name must not answer for another, unrelated instance name
// (the cache has to be keyed the way the store it fronts distinguishes objects).
func verifScenarioConfiguredExistenceCache() {
	local := &pb.BlobAccessConfiguration{
		Backend: &pb.BlobAccessConfiguration_Local{Local: &pb.LocalBlobAccessConfiguration{
			KeyLocationMapBackend:            &pb.LocalBlobAccessConfiguration_KeyLocationMapInMemory_{KeyLocationMapInMemory: &pb.LocalBlobAccessConfiguration_KeyLocationMapInMemory{Entries: 16}},
			KeyLocationMapMaximumGetAttempts: 8,
			KeyLocationMapMaximumPutAttempts: 32,
			OldBlocks:                        1,
			CurrentBlocks:                    1,
			NewBlocks:                        1,
			BlocksBackend:                    &pb.LocalBlobAccessConfiguration_BlocksInMemory_{BlocksInMemory: &pb.LocalBlobAccessConfiguration_BlocksInMemory{BlockSizeBytes: 64}},
			HierarchicalInstanceNames:        true,
		}},
	}
	cfg := &pb.BlobAccessConfiguration{
		Backend: &pb.BlobAccessConfiguration_ExistenceCaching{ExistenceCaching: &pb.ExistenceCachingBlobAccessConfiguration{
			Backend: local,
			ExistenceCache: &digest_pb.ExistenceCacheConfiguration{
				CacheSize:              10,
				CacheDuration:          durationpb.New(60000000000),
				CacheReplacementPolicy: eviction_pb.CacheReplacementPolicy_LEAST_RECENTLY_USED,
			},
		}},
	}
	// the index's hash seed is drawn at random; its value is irrelevant here, and a symbolic
	// seed would turn every index lookup into a hashing question for the solver
	vnd.Replace("(github.com/buildbarn/bb-storage/pkg/random.cryptoSource).Uint64", func(interface{}) uint64 { return 42 })
	info, err := verifNewNested(cfg)
	vnd.Assert(err == nil, "a valid configuration was rejected")
	ctx := context.Background()
	uploader := []string{"a", "a/b"}[vnd.Choose(2)]
	other := []string{"b", "ab", "", "a"}[vnd.Choose(4)]
	objU := verifstub.Universe(uploader, 1)[0]
	objO := verifstub.Universe(other, 1)[0]
	related := other == uploader || (uploader == "a/b" && other == "a/b") || (other == "a/b")
	if uploader == "a/b" && other == "a" {
		related = false // a reader ABOVE the uploader does not see the object
	}
	if uploader == "a" && other == "a" {
		related = true
	}
	vnd.Assert(info.BlobAccess.Put(ctx, objU.Digest, buffer.NewValidatedBufferFromByteSlice(objU.Data)) == nil, "upload failed")
	missing, err := info.BlobAccess.FindMissing(ctx, objU.Digest.ToSingletonSet())
	vnd.Assert(err == nil && missing.Empty(), "an object is not reported present to its uploader")
	missing, err = info.BlobAccess.FindMissing(ctx, objO.Digest.ToSingletonSet())
	vnd.Assert(err == nil, "existence check failed")
	_, gerr := info.BlobAccess.Get(ctx, objO.Digest).ToByteSlice(100)
	if related {
		vnd.Cover("x3-related-name")
		return
	}
	vnd.Cover("x3-unrelated-name")
	vnd.Assert(status.Code(gerr) == codes.NotFound, "an object is readable under an instance name outside the uploader's subtree")
	vnd.Assert(missing.Length() == 1, "an existence cache in front of a hierarchical store reports an object present under an instance name outside the uploader's subtree")
	_ = digest.EmptySet
}
