//go:build verif

package configuration

// Verif_C10_X3_ConfiguredExistenceCache: see verifScenarioConfiguredExistenceCache.
func Verif_C10_X3_ConfiguredExistenceCache() { verifScenarioConfiguredExistenceCache() }
