//go:build verif

package configuration

import (
	"context"
	"encoding/binary"

	remoteexecution "github.com/bazelbuild/remote-apis/build/bazel/remote/execution/v2"
	vnd "github.com/buildbarn/bb-storage/internal/verifnd"
	"github.com/buildbarn/bb-storage/pkg/blobstore/sharding"
	"github.com/buildbarn/bb-storage/pkg/digest"
	pb "github.com/buildbarn/bb-storage/pkg/proto/configuration/blobstore"

	"google.golang.org/grpc/status"
)

// Verif_C12_K5_ConfiguredShardMap: the sharding composite as ASSEMBLED FROM
// CONFIGURATION (new_blob_access.go): the shard map is a protobuf map, which Go
// iterates in an arbitrary order. For every iteration order (the engine explores
// all of them), every digest is sent to the backend configured under the key the
// rendezvous selector picks for the SET of (key, weight) pairs, and the error
// carries that key.
func Verif_C12_K5_ConfiguredShardMap() {
	vnd.ExploreMapOrders(true)
	keys := []string{"alpha", "beta", "gamma"}
	weights := []uint32{1, 2, 1}
	n := 2 + vnd.Choose(2)
	shards := map[string]*pb.ShardingBlobAccessConfiguration_Shard{}
	var listed []sharding.Shard
	for i := 0; i < n; i++ {
		shards[keys[i]] = &pb.ShardingBlobAccessConfiguration_Shard{Backend: verifErrorBackend(keys[i]), Weight: weights[i]}
		listed = append(listed, sharding.Shard{Key: keys[i], Weight: weights[i]})
	}
	info, err := verifNewNested(&pb.BlobAccessConfiguration{
		Backend: &pb.BlobAccessConfiguration_Sharding{Sharding: &pb.ShardingBlobAccessConfiguration{Shards: shards}},
	})
	vnd.Assert(err == nil, "a valid sharding configuration was rejected")
	// reference: the selector over the same set, listed in a fixed order
	ref, err := sharding.NewRendezvousShardSelector(listed)
	vnd.Assert(err == nil, "reference selector could not be built")
	hashes := []string{
		"00000000000000000000000000000000",
		"8b1a9953c4611296a827abf8c47804d7",
		"ffffffffffffffffffffffffffffffff",
		"3a2d7564baee79182ebc7b65084aabd1",
	}
	d := digest.MustNewDigest("inst", remoteexecution.DigestFunction_MD5, hashes[vnd.Choose(len(hashes))], 5)
	want := keys[ref.GetShard(binary.BigEndian.Uint64(d.GetHashBytes()[:8]))]
	_, gerr := info.BlobAccess.Get(context.Background(), d).ToByteSlice(100)
	vnd.Assert(gerr != nil, "a read through error backends succeeded")
	msg := status.Convert(gerr).Message()
	vnd.Cover("k5-routed")
	vnd.Assert(msg == "Shard "+want+": leaf "+want, "a configured shard map routes a digest to a backend other than the one configured under the key the selector picks for this set of shards (or the error names another key)")
}
