//go:build verif

package sharding

import (
	"context"
	"encoding/binary"
	"strings"

	vnd "github.com/buildbarn/bb-storage/internal/verifnd"
	"github.com/buildbarn/bb-storage/internal/verifstub"
	"github.com/buildbarn/bb-storage/pkg/blobstore/buffer"
	"github.com/buildbarn/bb-storage/pkg/blobstore/slicing"
	"github.com/buildbarn/bb-storage/pkg/digest"
)

// verifAnySelector maps a hash to a shard through an uninterpreted function.
type verifAnySelector struct{ n int }

func (s verifAnySelector) GetShard(hash uint64) int {
	return int((vnd.UF("shard", hash) & 63) % uint64(s.n))
}

type verifNoSlicer struct{}

func (verifNoSlicer) Slice(b buffer.Buffer, child digest.Digest) (buffer.Buffer, []slicing.BlobSlice) {
	return b, nil
}

// Verif_C12_K4_Routing: Get, GetFromComposite, Put and FindMissing through the
// real shardingBlobAccess over an ARBITRARY selector (uninterpreted function of
// the hash prefix) and model back ends with symbolic presence:
// every operation on a digest addresses the one shard the selector picks for
// the first 8 hash bytes (big endian), whatever the instance name and the
// operation; FindMissing asks each shard only about its own digests and returns
// exactly the union of the shards' answers; back-end errors carry the shard key.
func Verif_C12_K4_Routing() {
	ctx := context.Background()
	keys := []string{"shard-a", "shard-b", "shard-c"}
	// an arbitrary selector: any function from the 64-bit hash prefix to a shard (K1-K3 decide
	// the real rendezvous selector; routing must be right for EVERY selector)
	sel := verifAnySelector{n: len(keys)}
	objsA := verifstub.Universe("", 3)
	objsB := verifstub.Universe("some/instance", 3)
	var models []*verifstub.Model
	var backends []ShardBackend
	for _, k := range keys {
		m := verifstub.NewReliableModel(k, objsA)
		m.FailGet = vnd.Bool()
		models = append(models, m)
		backends = append(backends, ShardBackend{Backend: m, Key: k})
	}
	ba := NewShardingBlobAccess(backends, sel)
	want := func(d digest.Digest) int {
		return sel.GetShard(binary.BigEndian.Uint64(d.GetHashBytes()[:8]))
	}
	oi := vnd.Choose(3)
	dA, dB := objsA[oi].Digest, objsB[oi].Digest
	shard := want(dA)
	vnd.Assert(want(dB) == shard, "the instance name influences the shard choice")
	calls := func() (n int) {
		for _, m := range models {
			n += len(m.Calls)
		}
		return
	}
	switch vnd.Choose(4) {
	case 0:
		vnd.Cover("get")
		d := dA
		if vnd.Choose(2) == 1 {
			d = dB
		}
		_, gerr := ba.Get(ctx, d).ToByteSlice(100)
		vnd.Assert(models[shard].CountCalls("Get") == 1 && calls() == 1, "Get did not address exactly the selected shard")
		if gerr != nil {
			vnd.Assert(strings.Contains(gerr.Error(), keys[shard]), "error of a shard does not carry the shard key")
		}
	case 1:
		vnd.Cover("composite")
		_, gerr := ba.GetFromComposite(ctx, dA, objsA[(oi+1)%3].Digest, verifNoSlicer{}).ToByteSlice(100)
		vnd.Assert(models[shard].CountCalls("GetFromComposite") == 1 && calls() == 1, "GetFromComposite did not address the shard selected for the PARENT digest")
		if gerr != nil {
			vnd.Assert(strings.Contains(gerr.Error(), keys[shard]), "error of a shard does not carry the shard key")
		}
	case 2:
		vnd.Cover("put")
		models[shard].FailPut = vnd.Bool()
		perr := ba.Put(ctx, dB, buffer.NewValidatedBufferFromByteSlice(objsA[oi].Data))
		vnd.Assert(models[shard].CountCalls("Put") == 1 && calls() == 1, "Put did not address exactly the shard that Get addresses")
		if perr != nil {
			vnd.Assert(strings.Contains(perr.Error(), keys[shard]), "error of a shard does not carry the shard key")
		}
	case 3:
		vnd.Cover("findmissing")
		sb := digest.NewSetBuilder(4)
		for i := 0; i < 2; i++ {
			sb.Add(objsA[(oi+1+i)%3].Digest)
		}
		// the same blob under two instance names: two different digests, both to be answered
		sb.Add(dA)
		sb.Add(dB)
		set := sb.Build()
		failing := -1
		if vnd.Choose(2) == 1 {
			failing = vnd.Choose(3)
		}
		if failing >= 0 {
			models[failing].FailFindMissing = true
		}
		missing, ferr := ba.FindMissing(ctx, set)
		asked := map[string]int{}
		for si, m := range models {
			for _, c := range m.Calls {
				vnd.Assert(c.Op == "FindMissing", "FindMissing issued another operation")
				for _, d := range c.Digests {
					vnd.Assert(want(d) == si, "a shard was asked about a digest that is not routed to it")
					asked[d.String()]++
				}
			}
			vnd.Assert(m.CountCalls("FindMissing") <= 1, "a shard was asked more than once")
		}
		for _, d := range set.Items() {
			vnd.Assert(asked[d.String()] == 1, "a digest was not passed to exactly one shard")
		}
		if failing >= 0 && models[failing].CountCalls("FindMissing") > 0 {
			vnd.Cover("findmissing-shard-failed")
			vnd.Assert(ferr != nil, "failure of a shard did not fail FindMissing")
			vnd.Assert(strings.Contains(ferr.Error(), keys[failing]), "error of a shard does not carry the shard key")
		} else {
			vnd.Assert(ferr == nil, "FindMissing failed although no consulted shard failed")
			// exactly the union of the shards' answers
			for _, d := range set.Items() {
				m := models[want(d)]
				absent := !m.Present[m.Index(d)]
				reported := false
				for _, x := range missing.Items() {
					if x == d {
						reported = true
					}
				}
				vnd.Assert(reported == absent, "FindMissing result is not exactly the union of the shards' answers")
			}
			vnd.Assert(missing.Length() <= set.Length(), "FindMissing invented digests")
		}
	}
	vnd.Observe("k4", uint64(shard))
}
