//go:build verif

package sharding

import (
	vnd "github.com/buildbarn/bb-storage/internal/verifnd"
)

// Verif_C12_K1_Arith: for ALL 2^64 inputs and all weights >= 1 the fixed-point
// logarithm stays below 64<<16 (so score's divisor is >= 1: no division by
// zero), the lookup-table index stays inside the table (no panic), and the
// score is >= 1 (so the initial best = 0 never wins: a shard is always chosen).
func Verif_C12_K1_Arith() {
	x := vnd.U64()
	w := vnd.U32()
	vnd.Assume(w >= 1)
	l := Log2Fixed(x)
	vnd.Assert(l < 64<<16, "Log2Fixed(x) >= 64<<16: score would divide by zero or wrap")
	s := score(x, w)
	vnd.Assert(s >= 1, "score(x, w) == 0 for a non-zero weight: the shard could never be selected")
	vnd.Observe("k1", l, s)
	vnd.Cover("done")
}

// Verif_C12_K1b_Mix: splitmix64 is total (no panic) and deterministic.
func Verif_C12_K1b_Mix() {
	x := vnd.U64()
	a, b := splitmix64(x), splitmix64(x)
	vnd.Assert(a == b, "splitmix64 is not a function of its input")
	vnd.Observe("mix", a)
	vnd.Cover("done")
}

// For the selection lemmas the arithmetic is cut away (stated cut; K1 covers it
// for all inputs): score and splitmix64 become uninterpreted functions, score
// constrained to be >= 1 for weights >= 1 — exactly what K1 establishes. The
// lemmas then hold for EVERY scoring function with that property. Natively the
// generated overlay lets the compiled functions return the model's values.
var (
	verifNativeScoreHook func(x uint64, weight uint32) (uint64, bool)
	verifNativeMixHook   func(x uint64) (uint64, bool)
)

func verifUFScore(x uint64, weight uint32) uint64 {
	s := vnd.UF("score", x, uint64(weight))
	vnd.Assume(vnd.Implies(weight >= 1, s >= 1))
	return s
}

func verifUFMix(x uint64) uint64 { return vnd.UF("mix", x) }

func verifAbstractArithmetic() {
	vnd.Replace("github.com/buildbarn/bb-storage/pkg/blobstore/sharding.score", verifUFScore)
	vnd.Replace("github.com/buildbarn/bb-storage/pkg/blobstore/sharding.splitmix64", verifUFMix)
	verifNativeScoreHook = func(x uint64, weight uint32) (uint64, bool) { return vnd.UFLookup("score", x, uint64(weight)) }
	verifNativeMixHook = func(x uint64) (uint64, bool) { return vnd.UFLookup("mix", x) }
}

type verifShard struct {
	hash   uint64
	weight uint32
	index  int
}

// verifShards returns n shards as the constructor leaves them: ascending,
// distinct key hashes; arbitrary non-zero weights; distinct indices.
func verifShards(n int) []rendezvousShard {
	out := make([]rendezvousShard, n)
	for i := range out {
		out[i] = rendezvousShard{hash: vnd.U64(), weight: vnd.U32(), index: vnd.Int(0, 7)}
		vnd.Assume(out[i].weight >= 1)
		if i > 0 {
			vnd.Assume(out[i-1].hash < out[i].hash)
		}
		for j := 0; j < i; j++ {
			vnd.Assume(out[j].index != out[i].index)
		}
	}
	return out
}

func verifScoreOf(s rendezvousShard, h uint64) uint64 {
	return score(splitmix64(s.hash^h), s.weight)
}

func verifShardCount() int {
	if vnd.Thorough() {
		return 1 + vnd.Choose(4)
	}
	return 1 + vnd.Choose(3)
}

// Verif_C12_K2_ArgMax: GetShard returns the index of a shard whose score is
// maximal, and among tied shards the first in key-hash order.
func Verif_C12_K2_ArgMax() {
	verifAbstractArithmetic()
	n := verifShardCount()
	shards := verifShards(n)
	h := vnd.U64()
	sel := &rendezvousShardSelector{shards: shards}
	r := sel.GetShard(h)
	isMember := false
	for i := 0; i < n; i++ {
		mine := shards[i].index == r
		isMember = vnd.Or(isMember, mine)
		for j := 0; j < n; j++ {
			vnd.Assert(vnd.Implies(mine, verifScoreOf(shards[j], h) <= verifScoreOf(shards[i], h)), "GetShard chose a shard whose score is not maximal")
			if j < i {
				// ties: the shards are held in ascending KEY-HASH order (K3), and among shards of
				// equal score the first in that order wins - a rule that does not look at the
				// position in the configured list, so ties do not make routing order-dependent
				vnd.Assert(vnd.Implies(mine, verifScoreOf(shards[j], h) < verifScoreOf(shards[i], h)), "among shards of equal score GetShard did not choose the first in key-hash order (ties would depend on the order in which shards are listed)")
			}
		}
	}
	vnd.Assert(isMember, "GetShard returned an index that belongs to no shard")
	vnd.Observe("argmax", uint64(r))
	vnd.Cover("done")
}

// Verif_C12_K2_Removal: dropping shard j re-routes only hashes that were routed to j.
func Verif_C12_K2_Removal() {
	verifAbstractArithmetic()
	n := 2 + vnd.Choose(2)
	if vnd.Thorough() {
		n = 2 + vnd.Choose(3)
	}
	shards := verifShards(n)
	h := vnd.U64()
	j := vnd.Choose(n)
	full := &rendezvousShardSelector{shards: shards}
	var rest []rendezvousShard
	for i := range shards {
		if i != j {
			rest = append(rest, shards[i])
		}
	}
	less := &rendezvousShardSelector{shards: rest}
	before, after := full.GetShard(h), less.GetShard(h)
	vnd.Assert(vnd.Implies(before != shards[j].index, after == before), "removing a shard re-routed an object that was not assigned to it")
	vnd.Observe("removal", uint64(before), uint64(after))
	if before == shards[j].index {
		vnd.Cover("rerouted")
	} else {
		vnd.Cover("stable")
	}
}

// Verif_C12_K2_Addition: adding a shard re-routes objects only to the new shard.
func Verif_C12_K2_Addition() {
	verifAbstractArithmetic()
	n := 2 + vnd.Choose(2)
	if vnd.Thorough() {
		n = 2 + vnd.Choose(3)
	}
	shards := verifShards(n) // the extended map; shard j is the newcomer
	h := vnd.U64()
	j := vnd.Choose(n)
	var old []rendezvousShard
	for i := range shards {
		if i != j {
			old = append(old, shards[i])
		}
	}
	before := (&rendezvousShardSelector{shards: old}).GetShard(h)
	after := (&rendezvousShardSelector{shards: shards}).GetShard(h)
	vnd.Assert(vnd.Or(after == before, after == shards[j].index), "adding a shard re-routed an object to a shard other than the new one")
	vnd.Observe("addition", uint64(before), uint64(after))
	if after == shards[j].index {
		vnd.Cover("moved")
	} else {
		vnd.Cover("kept")
	}
}

// Verif_C12_K3_Constructor: for three concrete keys listed in each of the six
// orders and arbitrary non-zero weights, the constructor yields the same
// sequence of (key hash, weight) pairs, sorted by key hash, and each entry's
// index points back at the position of its own key in the configured list.
// Hence the chosen shard does not depend on the listing order. Duplicate keys
// are rejected.
func Verif_C12_K3_Constructor() {
	keys := []string{"shard-a", "shard-b", "shard-c"}
	ws := []uint32{vnd.U32(), vnd.U32(), vnd.U32()}
	perms := [][]int{{0, 1, 2}, {0, 2, 1}, {1, 0, 2}, {1, 2, 0}, {2, 0, 1}, {2, 1, 0}}
	p := perms[vnd.Choose(6)]
	var cfg []Shard
	for _, i := range p {
		cfg = append(cfg, Shard{Key: keys[i], Weight: ws[i]})
	}
	s, err := NewRendezvousShardSelector(cfg)
	vnd.Assert(err == nil, "constructor rejected three distinct keys")
	rs := s.(*rendezvousShardSelector)
	vnd.Assert(len(rs.shards) == 3, "constructor lost a shard")
	for i := 0; i < 3; i++ {
		sh := rs.shards[i]
		if i > 0 {
			vnd.Assert(rs.shards[i-1].hash < sh.hash, "shards are not sorted by key hash")
		}
		vnd.Assert(sh.index >= 0 && sh.index < 3, "index out of range")
		vnd.Assert(hashServer(cfg[sh.index].Key) == sh.hash, "entry's index does not point at its own key")
		vnd.Assert(cfg[sh.index].Weight == sh.weight, "entry's weight is not the weight configured for its key")
	}
	_, err2 := NewRendezvousShardSelector([]Shard{{Key: "x", Weight: 1}, {Key: "y", Weight: 2}, {Key: "x", Weight: 3}})
	vnd.Assert(err2 != nil, "duplicate shard keys accepted")
	_, err3 := NewRendezvousShardSelector(nil)
	vnd.Assert(err3 != nil, "empty shard list accepted")
	vnd.Cover("done")
}
