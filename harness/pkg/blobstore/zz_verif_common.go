//go:build verif

package blobstore

import (
	"io"

	"github.com/buildbarn/bb-storage/pkg/blobstore/buffer"
	"github.com/buildbarn/bb-storage/pkg/blobstore/slicing"
	"github.com/buildbarn/bb-storage/pkg/digest"
)

var ioEOF = io.EOF

// verifSlicer returns the buffer unchanged and no slices.
type verifSlicer struct{}

func (verifSlicer) Slice(b buffer.Buffer, childDigest digest.Digest) (buffer.Buffer, []slicing.BlobSlice) {
	return b, nil
}
