//go:build verif

package blobstore

import (
	"context"

	remoteexecution "github.com/bazelbuild/remote-apis/build/bazel/remote/execution/v2"
	vnd "github.com/buildbarn/bb-storage/internal/verifnd"
	"github.com/buildbarn/bb-storage/internal/verifstub"
	"github.com/buildbarn/bb-storage/pkg/blobstore/buffer"
	"github.com/buildbarn/bb-storage/pkg/blobstore/slicing"
	"github.com/buildbarn/bb-storage/pkg/digest"

	"google.golang.org/grpc/codes"
	"google.golang.org/grpc/status"
)

// verifC19LevelStore is a backend in which presence is a symbolic bit per
// (object, instance name); an object read under name i carries i in its data,
// so the caller can tell which ancestor served it.
type verifC19LevelStore struct {
	names     []string
	objs      []verifstub.Object
	present   [][]bool // [object][name]
	failName  int      // Get under this name index fails with Unavailable (-1: never)
	calls     []verifstub.Call
	strangers int // digests asked for under a name outside `names`
}

func verifC19NewLevelStore(names []string, nObjects int) *verifC19LevelStore {
	s := &verifC19LevelStore{names: names, objs: verifstub.Universe("", nObjects), failName: -1}
	for range s.objs {
		row := make([]bool, len(names))
		for i := range row {
			row[i] = vnd.Bool()
		}
		s.present = append(s.present, row)
	}
	return s
}

func (s *verifC19LevelStore) locate(d digest.Digest) (obj, name int) {
	obj, name = -1, -1
	k := d.GetKey(digest.KeyWithoutInstance)
	for i, o := range s.objs {
		if o.Digest.GetKey(digest.KeyWithoutInstance) == k {
			obj = i
		}
	}
	n := d.GetInstanceName().String()
	for i, x := range s.names {
		if x == n {
			name = i
		}
	}
	if obj < 0 || name < 0 {
		s.strangers++
	}
	return
}

func verifC19LevelData(obj, name int) []byte {
	return []byte{'o', byte('0' + obj), '@', byte('0' + name)}
}

func (s *verifC19LevelStore) Get(ctx context.Context, d digest.Digest) buffer.Buffer {
	s.calls = append(s.calls, verifstub.Call{Op: "Get", Digests: []digest.Digest{d}})
	obj, name := s.locate(d)
	if obj < 0 || name < 0 {
		return buffer.NewBufferFromError(status.Error(codes.NotFound, "verif: not found"))
	}
	if name == s.failName {
		return buffer.NewBufferFromError(status.Error(codes.Unavailable, "verif: store unavailable"))
	}
	if !s.present[obj][name] {
		return buffer.NewBufferFromError(status.Error(codes.NotFound, "verif: not found"))
	}
	return buffer.NewValidatedBufferFromByteSlice(verifC19LevelData(obj, name))
}

func (s *verifC19LevelStore) GetFromComposite(ctx context.Context, parent, child digest.Digest, slicer slicing.BlobSlicer) buffer.Buffer {
	s.calls = append(s.calls, verifstub.Call{Op: "GetFromComposite", Digests: []digest.Digest{parent, child}})
	obj, name := s.locate(parent)
	if obj < 0 || name < 0 {
		return buffer.NewBufferFromError(status.Error(codes.NotFound, "verif: not found"))
	}
	if name == s.failName {
		return buffer.NewBufferFromError(status.Error(codes.Unavailable, "verif: store unavailable"))
	}
	if !s.present[obj][name] {
		return buffer.NewBufferFromError(status.Error(codes.NotFound, "verif: not found"))
	}
	return buffer.NewValidatedBufferFromByteSlice(verifC19LevelData(obj, name))
}

func (s *verifC19LevelStore) Put(ctx context.Context, d digest.Digest, b buffer.Buffer) error {
	s.calls = append(s.calls, verifstub.Call{Op: "Put", Digests: []digest.Digest{d}})
	b.Discard()
	return nil
}

func (s *verifC19LevelStore) FindMissing(ctx context.Context, digests digest.Set) (digest.Set, error) {
	s.calls = append(s.calls, verifstub.Call{Op: "FindMissing", Digests: digests.Items()})
	sb := digest.NewSetBuilder(0)
	for _, d := range digests.Items() {
		obj, name := s.locate(d)
		if obj < 0 || name < 0 {
			sb.Add(d)
			continue
		}
		if !s.present[obj][name] {
			sb.Add(d)
		}
	}
	return sb.Build(), nil
}

func (s *verifC19LevelStore) GetCapabilities(ctx context.Context, instanceName digest.InstanceName) (*remoteexecution.ServerCapabilities, error) {
	return &remoteexecution.ServerCapabilities{}, nil
}

// Verif_C19_T4_HierarchicalGet: Get (and GetFromComposite) of an object under
// a name of depth 0..3 returns the copy stored under the most specific
// ancestor-or-self name that has it; NotFound exactly when no ancestor has it;
// names are probed from most to least specific, never beyond the first hit,
// never outside the ancestor chain (siblings "ab/d", "b" are never touched); an
// error other than NotFound ends the search and is reported.
func Verif_C19_T4_HierarchicalGet() {
	ctx := context.Background()
	// multi-character components, so that truncation at the wrong byte shows
	names := []string{"", "ab", "ab/c", "ab/c/de", "ab/d", "b"}
	chainLen := 4 // names[0..3] is the ancestor chain of "ab/c/de"
	store := verifC19NewLevelStore(names, 2)
	store.failName = vnd.Int(-1, chainLen-1)
	ba := NewHierarchicalInstanceNamesBlobAccess(store)
	depth := vnd.Choose(chainLen)
	composite := vnd.Choose(2) == 1
	obj := 1
	d := verifstub.Universe(names[depth], 2)[obj].Digest
	child := verifstub.Universe(names[depth], 2)[0].Digest
	var b buffer.Buffer
	if composite {
		b = ba.GetFromComposite(ctx, d, child, verifSlicer{})
	} else {
		b = ba.Get(ctx, d)
	}
	data, err := b.ToByteSlice(100)

	// oracle: walk the chain from the requested name towards the root
	wantCode, wantLevel, wantProbes := codes.NotFound, -1, 0
	for l := depth; l >= 0; l-- {
		wantProbes++
		if l == store.failName {
			wantCode = codes.Unavailable
			break
		}
		if store.present[obj][l] {
			wantCode, wantLevel = codes.OK, l
			break
		}
	}
	vnd.Assert(status.Code(err) == wantCode, "hierarchical Get: outcome differs from a most-specific-first walk over the ancestors")
	if wantCode == codes.OK {
		vnd.Assert(len(data) == 4 && data[1] == byte('0'+obj), "hierarchical Get returned another object")
		vnd.Assert(int(data[3]-'0') == wantLevel, "hierarchical Get did not return the copy of the most specific ancestor that has the object")
		if wantLevel == depth {
			vnd.Cover("t4-get-own-name")
		} else {
			vnd.Cover("t4-get-from-ancestor")
		}
	} else if wantCode == codes.NotFound {
		vnd.Cover("t4-get-nowhere")
	} else {
		vnd.Cover("t4-get-serious-error")
	}
	vnd.Assert(store.strangers == 0, "hierarchical Get asked the backend for a name outside the ancestor chain")
	vnd.Assert(len(store.calls) == wantProbes, "hierarchical Get probed more or fewer names than needed")
	for i, c := range store.calls {
		want := verifstub.Universe(names[depth-i], 2)
		vnd.Assert(c.Digests[0] == want[obj].Digest, "hierarchical Get did not probe the ancestors from most to least specific")
		if composite {
			vnd.Assert(c.Op == "GetFromComposite" && c.Digests[1] == want[0].Digest, "composite Get: child digest not truncated to the same ancestor as the parent")
		} else {
			vnd.Assert(c.Op == "Get", "hierarchical Get issued another operation")
		}
	}
	vnd.Observe("hier-get", uint64(depth), uint64(len(store.calls)), uint64(status.Code(err)))
}

// Verif_C19_T4_HierarchicalFindMissing: for a set of digests at depths 0..3
// (two of them sharing their root-level ancestor digest) with symbolic presence
// per (object, ancestor name), FindMissing reports a digest exactly when it is
// absent under its own name and under every ancestor; the answer uses the
// original digests; nothing is dropped, duplicated or invented by the in-place
// pruning loop.
func Verif_C19_T4_HierarchicalFindMissing() {
	ctx := context.Background()
	names := []string{"", "ab", "ab/c", "ab/c/de", "b", "ab/d"}
	type item struct{ obj, name int }
	items := []item{{0, 3}, {1, 2}, {0, 4}, {1, 0}}
	nObjects := 2
	if vnd.Thorough() {
		items = append(items, item{2, 1}, item{2, 5}, item{1, 3})
		nObjects = 3
	}
	store := verifC19NewLevelStore(names, nObjects)
	ba := NewHierarchicalInstanceNamesBlobAccess(store)
	sb := digest.NewSetBuilder(0)
	var ds []digest.Digest
	for _, it := range items {
		d := verifstub.Universe(names[it.name], nObjects)[it.obj].Digest
		ds = append(ds, d)
		sb.Add(d)
	}
	set := sb.Build()
	missing, err := ba.FindMissing(ctx, set)
	vnd.Assert(err == nil, "hierarchical FindMissing failed although the backend never fails")
	got := missing.Items()
	agree := true
	foundCount := 0
	for i, it := range items {
		// oracle: absent under the name itself and under every ancestor (fork-free)
		allAbsent := true
		for ai, a := range names {
			if verifC19IsPrefix(a, names[it.name]) {
				allAbsent = vnd.And(allAbsent, vnd.Not(store.present[it.obj][ai]))
			}
		}
		found := false
		for _, g := range got {
			if g == ds[i] {
				found = true
			}
		}
		if found {
			foundCount++
		}
		agree = vnd.And(agree, vnd.Iff(found, allAbsent))
	}
	vnd.Assert(agree, "hierarchical FindMissing: a digest is reported missing although an ancestor has it, or not reported although none has it")
	vnd.Assert(len(got) == foundCount, "hierarchical FindMissing returned a digest that was not asked for (or under an ancestor's name)")
	vnd.Assert(store.strangers == 0, "hierarchical FindMissing asked the backend for a name outside the ancestor chains")
	vnd.Assert(len(store.calls) > 0 && len(store.calls[0].Digests) == len(items), "first backend call does not carry the caller's set")
	// mechanism check (level-by-level search): every round strips one level off
	// every unresolved digest, so the deepest name (3 components) bounds the
	// number of rounds; a pruning loop that skips entries needs extra rounds.
	vnd.Assert(len(store.calls) <= 4, "more backend rounds than the deepest name has levels")
	if foundCount == 0 {
		vnd.Cover("t4-fm-none-missing")
	} else if foundCount == len(items) {
		vnd.Cover("t4-fm-all-missing")
	} else {
		vnd.Cover("t4-fm-mixed")
	}
	if len(store.calls) == 4 {
		vnd.Cover("t4-fm-reached-root")
	}
	vnd.Observe("hier-fm", uint64(len(got)), uint64(len(store.calls)))
}
