//go:build verif

package replication

import (
	"context"
	"time"

	vnd "github.com/buildbarn/bb-storage/internal/verifnd"
	"github.com/buildbarn/bb-storage/internal/verifstub"
	"github.com/buildbarn/bb-storage/pkg/blobstore/buffer"
	"github.com/buildbarn/bb-storage/pkg/blobstore/slicing"
	"github.com/buildbarn/bb-storage/pkg/clock"
	"github.com/buildbarn/bb-storage/pkg/digest"
	"github.com/buildbarn/bb-storage/pkg/eviction"

	remoteexecution "github.com/bazelbuild/remote-apis/build/bazel/remote/execution/v2"
	"golang.org/x/sync/semaphore"
	"google.golang.org/grpc/codes"
	"google.golang.org/grpc/status"
)

type verifClock struct{ now time.Time }

func (c *verifClock) Now() time.Time { return c.now }
func (c *verifClock) NewContextWithTimeout(parent context.Context, timeout time.Duration) (context.Context, context.CancelFunc) {
	panic("verifClock: NewContextWithTimeout not expected")
}
func (c *verifClock) NewTimer(d time.Duration) (clock.Timer, <-chan time.Time) {
	panic("verifClock: NewTimer not expected")
}
func (c *verifClock) NewTicker(d time.Duration) (clock.Ticker, <-chan time.Time) {
	panic("verifClock: NewTicker not expected")
}

type verifSlicer struct{}

func (verifSlicer) Slice(b buffer.Buffer, childDigest digest.Digest) (buffer.Buffer, []slicing.BlobSlice) {
	return b, nil
}

const (
	verifLocal = iota
	verifDedup
	verifLimit
	verifQueued
	verifKinds
)

func verifDecorate(which int, source, sink *verifstub.Model, base BlobReplicator) BlobReplicator {
	switch which {
	case verifDedup:
		return NewDeduplicatingBlobReplicator(base, sink, digest.KeyWithoutInstance)
	case verifLimit:
		return NewConcurrencyLimitingBlobReplicator(base, sink, semaphore.NewWeighted(1))
	case verifQueued:
		clk := &verifClock{now: time.Unix(1000000, 0)}
		return NewQueuedBlobReplicator(source, base, digest.NewExistenceCache(clk, digest.KeyWithoutInstance, 2, 10*time.Second, eviction.NewLRUSet[string]()))
	}
	return base
}

// Verif_C17_U3_SequentialContract: the local replicator and each decorator
// over it (deduplicating, concurrency-limiting with one slot, queued with a
// fresh existence cache), one caller, two calls in a row: a call that reports
// success leaves the object in the sink; with nothing failing and the source
// holding the object the call succeeds; the decorator is reusable afterwards.
func Verif_C17_U3_SequentialContract() {
	ctx := context.Background()
	objs := verifstub.Universe("inst", 2)
	source := verifstub.NewModel("source", objs)
	sink := verifstub.NewModel("sink", objs)
	source.BufferKind = verifstub.KindStream
	if vnd.Thorough() {
		source.BufferKind = vnd.Choose(2)
	}
	sink.BufferKind = source.BufferKind
	preSource := append([]bool(nil), source.Present...)
	preSink := append([]bool(nil), sink.Present...)
	which := vnd.Choose(verifKinds)
	br := verifDecorate(which, source, sink, NewLocalBlobReplicator(source, sink))
	k := vnd.Choose(len(objs))
	d := objs[k].Digest
	anyFailure := source.FailGet || sink.FailPut || sink.FailGet || sink.FailFindMissing

	asked := []int{k}
	var err error
	switch vnd.Choose(3) {
	case 0:
		var data []byte
		data, err = br.ReplicateSingle(ctx, d).ToByteSlice(100)
		if err == nil {
			vnd.Cover("u3-single-ok")
			vnd.Assert(string(data) == string(objs[k].Data), "ReplicateSingle returned other content")
		}
	case 1:
		asked = []int{0, 1}
		err = br.ReplicateMultiple(ctx, digest.NewSetBuilder(2).Add(objs[0].Digest).Add(objs[1].Digest).Build())
		if err == nil {
			vnd.Cover("u3-multiple-ok")
		}
	case 2:
		var data []byte
		data, err = br.ReplicateComposite(ctx, d, d, verifSlicer{}).ToByteSlice(100)
		if err == nil {
			vnd.Cover("u3-composite-ok")
			vnd.Assert(string(data) == string(objs[k].Data), "ReplicateComposite returned other content")
		}
	}
	sourceHasAll := true
	for _, i := range asked {
		sourceHasAll = vnd.And(sourceHasAll, preSource[i])
	}
	if err == nil {
		for _, i := range asked {
			vnd.Assert(sink.Present[i], "replication reported success but the sink does not hold the object")
			vnd.Assert(vnd.Or(preSink[i], sink.PutOK > 0), "sink holds an object nobody put there")
		}
	} else {
		vnd.Cover("u3-error")
		vnd.Assert(anyFailure || !sourceHasAll, "replication failed although the source holds the objects and no backend call fails")
	}
	if !anyFailure && sourceHasAll {
		vnd.Cover("u3-must-succeed")
		vnd.Assert(err == nil, "replication failed although the source holds the objects and no backend call fails")
	}
	if status.Code(err) == codes.NotFound {
		vnd.Assert(!sourceHasAll || source.FailGet || sink.FailGet, "NOT_FOUND although the source holds the objects")
	}

	// The decorator is reusable: a second call returns (no token, semaphore
	// slot or in-flight entry was leaked) and honours the same contract.
	err2 := br.ReplicateMultiple(ctx, d.ToSingletonSet())
	if err2 == nil {
		vnd.Cover("u3-second-ok")
		vnd.Assert(sink.Present[k], "second call reported success but the sink does not hold the object")
	}
	if !anyFailure && preSource[k] {
		vnd.Assert(err2 == nil, "second call failed although nothing fails")
	}
	if dd, ok := br.(*deduplicatingBlobReplicator); ok {
		vnd.Assert(len(dd.inFlightReplications) == 0, "in-flight table not empty after the calls returned")
	}
	for i := range objs {
		vnd.Assert(vnd.Iff(preSource[i], source.Present[i]), "replication modified the source")
		vnd.Assert(vnd.Implies(preSink[i], sink.Present[i]), "replication removed an object from the sink")
	}
	vnd.Assert(source.SourceOpened == source.SourceClosed && sink.SourceOpened == sink.SourceClosed, "a backend stream was not released")
	vnd.Observe("u3", uint64(status.Code(err)), uint64(status.Code(err2)), uint64(sink.PutOK))
}

// verifGate wraps the base replicator of the concurrency harnesses: it counts
// the copies of each object that are in flight, can fail the first call, and
// yields in the middle of a copy so that other callers get to run.
type verifGate struct {
	base      BlobReplicator
	objs      []verifstub.Object
	inFlight  []int
	maxFlight []int
	total     int
	maxTotal  int
	calls     int
	failFirst bool
}

func (g *verifGate) ReplicateSingle(ctx context.Context, d digest.Digest) buffer.Buffer {
	panic("verifGate: ReplicateSingle not expected")
}
func (g *verifGate) ReplicateComposite(ctx context.Context, p, c digest.Digest, s slicing.BlobSlicer) buffer.Buffer {
	panic("verifGate: ReplicateComposite not expected")
}
func (g *verifGate) ReplicateMultiple(ctx context.Context, digests digest.Set) error {
	g.calls++
	first := g.calls == 1
	var idx []int
	for _, d := range digests.Items() {
		for i, o := range g.objs {
			if o.Digest == d {
				idx = append(idx, i)
			}
		}
	}
	g.total++
	if g.total > g.maxTotal {
		g.maxTotal = g.total
	}
	for _, i := range idx {
		g.inFlight[i]++
		if g.inFlight[i] > g.maxFlight[i] {
			g.maxFlight[i] = g.inFlight[i]
		}
	}
	vnd.Yield()
	var err error
	if first && g.failFirst {
		err = status.Error(codes.Unavailable, "verif: first copy fails")
	} else {
		err = g.base.ReplicateMultiple(ctx, digests)
	}
	for _, i := range idx {
		g.inFlight[i]--
	}
	g.total--
	return err
}

// verifBareSink is a lock-free sink for the concurrency harnesses (every lock
// of a stub would be one more scheduling point to explore).
type verifBareSink struct {
	objs    []verifstub.Object
	present []bool
}

func (s *verifBareSink) index(d digest.Digest) int {
	for i, o := range s.objs {
		if o.Digest == d {
			return i
		}
	}
	return -1
}
func (s *verifBareSink) Get(ctx context.Context, d digest.Digest) buffer.Buffer {
	panic("verifBareSink: Get not expected")
}
func (s *verifBareSink) GetFromComposite(ctx context.Context, p, c digest.Digest, sl slicing.BlobSlicer) buffer.Buffer {
	panic("verifBareSink: GetFromComposite not expected")
}
func (s *verifBareSink) Put(ctx context.Context, d digest.Digest, b buffer.Buffer) error {
	panic("verifBareSink: Put not expected")
}
func (s *verifBareSink) FindMissing(ctx context.Context, digests digest.Set) (digest.Set, error) {
	sb := digest.NewSetBuilder(1)
	for _, d := range digests.Items() {
		if !s.present[s.index(d)] {
			sb.Add(d)
		}
	}
	return sb.Build(), nil
}
func (s *verifBareSink) GetCapabilities(ctx context.Context, instanceName digest.InstanceName) (*remoteexecution.ServerCapabilities, error) {
	return &remoteexecution.ServerCapabilities{}, nil
}

// verifBareCopy is the innermost replicator of the concurrency harnesses: a
// copy just makes the object present in the bare sink.
type verifBareCopy struct{ sink *verifBareSink }

func (verifBareCopy) ReplicateSingle(ctx context.Context, d digest.Digest) buffer.Buffer {
	panic("verifBareCopy: ReplicateSingle not expected")
}
func (verifBareCopy) ReplicateComposite(ctx context.Context, p, c digest.Digest, s slicing.BlobSlicer) buffer.Buffer {
	panic("verifBareCopy: ReplicateComposite not expected")
}
func (r verifBareCopy) ReplicateMultiple(ctx context.Context, digests digest.Set) error {
	for _, d := range digests.Items() {
		r.sink.present[r.sink.index(d)] = true
	}
	return nil
}

// verifTwoCallers runs two concurrent ReplicateMultiple calls for the same
// object (thorough tier: overlapping sets {0,1} and {1}) under every schedule
// of the engine.
func verifTwoCallers(which int) {
	vnd.ExploreSchedules(true)
	ctx := context.Background()
	objs := verifstub.Universe("inst", 2)
	sink := &verifBareSink{objs: objs, present: make([]bool, 2)}
	gate := &verifGate{base: verifBareCopy{sink}, objs: objs, inFlight: make([]int, 2), maxFlight: make([]int, 2)}
	gate.failFirst = vnd.Choose(2) == 1
	var br BlobReplicator
	switch which {
	case verifDedup:
		br = NewDeduplicatingBlobReplicator(gate, sink, digest.KeyWithoutInstance)
	case verifLimit:
		br = NewConcurrencyLimitingBlobReplicator(gate, sink, semaphore.NewWeighted(1))
	case verifQueued:
		clk := &verifClock{now: time.Unix(1000000, 0)}
		br = NewQueuedBlobReplicator(nil, gate, digest.NewExistenceCache(clk, digest.KeyWithoutInstance, 2, 10*time.Second, eviction.NewLRUSet[string]()))
	}

	sets := []digest.Set{objs[1].Digest.ToSingletonSet(), objs[1].Digest.ToSingletonSet()}
	if vnd.Thorough() && !gate.failFirst {
		sets[0] = digest.NewSetBuilder(2).Add(objs[0].Digest).Add(objs[1].Digest).Build()
	}
	errs := make([]error, 2)
	held := make([]bool, 2)
	// One caller runs on a new goroutine, the other on this one (a third
	// goroutine would only multiply the schedules).
	done := make(chan struct{})
	call := func(c int) {
		errs[c] = br.ReplicateMultiple(ctx, sets[c])
		held[c] = sink.present[1] // sampled when the call returns
	}
	go func() {
		call(0)
		close(done)
	}()
	call(1)
	<-done

	if which == verifDedup {
		for i := range objs {
			vnd.Assert(gate.maxFlight[i] <= 1, "two copies of the same object in flight through the deduplicating replicator")
		}
	}
	if which == verifLimit || which == verifQueued {
		vnd.Assert(gate.maxTotal <= 1, "more concurrent copies than configured")
	}
	nOK := 0
	for c := 0; c < 2; c++ {
		if errs[c] == nil {
			nOK++
			vnd.Assert(held[c], "a caller was told the object is replicated before the sink held it")
		}
	}
	if gate.failFirst {
		vnd.Cover("u4-first-copy-fails")
		vnd.Assert(nOK == 1, "after a failed copy exactly the other caller must go on to copy and succeed")
		vnd.Assert(sink.present[1], "the retry did not copy the object")
		vnd.Assert(gate.calls == 2, "not exactly one retry after the failed copy")
	} else {
		vnd.Cover("u4-no-failure")
		vnd.Assert(nOK == 2, "a caller failed although nothing fails")
		vnd.Assert(sink.present[1], "object missing from the sink after both callers succeeded")
		vnd.Assert(vnd.Implies(sets[0].Length() == 2, sink.present[0]), "object missing from the sink after both callers succeeded")
	}
	if dd, ok := br.(*deduplicatingBlobReplicator); ok {
		vnd.Assert(len(dd.inFlightReplications) == 0, "in-flight table not empty after all callers returned")
		if !gate.failFirst {
			vnd.Assert(gate.calls <= sets[0].Length(), "an object was copied again although a copy of it had succeeded")
		}
	}
	vnd.Observe("u4", uint64(nOK))
}

// Verif_C17_U4_DeduplicatingTwoCallers: two concurrent callers, all schedules.
func Verif_C17_U4_DeduplicatingTwoCallers() { verifTwoCallers(verifDedup) }

// Verif_C17_U4_LimitingTwoCallers: two concurrent callers, all schedules. The
// schedule space through semaphore.Weighted exceeds the quick tier's path
// limit (more than 6*10^4 schedules).
//
// symgo: tier=thorough maxpaths=600000
func Verif_C17_U4_LimitingTwoCallers() { verifTwoCallers(verifLimit) }

// Verif_C17_U4_QueuedTwoCallers: two concurrent callers, all schedules. The
// existence cache's lock adds six scheduling points per caller, which puts the
// schedule space (~2*10^5) out of reach of the quick tier.
//
// symgo: tier=thorough maxpaths=600000
func Verif_C17_U4_QueuedTwoCallers() { verifTwoCallers(verifQueued) }

// Verif_C17_U4_DeduplicatingThreeCallers: three concurrent callers for the same
// object whose first copy fails (so that TWO callers are waiting when the leader
// gives up): never two copies of the object in flight, exactly the successful
// callers saw the object in the sink. Schedules with at most two preemptions
// (switches forced by blocking are free).
//
// symgo: maxpaths=400000
func Verif_C17_U4_DeduplicatingThreeCallers() {
	vnd.ExploreSchedules(true)
	vnd.PreemptionBound(2)
	ctx := context.Background()
	objs := verifstub.Universe("inst", 2)
	sink := &verifBareSink{objs: objs, present: make([]bool, 2)}
	gate := &verifGate{base: verifBareCopy{sink}, objs: objs, inFlight: make([]int, 2), maxFlight: make([]int, 2)}
	gate.failFirst = true
	br := NewDeduplicatingBlobReplicator(gate, sink, digest.KeyWithoutInstance)
	set := objs[1].Digest.ToSingletonSet()
	const n = 3
	errs := make([]error, n)
	held := make([]bool, n)
	done := make(chan struct{}, n)
	call := func(c int) {
		errs[c] = br.ReplicateMultiple(ctx, set)
		held[c] = sink.present[1]
		done <- struct{}{}
	}
	go call(0)
	go call(1)
	call(2)
	for i := 0; i < n; i++ {
		<-done
	}
	for i := range objs {
		vnd.Assert(gate.maxFlight[i] <= 1, "two copies of the same object in flight through the deduplicating replicator")
	}
	nOK := 0
	for c := 0; c < n; c++ {
		if errs[c] == nil {
			nOK++
			vnd.Assert(held[c], "a caller was told the object is replicated before the sink held it")
		}
	}
	vnd.Assert(nOK == n-1, "after one failed copy exactly the other callers must succeed")
	vnd.Assert(sink.present[1], "the retry did not copy the object")
	if dd, ok := br.(*deduplicatingBlobReplicator); ok {
		vnd.Assert(len(dd.inFlightReplications) == 0, "in-flight table not empty after all callers returned")
	}
	vnd.Cover("u4-three-callers")
}

// verifSlotCheckingBase is a base replicator that, whenever it is asked to copy,
// checks that the caller holds the (single) concurrency slot.
type verifSlotCheckingBase struct {
	sem       *semaphore.Weighted
	sink      *verifstub.Model
	objs      []verifstub.Object
	calls     int
	unguarded bool
	fail      bool
}

func (b *verifSlotCheckingBase) check() {
	b.calls++
	if b.sem.TryAcquire(1) {
		b.unguarded = true
		b.sem.Release(1)
	}
}

func (b *verifSlotCheckingBase) ReplicateSingle(ctx context.Context, d digest.Digest) buffer.Buffer {
	b.check()
	return buffer.NewBufferFromError(status.Error(codes.Internal, "verif: not expected"))
}

func (b *verifSlotCheckingBase) ReplicateComposite(ctx context.Context, p, c digest.Digest, s slicing.BlobSlicer) buffer.Buffer {
	b.check()
	return buffer.NewBufferFromError(status.Error(codes.Internal, "verif: not expected"))
}

func (b *verifSlotCheckingBase) ReplicateMultiple(ctx context.Context, digests digest.Set) error {
	b.check()
	if b.fail {
		return status.Error(codes.Unavailable, "verif: copy failed")
	}
	for _, d := range digests.Items() {
		for i, o := range b.objs {
			if o.Digest == d {
				b.sink.Present[i] = true
			}
		}
	}
	return nil
}

// Verif_C17_U5_EveryCopyHoldsASlot: the concurrency-limiting replicator, one
// caller, each of its three operations: whenever the underlying replicator is
// asked to copy, the caller holds a slot of the semaphore (so that "at most N
// copies at a time" follows for any number of callers), and the slot is free
// again when the operation has returned - also when the copy fails.
func Verif_C17_U5_EveryCopyHoldsASlot() {
	ctx := context.Background()
	objs := verifstub.Universe("inst", 2)
	sink := verifstub.NewModel("sink", objs)
	sem := semaphore.NewWeighted(1)
	base := &verifSlotCheckingBase{sem: sem, sink: sink, objs: objs, fail: vnd.Choose(2) == 1}
	br := NewConcurrencyLimitingBlobReplicator(base, sink, sem)
	d := objs[vnd.Choose(2)].Digest
	switch vnd.Choose(3) {
	case 0:
		vnd.Cover("u5-single")
		br.ReplicateSingle(ctx, d).Discard()
	case 1:
		vnd.Cover("u5-multiple")
		br.ReplicateMultiple(ctx, digest.NewSetBuilder(2).Add(objs[0].Digest).Add(objs[1].Digest).Build())
	case 2:
		vnd.Cover("u5-composite")
		br.ReplicateComposite(ctx, d, d, verifSlicer{}).Discard()
	}
	vnd.Assert(base.calls == 1, "the underlying replicator was not asked exactly once")
	vnd.Assert(!base.unguarded, "the underlying replicator was asked to copy while the caller held no concurrency slot")
	free := sem.TryAcquire(1)
	vnd.Assert(free, "the concurrency slot is still taken after the operation returned")
}
