//go:build verif

package blobstore

import (
	"context"
	"time"

	vnd "github.com/buildbarn/bb-storage/internal/verifnd"
	"github.com/buildbarn/bb-storage/internal/verifstub"
	"github.com/buildbarn/bb-storage/pkg/clock"
	"github.com/buildbarn/bb-storage/pkg/digest"
	"github.com/buildbarn/bb-storage/pkg/eviction"
)

// verifClock is a virtual clock; the harness advances it between operations.
type verifClock struct{ now time.Time }

func (c *verifClock) Now() time.Time { return c.now }
func (c *verifClock) NewContextWithTimeout(parent context.Context, timeout time.Duration) (context.Context, context.CancelFunc) {
	panic("verifClock: NewContextWithTimeout not expected")
}
func (c *verifClock) NewTimer(d time.Duration) (clock.Timer, <-chan time.Time) {
	panic("verifClock: NewTimer not expected")
}
func (c *verifClock) NewTicker(d time.Duration) (clock.Ticker, <-chan time.Time) {
	panic("verifClock: NewTicker not expected")
}

func verifHas(ds []digest.Digest, d digest.Digest) bool {
	for _, x := range ds {
		if x == d {
			return true
		}
	}
	return false
}

// Verif_C17_U2_ExistenceCache: a history of existence checks through the
// existence-caching decorator over a model backend, with the real
// ExistenceCache and the real LRU set, cache size 1 or 2, three digests, a
// virtual clock (duration 10 s) that advances before every operation: by 0, 10
// or 11 s in the quick tier, by a symbolic 0..25 s in the thorough tier. A digest is withheld from the backend query only if
// the backend reported it present at an instant no older than the duration.
func Verif_C17_U2_ExistenceCache() {
	ctx := context.Background()
	const durationSeconds = 10
	objs := verifstub.Universe("inst", 3)
	backend := verifstub.NewReliableModel("backend", objs)
	clk := &verifClock{}
	cacheSize := 1 + vnd.Choose(2)
	ba := NewExistenceCachingBlobAccess(backend,
		digest.NewExistenceCache(clk, digest.KeyWithoutInstance, cacheSize, durationSeconds*time.Second, eviction.NewLRUSet[string]()))

	queries := [][]int{{0}, {1, 0}, {0, 1, 2}}
	nOps := 3
	if vnd.Thorough() {
		queries = [][]int{{0}, {1}, {0, 1}, {2, 1}, {0, 1, 2}}
		nOps = 3 // four operations with symbolic clock advances did not finish within an hour
	} else {
		// quick: only object 1 may be absent from the backend
		backend.Present[0], backend.Present[2] = true, true
	}
	// ghost: when did the backend last report object i present
	reported := make([]bool, len(objs))
	reportedAt := make([]int, len(objs))
	off := 0
	for op := 0; op < nOps; op++ {
		if vnd.Thorough() {
			off += vnd.Int(0, 25) // every advance, symbolically
		} else if op > 0 {
			// quick: same instant, exactly the duration, just over the duration
			off += []int{0, durationSeconds, durationSeconds + 1}[vnd.Choose(3)]
		}
		clk.now = time.Unix(int64(1000000+off), 0)
		var q []int
		if op == 0 && !vnd.Thorough() {
			q = queries[2*vnd.Choose(2)] // quick: the first query is {0} or {0,1,2}
		} else {
			q = queries[vnd.Choose(len(queries))]
		}
		sb := digest.NewSetBuilder(len(q))
		for _, i := range q {
			sb.Add(objs[i].Digest)
		}
		before := len(backend.Calls)
		missing, err := ba.FindMissing(ctx, sb.Build())
		vnd.Assert(err == nil, "existence check failed over a reliable backend")
		vnd.Assert(len(backend.Calls) == before+1 && backend.Calls[before].Op == "FindMissing", "not exactly one backend query per existence check")
		forwarded := backend.Calls[before].Digests
		vnd.Assert(len(forwarded) <= len(q), "backend asked about more digests than the caller")
		for i := range objs {
			d := objs[i].Digest
			inQuery := false
			for _, j := range q {
				inQuery = inQuery || j == i
			}
			if !inQuery {
				vnd.Assert(!verifHas(forwarded, d), "backend asked about a digest outside the query")
				vnd.Assert(!verifHas(missing.Items(), d), "digest outside the query reported missing")
				continue
			}
			if verifHas(forwarded, d) {
				vnd.Assert(vnd.Iff(verifHas(missing.Items(), d), vnd.Not(backend.Present[i])), "answer differs from what the backend just reported")
				reportedAt[i] = vnd.IteInt(backend.Present[i], off, reportedAt[i])
				reported[i] = vnd.Or(reported[i], backend.Present[i])
			} else {
				vnd.Cover("u2-withheld")
				vnd.Assert(reported[i], "digest withheld from the backend although the backend never reported it present")
				vnd.Assert(off-reportedAt[i] <= durationSeconds, "digest withheld from the backend although its last report is older than the cache duration")
				vnd.Assert(!verifHas(missing.Items(), d), "withheld digest reported missing")
				if off-reportedAt[i] == durationSeconds {
					vnd.Cover("u2-withheld-at-the-boundary")
				}
			}
		}
		if op > 0 && len(forwarded) == len(q) {
			vnd.Cover("u2-nothing-withheld")
		}
		vnd.Observe("fm", uint64(len(forwarded)), uint64(missing.Length()))
	}
}
