//go:build verif

package completenesschecking

import (
	"context"
	"io"

	remoteexecution "github.com/bazelbuild/remote-apis/build/bazel/remote/execution/v2"
	vnd "github.com/buildbarn/bb-storage/internal/verifnd"
	"github.com/buildbarn/bb-storage/internal/verifstub"
	"github.com/buildbarn/bb-storage/pkg/blobstore"
	"github.com/buildbarn/bb-storage/pkg/blobstore/buffer"
	"github.com/buildbarn/bb-storage/pkg/blobstore/slicing"
	"github.com/buildbarn/bb-storage/pkg/digest"

	"google.golang.org/grpc/codes"
	"google.golang.org/grpc/status"
	"google.golang.org/protobuf/proto"
)

// ---- C13 / Y1: reference closure of an ActionResult --------------------------
//
// The harness builds the ActionResult (and the Tree objects it points to) from
// a chosen SHAPE and derives from the same shape, without looking at the
// messages again, the set of CAS objects the result references (the "reference
// set"). The code under test derives that set by walking the messages and
// streaming through the Tree's wire bytes.

// object slots of the universe
const (
	verifSlotOF0       = iota // output file 0
	verifSlotOF1              // output file 1
	verifSlotStdout           //
	verifSlotStderr           //
	verifSlotRootFile         // file listed in the Tree's root directory
	verifSlotChildFile        // file listed in the Tree's child directory
	verifSlotChildDir         // the child Directory as a CAS object
	verifSlotRootDir          // the root Directory as a CAS object
	verifSlotTree             // the Tree object
	verifSlotUnrelated        // an object nothing refers to
	verifSlots
)

var verifSlotNames = [verifSlots]string{"output file 0", "output file 1", "stdout", "stderr", "file in the Tree's root", "file in the Tree's child directory", "child directory of the Tree", "root directory", "Tree object", "unrelated object"}

const (
	verifMalNone    = iota
	verifMalNil     // digest absent
	verifMalLength  // hash one character short
	verifMalNonHex  // hash with an upper-case hexadecimal letter
	verifMalNegSize // negative size
	verifMalNoHash  // digest present, but with an empty hash (and a non-zero size)
	verifMalKinds
)

// verifShape is the generated shape of an ActionResult.
type verifShape struct {
	outputFiles int // 0..2
	stdout      bool
	stderr      bool
	directory   bool // one output directory
	rootDigest  bool // ... with root_directory_digest
	treeKind    int  // 0 empty root; 1 root{file}; 2 root{file, dir -> child{file}} + children[child]
	malSlot     int  // slot whose reference is malformed (-1 none)
	malKind     int
}

func verifMD5Object(data []byte) verifstub.Object {
	f := digest.MustNewFunction("", remoteexecution.DigestFunction_MD5)
	g := f.NewGenerator(int64(len(data)))
	g.Write(data)
	return verifstub.Object{Digest: g.Sum(), Data: data}
}

// verifWorld is everything built from a shape.
type verifWorld struct {
	shape    verifShape
	objects  []verifstub.Object // indexed by slot
	result   *remoteexecution.ActionResult
	required [verifSlots]bool // the reference set
	// malformedReached: the malformed reference is one the decorator must look at
	malformedReached bool
}

// ref renders the wire digest of a slot as the ActionResult/Tree refers to it,
// applying the shape's malformation to the designated slot.
func (w *verifWorld) ref(slot int) *remoteexecution.Digest {
	d := w.objects[slot].Digest.GetProto()
	if w.shape.malSlot != slot {
		w.required[slot] = true
		return d
	}
	switch w.shape.malKind {
	case verifMalNil:
		// an absent digest is no reference (inlined or empty output)
		return nil
	case verifMalLength:
		d.Hash = d.Hash[1:]
	case verifMalNonHex:
		d.Hash = "A" + d.Hash[1:]
	case verifMalNegSize:
		d.SizeBytes = -d.SizeBytes - 1
	case verifMalNoHash:
		d.Hash = ""
	}
	w.malformedReached = true
	return d
}

func verifMustMarshal(m proto.Message) []byte {
	data, err := proto.Marshal(m)
	vnd.Assert(err == nil, "harness: cannot marshal a message it built")
	return data
}

func verifBuildWorld(s verifShape) *verifWorld {
	w := &verifWorld{shape: s, objects: make([]verifstub.Object, verifSlots)}
	files := verifstub.Universe("", 7)
	w.objects[verifSlotOF0] = files[0]
	w.objects[verifSlotOF1] = files[1]
	w.objects[verifSlotStdout] = files[2]
	w.objects[verifSlotStderr] = files[3]
	w.objects[verifSlotRootFile] = files[4]
	w.objects[verifSlotChildFile] = files[5]
	w.objects[verifSlotUnrelated] = files[6]
	// placeholders so that ref() of not yet built objects is never consulted out of order
	child := &remoteexecution.Directory{}
	root := &remoteexecution.Directory{}
	tree := &remoteexecution.Tree{Root: root}

	ar := &remoteexecution.ActionResult{ExitCode: 3}
	if s.outputFiles >= 1 {
		ar.OutputFiles = append(ar.OutputFiles, &remoteexecution.OutputFile{Path: "o0", Digest: w.ref(verifSlotOF0)})
	}
	if s.outputFiles >= 2 {
		ar.OutputFiles = append(ar.OutputFiles, &remoteexecution.OutputFile{Path: "o1", Digest: w.ref(verifSlotOF1), IsExecutable: true})
	}
	if s.stdout {
		ar.StdoutDigest = w.ref(verifSlotStdout)
	}
	if s.stderr {
		ar.StderrDigest = w.ref(verifSlotStderr)
	}
	if s.directory {
		// the Tree, bottom up
		if s.treeKind >= 2 {
			child.Files = []*remoteexecution.FileNode{{Name: "cf", Digest: w.ref(verifSlotChildFile)}}
		}
		w.objects[verifSlotChildDir] = verifMD5Object(verifMustMarshal(child))
		if s.treeKind >= 1 {
			root.Files = []*remoteexecution.FileNode{{Name: "rf", Digest: w.ref(verifSlotRootFile)}}
		}
		if s.treeKind >= 2 {
			node := &remoteexecution.DirectoryNode{Name: "d"}
			if s.rootDigest {
				// directories are CAS objects of their own only if a root directory digest is announced
				node.Digest = w.ref(verifSlotChildDir)
			} else {
				node.Digest = w.objects[verifSlotChildDir].Digest.GetProto()
				if s.malSlot == verifSlotChildDir {
					// not a reference: whatever stands here must not matter
					node.Digest.Hash = "A" + node.Digest.Hash[1:]
				}
			}
			root.Directories = []*remoteexecution.DirectoryNode{node}
			tree.Children = []*remoteexecution.Directory{child}
		}
		w.objects[verifSlotRootDir] = verifMD5Object(verifMustMarshal(root))
		w.objects[verifSlotTree] = verifMD5Object(verifMustMarshal(tree))
		od := &remoteexecution.OutputDirectory{Path: "dir"}
		od.TreeDigest = w.ref(verifSlotTree)
		if s.malSlot == verifSlotTree && s.malKind == verifMalNil {
			// an output directory without a Tree digest cannot be checked at all
			w.malformedReached = true
		}
		if s.rootDigest {
			od.RootDirectoryDigest = w.ref(verifSlotRootDir)
		}
		ar.OutputDirectories = []*remoteexecution.OutputDirectory{od}
	} else {
		// unused slots still need distinct objects for the model
		w.objects[verifSlotChildDir] = verifMD5Object([]byte("unused child"))
		w.objects[verifSlotRootDir] = verifMD5Object([]byte("unused root"))
		w.objects[verifSlotTree] = verifMD5Object([]byte("unused tree"))
	}
	w.result = ar
	return w
}

// verifActionCache is the Action Cache behind the decorator: it hands out the
// harness's message as an already parsed Protobuf buffer.
type verifActionCache struct {
	blobstore.BlobAccess
	result *remoteexecution.ActionResult
	fail   bool
	gets   int
}

var verifErrACUnavailable = status.Error(codes.Unavailable, "verif: action cache unavailable")

func (ac *verifActionCache) Get(ctx context.Context, d digest.Digest) buffer.Buffer {
	ac.gets++
	if ac.fail {
		return buffer.NewBufferFromError(verifErrACUnavailable)
	}
	return buffer.NewProtoBufferFromProto(ac.result, buffer.UserProvided)
}

// verifFlakyCAS fails the failAt-th call (FindMissing and Get counted together).
type verifFlakyCAS struct {
	*verifstub.Model
	failAt int
	calls  int
	failed bool
	// treeData, when non-nil, is served for the Tree digest through a validating CAS buffer
	treeDigest digest.Digest
	treeData   []byte
	integrity  int
	sources    []*verifTreeSource
}

var verifErrCASUnavailable = status.Error(codes.Unavailable, "verif: CAS unavailable")

func (c *verifFlakyCAS) FindMissing(ctx context.Context, digests digest.Set) (digest.Set, error) {
	k := c.calls
	c.calls++
	if k == c.failAt {
		c.failed = true
		return digest.EmptySet, verifErrCASUnavailable
	}
	return c.Model.FindMissing(ctx, digests)
}

func (c *verifFlakyCAS) Get(ctx context.Context, d digest.Digest) buffer.Buffer {
	k := c.calls
	c.calls++
	if k == c.failAt {
		c.failed = true
		return buffer.NewBufferFromError(verifErrCASUnavailable)
	}
	if c.treeData != nil && d == c.treeDigest {
		c.Calls = append(c.Calls, verifstub.Call{Op: "Get", Digests: []digest.Digest{d}})
		src := &verifTreeSource{data: c.treeData}
		c.sources = append(c.sources, src)
		return buffer.NewCASBufferFromReader(d, src, buffer.BackendProvided(func(ok bool) {
			if !ok {
				c.integrity++
			}
		}))
	}
	return c.Model.Get(ctx, d)
}

// verifTreeSource is the stream behind a Tree served by the CAS; it counts its
// Close calls (a reader that is never closed pins a block of a real back end).
type verifTreeSource struct {
	data   []byte
	pos    int
	closes int
}

func (s *verifTreeSource) Read(p []byte) (int, error) {
	if s.closes > 0 {
		vnd.Unreachable("Tree stream read after Close")
	}
	if s.pos >= len(s.data) {
		return 0, io.EOF
	}
	n := copy(p, s.data[s.pos:])
	s.pos += n
	return n, nil
}

func (s *verifTreeSource) Close() error {
	s.closes++
	return nil
}

// verifCheckSources: every Tree stream handed out was closed exactly once.
func verifCheckSources(c *verifFlakyCAS) {
	for _, src := range c.sources {
		vnd.Assert(src.closes == 1, "stream of a Tree object fetched from the CAS not closed exactly once")
	}
}

// verifQueried reports whether slot's digest was in a FindMissing call.
func verifQueried(m *verifstub.Model, slot int) bool {
	for _, c := range m.Calls {
		if c.Op != "FindMissing" {
			continue
		}
		for _, d := range c.Digests {
			if m.Index(d) == slot {
				return true
			}
		}
	}
	return false
}

type verifOutcome struct {
	returned bool
	err      error
}

func verifRunGet(w *verifWorld, cas blobstore.BlobAccess, ac *verifActionCache, batchSize int, maxTree int64) verifOutcome {
	ba := NewCompletenessCheckingBlobAccess(ac, cas, batchSize, 10000, maxTree)
	d := w.objects[verifSlotUnrelated].Digest
	var b buffer.Buffer
	if vnd.Choose(2) == 1 {
		// the composite read path must apply the same check (the slicer takes the whole parent)
		vnd.Cover("y1-composite-read")
		b = ba.GetFromComposite(context.Background(), d, d, verifWholeSlicer{})
	} else {
		b = ba.Get(context.Background(), d)
	}
	msg, err := b.ToProto(&remoteexecution.ActionResult{}, 10000)
	if err == nil {
		vnd.Assert(msg == proto.Message(w.result), "a message other than the stored ActionResult was returned")
	}
	return verifOutcome{returned: err == nil, err: err}
}

// verifCheckClosure is the oracle shared by the Y1 harnesses.
func verifCheckClosure(w *verifWorld, cas *verifFlakyCAS, out verifOutcome) {
	// two slots may hold identical content (e.g. two empty directories): the
	// model CAS keeps one presence bit per distinct digest, the first slot's
	canon := func(slot int) int { return cas.Index(w.objects[slot].Digest) }
	allPresent := true
	for slot := 0; slot < verifSlots; slot++ {
		if w.required[slot] {
			allPresent = vnd.And(allPresent, cas.Present[canon(slot)])
		}
	}
	if out.returned {
		vnd.Cover("returned")
		for slot := 0; slot < verifSlots; slot++ {
			if w.required[slot] {
				vnd.Assert(verifQueried(cas.Model, canon(slot)), "ActionResult returned although a referenced object was never checked for existence: "+verifSlotNames[slot])
				vnd.Assert(cas.Present[canon(slot)], "ActionResult returned although a referenced object is missing from the CAS: "+verifSlotNames[slot])
			}
		}
		vnd.Assert(!cas.failed, "ActionResult returned although a CAS call failed")
		vnd.Assert(!w.malformedReached, "ActionResult returned although it contains a malformed digest")
	} else {
		vnd.Cover("withheld")
		vnd.Assert(out.err != nil, "neither a result nor an error")
		if !cas.failed && !w.malformedReached {
			vnd.Assert(vnd.Not(allPresent), "complete ActionResult withheld")
			vnd.Assert(status.Code(out.err) == codes.NotFound, "incomplete ActionResult reported with a code other than NOT_FOUND")
		}
	}
}

func verifWellFormedShape() verifShape {
	s := verifShape{malSlot: -1}
	s.outputFiles = vnd.Choose(3)
	switch vnd.Choose(3) {
	case 1:
		s.stdout = true
	case 2:
		s.stdout, s.stderr = true, true
	}
	switch vnd.Choose(3) {
	case 1:
		s.directory = true
	case 2:
		s.directory, s.rootDigest = true, true
	}
	if s.directory {
		s.treeKind = vnd.Choose(3)
	}
	return s
}

// Verif_C13_Y1_ReferenceClosure: well-formed ActionResults of every shape within
// the bound; symbolic presence of every object; the k-th CAS call (symbolic k)
// fails; batch size 1..3. Returned => every object of the reference set was
// passed to FindMissing and is present, no CAS call failed. Withheld without a
// CAS error => something of the reference set is missing and the code is
// NOT_FOUND (in particular a complete result IS returned).
func Verif_C13_Y1_ReferenceClosure() {
	w := verifBuildWorld(verifWellFormedShape())
	batchSize := 1 + vnd.Choose(3)
	cas := &verifFlakyCAS{Model: verifstub.NewReliableModel("cas", w.objects), failAt: vnd.Int(-1, 6)}
	cas.Present[verifSlotUnrelated] = false
	if w.shape.directory {
		// the Tree is streamed from a validating, close-counting CAS buffer
		cas.treeDigest, cas.treeData = w.objects[verifSlotTree].Digest, w.objects[verifSlotTree].Data
	}
	ac := &verifActionCache{result: w.result}
	out := verifRunGet(w, cas, ac, batchSize, 1<<20)
	verifCheckClosure(w, cas, out)
	verifCheckSources(cas)
	if len(cas.sources) > 0 {
		vnd.Cover("tree-streamed")
	}
	vnd.Assert(ac.gets == 1, "action cache not read exactly once")
	if cas.failed {
		vnd.Cover("cas-error")
	}
	if w.shape.directory && w.shape.rootDigest && w.shape.treeKind == 2 {
		vnd.Cover("nested-tree-with-root-digest")
	}
	vnd.Observe("returned", verifB2U(out.returned), uint64(len(cas.Calls)))
}

// Verif_C13_Y1_MalformedDigest: the largest shape with exactly one reference
// absent or malformed (hash length, non-hexadecimal character, negative size).
// A malformed reference the decorator has to look at => error, never the
// result; an absent digest is no reference (except the Tree digest of an output
// directory, without which the directory cannot be checked); directory digests
// inside a Tree are references only if a root directory digest is announced.
func Verif_C13_Y1_MalformedDigest() {
	s := verifShape{outputFiles: 2, stdout: true, stderr: true, directory: true, treeKind: 2}
	s.rootDigest = vnd.Choose(2) == 1
	s.malSlot = vnd.Choose(verifSlotTree + 1)
	s.malKind = 1 + vnd.Choose(verifMalKinds-1)
	if s.malSlot == verifSlotRootDir && (!s.rootDigest || s.malKind == verifMalNil) {
		// no root digest to malform; an absent one is the shape "without root digest"
		vnd.Assume(false)
	}
	w := verifBuildWorld(s)
	batchSize := 2
	if vnd.Thorough() {
		batchSize = 1 + vnd.Choose(3)
	}
	cas := &verifFlakyCAS{Model: verifstub.NewReliableModel("cas", w.objects), failAt: -1}
	ac := &verifActionCache{result: w.result}
	out := verifRunGet(w, cas, ac, batchSize, 1<<20)
	verifCheckClosure(w, cas, out)
	if w.malformedReached {
		vnd.Cover("malformed-rejected")
		vnd.Assert(!out.returned && out.err != nil, "ActionResult with a malformed digest returned")
	} else {
		vnd.Cover("absent-or-unreferenced")
	}
	vnd.Observe("returned", verifB2U(out.returned), uint64(len(cas.Calls)))
}

// Verif_C13_Y1_TreeFaults: the Tree object served by the CAS is truncated at
// any byte or has one byte altered (the CAS buffer validates the checksum at
// the end of the stream, as real back ends do), or exceeds the configured total
// Tree size, or the action cache itself fails: error, never the result.
func Verif_C13_Y1_TreeFaults() {
	s := verifShape{outputFiles: 1, stdout: true, directory: true, rootDigest: true, treeKind: 2, malSlot: -1}
	if vnd.Thorough() {
		s.rootDigest = vnd.Choose(2) == 1
	}
	w := verifBuildWorld(s)
	tree := w.objects[verifSlotTree]
	cas := &verifFlakyCAS{Model: verifstub.NewReliableModel("cas", w.objects), failAt: -1}
	for i := range cas.Present {
		cas.Present[i] = true
	}
	ac := &verifActionCache{result: w.result}
	maxTree := int64(1 << 20)
	faulty := true
	switch vnd.Choose(5) {
	case 0: // truncated
		cut := vnd.Choose(len(tree.Data))
		cas.treeDigest, cas.treeData = tree.Digest, tree.Data[:cut]
		vnd.Cover("tree-truncated")
	case 1: // one byte altered
		pos := vnd.Choose(len(tree.Data))
		flip := []byte{0x01, 0x02, 0x80}[vnd.Choose(3)]
		data := append([]byte(nil), tree.Data...)
		data[pos] ^= flip
		cas.treeDigest, cas.treeData = tree.Digest, data
		vnd.Cover("tree-corrupted")
	case 2: // over budget
		maxTree = int64(len(tree.Data)) - 1 - int64(vnd.Choose(2))*int64(len(tree.Data)-1)
		vnd.Cover("tree-too-large")
	case 3: // exactly within budget, intact, served through the validating buffer
		maxTree = int64(len(tree.Data))
		cas.treeDigest, cas.treeData = tree.Digest, tree.Data
		faulty = false
		vnd.Cover("tree-intact")
	case 4:
		ac.fail = true
		vnd.Cover("action-cache-error")
	}
	batchSize := 2
	if vnd.Thorough() {
		batchSize = 1 + vnd.Choose(3)
	}
	out := verifRunGet(w, cas, ac, batchSize, maxTree)
	verifCheckSources(cas)
	if faulty {
		vnd.Assert(!out.returned && out.err != nil, "ActionResult returned although its Tree is truncated, corrupted or too large, or the action cache failed")
		if ac.fail {
			vnd.Assert(len(cas.Calls) == 0 && cas.calls == 0, "CAS consulted although the action cache failed")
			vnd.Assert(status.Code(out.err) == codes.Unavailable, "action cache error not passed on")
		}
	} else {
		vnd.Assert(out.returned, "complete ActionResult with an intact Tree withheld")
		vnd.Assert(cas.integrity == 0, "intact Tree reported as corrupted")
	}
	vnd.Observe("returned", verifB2U(out.returned), uint64(len(cas.Calls)))
	vnd.ObserveBytes("tree", tree.Data)
}

func verifB2U(b bool) uint64 {
	if b {
		return 1
	}
	return 0
}

// Verif_C13_Y1_TreeBudgetAcrossDirectories: the configured maximum applies to the
// COMBINED size of all Trees of the ActionResult: with k output directories
// (each carrying the same Tree of s bytes) and everything present, the result is
// returned iff k*s does not exceed the budget, for budgets around every multiple.
func Verif_C13_Y1_TreeBudgetAcrossDirectories() {
	s := verifShape{outputFiles: 1, directory: true, rootDigest: vnd.Choose(2) == 1, treeKind: 1, malSlot: -1}
	w := verifBuildWorld(s)
	tree := w.objects[verifSlotTree]
	size := int64(len(tree.Data))
	k := 1 + vnd.Choose(3)
	od := w.result.OutputDirectories[0]
	w.result.OutputDirectories = nil
	for i := 0; i < k; i++ {
		w.result.OutputDirectories = append(w.result.OutputDirectories, &remoteexecution.OutputDirectory{
			Path: []string{"d0", "d1", "d2"}[i], TreeDigest: od.TreeDigest, RootDirectoryDigest: od.RootDirectoryDigest,
		})
	}
	cas := &verifFlakyCAS{Model: verifstub.NewReliableModel("cas", w.objects), failAt: -1}
	for i := range cas.Present {
		cas.Present[i] = true
	}
	ac := &verifActionCache{result: w.result}
	// budgets: one byte below / exactly at each multiple of the Tree size up to k
	m := 1 + vnd.Choose(k)
	maxTree := int64(m)*size - int64(vnd.Choose(2))
	out := verifRunGet(w, cas, ac, 2, maxTree)
	fits := int64(k)*size <= maxTree
	if fits {
		vnd.Cover("within-budget")
		vnd.Assert(out.returned, "complete ActionResult withheld although the combined Tree size is within the budget")
	} else {
		vnd.Cover("over-budget")
		vnd.Assert(!out.returned && out.err != nil, "ActionResult returned although the combined size of its Trees exceeds the configured maximum")
	}
	vnd.Observe("budget", uint64(k), uint64(m), verifB2U(out.returned))
}


type verifWholeSlicer struct{}

func (verifWholeSlicer) Slice(b buffer.Buffer, childDigest digest.Digest) (buffer.Buffer, []slicing.BlobSlice) {
	return b, nil
}
