//go:build verif

package mirrored

import (
	"context"
	remoteexecution "github.com/bazelbuild/remote-apis/build/bazel/remote/execution/v2"
	"io"
	"strings"

	vnd "github.com/buildbarn/bb-storage/internal/verifnd"
	"github.com/buildbarn/bb-storage/internal/verifstub"
	"github.com/buildbarn/bb-storage/pkg/blobstore/buffer"
	"github.com/buildbarn/bb-storage/pkg/blobstore/replication"
	"github.com/buildbarn/bb-storage/pkg/blobstore/slicing"
	"github.com/buildbarn/bb-storage/pkg/digest"

	"golang.org/x/sync/semaphore"
	"google.golang.org/grpc/codes"
	"google.golang.org/grpc/status"
)

// verifPair is a mirrored composite over two model replicas, the real local
// replicator in both directions, and a chosen alternation state.
type verifPair struct {
	objs                  []verifstub.Object
	a, b                  *verifstub.Model
	ba                    *mirroredBlobAccess
	first                 *verifstub.Model // replica the next Get consults first
	second                *verifstub.Model
	firstName, secondName string
	// presence before the operation (symbolic terms)
	preA, preB []bool
}

func verifNewPair(nObjects int, chooseRound bool) *verifPair {
	return verifNewPairOver(verifstub.UniverseWithEmpty("inst", nObjects), chooseRound)
}

func verifNewPairOver(objs []verifstub.Object, chooseRound bool) *verifPair {
	p := &verifPair{objs: objs}
	p.a = verifstub.NewModel("replica-a", p.objs)
	p.b = verifstub.NewModel("replica-b", p.objs)
	ba := NewMirroredBlobAccess(p.a, p.b,
		replication.NewLocalBlobReplicator(p.a, p.b),
		replication.NewLocalBlobReplicator(p.b, p.a)).(*mirroredBlobAccess)
	// Alternation state: the counter is odd or even, near zero or near the
	// 32-bit wrap-around.
	round := 0
	if chooseRound {
		round = vnd.Choose(4)
	}
	switch round {
	case 0:
		ba.round.Store(0)
	case 1:
		ba.round.Store(1)
	case 2:
		ba.round.Store(0xfffffffe)
	case 3:
		ba.round.Store(0xffffffff)
	}
	p.ba = ba
	if (ba.round.Load()+1)%2 == 1 {
		p.first, p.second, p.firstName, p.secondName = p.a, p.b, "Backend A", "Backend B"
	} else {
		p.first, p.second, p.firstName, p.secondName = p.b, p.a, "Backend B", "Backend A"
	}
	p.preA = append([]bool(nil), p.a.Present...)
	p.preB = append([]bool(nil), p.b.Present...)
	return p
}

func (p *verifPair) pre(m *verifstub.Model, i int) bool {
	if m == p.a {
		return p.preA[i]
	}
	return p.preB[i]
}

// verifKinds picks the kind of buffer each replica hands out.
func verifKinds(p *verifPair, withTask bool) {
	n := 2
	if withTask {
		n = 3
	}
	p.a.BufferKind = vnd.Choose(n)
	p.b.BufferKind = vnd.Choose(n)
}

var verifEOF = io.EOF

func verifErrText(err error) string {
	if err == nil {
		return ""
	}
	return status.Convert(err).Message()
}

// Verif_C11_M1_Get: one Get through the mirrored pair, for every placement of
// the object, both alternation states, every combination of replica failures
// and both plain buffer kinds (byte slice, stream).
func Verif_C11_M1_Get() {
	ctx := context.Background()
	p := verifNewPair(2, true)
	verifKinds(p, false)
	verifGetOnce(ctx, p)
}

// Verif_C11_M4_GetRefreshInProgress: as M1, but replicas may hand out buffers
// that carry a background task (what a local store returns while it refreshes
// an object). The background task itself succeeds.
func Verif_C11_M4_GetRefreshInProgress() {
	ctx := context.Background()
	p := verifNewPair(1, true)
	verifKinds(p, true)
	vnd.Assume(p.a.BufferKind == verifstub.KindStreamWithTask || p.b.BufferKind == verifstub.KindStreamWithTask)
	verifGetOnce(ctx, p)
}

// Verif_C11_M6_GetActionCacheEntries: as M1, for message-backed buffers (what Action
// Cache replicas return; their clone and background-task implementations differ
// from the stream-backed ones).
func Verif_C11_M6_GetActionCacheEntries() {
	ctx := context.Background()
	p := verifNewPairOver(verifstub.UniverseProto("inst", 2), true)
	p.a.BufferKind, p.b.BufferKind = verifstub.KindProto, verifstub.KindProto
	verifGetOnce(ctx, p)
}

func verifGetOnce(ctx context.Context, p *verifPair) {
	k := vnd.Choose(len(p.objs))
	d := p.objs[k].Digest
	first, second := p.first, p.second
	pF, pS := p.pre(first, k), p.pre(second, k)
	fF, fS, fP := first.FailGet, second.FailGet, first.FailPut

	var data []byte
	var err error
	chunked, repairedAtEOF := false, false
	firstOp := "Get"
	mode := vnd.Choose(3)
	if p.a.BufferKind == verifstub.KindStreamWithTask || p.b.BufferKind == verifstub.KindStreamWithTask {
		mode = vnd.Choose(2)
	}
	if mode == 0 {
		data, err = p.ba.Get(ctx, d).ToByteSlice(100)
	} else if mode == 2 {
		// composite read (the child is the whole parent): same replica order, same repair
		vnd.Cover(verifTagComposite) // not demanded of callers that cannot reach it (M4)
		firstOp = "GetFromComposite"
		// the child is a digest no replica knows as an object of its own: replicas are only ever
		// asked for the PARENT
		child := digest.MustNewDigest("inst", remoteexecution.DigestFunction_MD5, "ffffffffffffffffffffffffffffffff", 1)
		data, err = p.ba.GetFromComposite(ctx, d, child, verifWholeSlicer{}).ToByteSlice(100)
	} else {
		// chunked consumption: the read is complete when Read reports io.EOF; the repair of
		// the first replica must have finished by then
		vnd.Cover("get-chunked")
		chunked = true
		r := p.ba.Get(ctx, d).ToChunkReader(0, 2)
		for i := 0; i < 10; i++ {
			var c []byte
			c, err = r.Read()
			data = append(data, c...)
			if err != nil {
				break
			}
		}
		if err == io.EOF {
			err = nil
			// the end of the stream is the completion report: sample the repair's effect now,
			// before Close gives the background task another chance to finish
			repairedAtEOF = first.Present[k]
		}
		r.Close()
	}

	// The alternation advanced by exactly one.
	vnd.Assert(len(first.Calls) >= 1 && first.Calls[0].Op == firstOp, "the replica whose turn it is was not consulted first")

	if err == nil {
		vnd.Assert(string(data) == string(p.objs[k].Data), "Get succeeded with content other than the object's")
	}
	switch {
	case fF:
		vnd.Cover("get-first-fails")
		vnd.Assert(err != nil, "failure of the first replica answered with success")
		vnd.Assert(status.Code(err) == codes.Unavailable, "failure of the first replica not surfaced with its own code")
		vnd.Assert(strings.HasPrefix(verifErrText(err), p.firstName+": "), "failure of the first replica does not name it")
		vnd.Assert(len(second.Calls) == 0, "second replica contacted although the first failed fatally")
	case pF:
		vnd.Cover("get-first-holds")
		vnd.Assert(err == nil, "Get failed although the first replica holds the object and does not fail")
		vnd.Assert(len(second.Calls) == 0, "second replica contacted although the first served the object")
	case fS:
		vnd.Cover("get-second-fails")
		vnd.Assert(err != nil, "failure of the second replica answered with success")
		vnd.Assert(status.Code(err) == codes.Unavailable, "failure of the second replica not surfaced with its own code (masked)")
		vnd.Assert(strings.HasPrefix(verifErrText(err), p.secondName+": "), "failure of the second replica does not name it")
	case !pS:
		vnd.Cover("get-neither-holds")
		vnd.Assert(err != nil, "Get succeeded although neither replica holds the object")
		if mode == 2 && fP {
			// a composite read repairs by copying the parent first: the failing repair
			// write may be reported before the source is found to lack the object
			vnd.Assert(status.Code(err) == codes.NotFound || status.Code(err) == codes.Unavailable, "object absent from both replicas reported neither as NOT_FOUND nor as the replica's failure")
		} else {
			vnd.Assert(status.Code(err) == codes.NotFound, "object absent from both replicas is not reported as NOT_FOUND")
		}
		vnd.Assert(first.PutOK == 0 && second.PutOK == 0, "something was stored although nothing was found")
	case fP:
		vnd.Cover("get-repair-write-fails")
		// The object was found in the second replica but writing it back to
		// the first one failed: a replica failure, so no success and no
		// NOT_FOUND; the message carries the replica's own text.
		vnd.Assert(err != nil, "failed repair write answered with success")
		vnd.Assert(status.Code(err) == codes.Unavailable, "failed repair write not surfaced with the replica's code")
		vnd.Assert(strings.Contains(verifErrText(err), first.Name+": injected Put failure"), "failed repair write loses the replica's message")
	default:
		vnd.Cover("get-repaired")
		vnd.Assert(err == nil, "Get failed although the second replica holds the object and nothing fails")
		vnd.Assert(first.Present[k], "after a successful read-through the replica consulted first still lacks the object")
		if chunked {
			vnd.Assert(repairedAtEOF, "the read reported the end of the stream before the copy to the replica consulted first had finished")
		}
		vnd.Assert(first.CountCalls("Put") == 1 && second.CountCalls("Put") == 0, "repair did not write exactly once, to the replica consulted first")
		vnd.Assert(len(first.PutIdx) == 1 && first.PutIdx[0] == k, "repair stored a different object")
	}
	// The other objects are untouched, and nothing ever vanishes.
	for i := range p.objs {
		if i != k {
			vnd.Assert(vnd.Iff(p.a.Present[i], p.preA[i]), "Get changed another object in replica A")
			vnd.Assert(vnd.Iff(p.b.Present[i], p.preB[i]), "Get changed another object in replica B")
		}
	}
	vnd.Assert(vnd.Implies(p.preA[k], p.a.Present[k]), "Get removed the object from replica A")
	vnd.Assert(vnd.Implies(p.preB[k], p.b.Present[k]), "Get removed the object from replica B")
	vnd.Assert(p.a.SourceOpened == p.a.SourceClosed, "a stream handed out by replica A was not released")
	vnd.Assert(p.b.SourceOpened == p.b.SourceClosed, "a stream handed out by replica B was not released")
	okv := uint64(0)
	if err == nil {
		okv = 1
	}
	vnd.Observe("get", okv, uint64(status.Code(err)), uint64(len(p.a.Calls)), uint64(len(p.b.Calls)))
}

// verifOrder forces which replica's operation starts first when the composite
// talks to both from two goroutines: 0 = whatever the scheduler does (A's task
// is spawned first), 1 = replica A only proceeds once replica B's call began.
func verifOrder(p *verifPair, op string) {
	if vnd.Choose(2) == 0 {
		return
	}
	started := make(chan struct{})
	var once bool
	begin := func() {
		if !once {
			once = true
			close(started)
		}
	}
	switch op {
	case "Put":
		p.b.OnPut = func(digest.Digest) { begin() }
		p.a.OnPut = func(digest.Digest) { <-started }
	case "FindMissing":
		p.b.OnFindMissing = begin
		p.a.OnFindMissing = func() { <-started }
	}
}

type verifSource struct {
	data   []byte
	pos    int
	closes int
}

func (c *verifSource) Read(b []byte) (int, error) {
	if c.pos >= len(c.data) {
		return 0, verifEOF
	}
	n := copy(b, c.data[c.pos:])
	c.pos += n
	return n, nil
}
func (c *verifSource) Close() error { c.closes++; return nil }

// Verif_C11_M2_Put: one upload through the mirrored pair; byte-slice and
// stream uploads, correct and corrupted content, every combination of replica
// failures, either replica starting first.
func Verif_C11_M2_Put() {
	ctx := context.Background()
	p := verifNewPair(2, false) // uploads do not depend on the alternation state
	k := vnd.Choose(len(p.objs))
	d := p.objs[k].Digest
	verifOrder(p, "Put")
	fA, fB := p.a.FailPut, p.b.FailPut

	var b buffer.Buffer
	var src *verifSource
	good := true
	switch vnd.Choose(3) {
	case 0:
		b = buffer.NewValidatedBufferFromByteSlice(p.objs[k].Data)
	case 1:
		src = &verifSource{data: p.objs[k].Data}
		b = buffer.NewCASBufferFromReader(d, src, buffer.UserProvided)
	case 2: // content that does not match the digest
		good = false
		bad := []byte("y") // same length for non-empty objects, one byte too many for the empty one
		if len(p.objs[k].Data) > 0 {
			bad = []byte("y" + string(p.objs[k].Data[1:]))
		}
		src = &verifSource{data: bad}
		b = buffer.NewCASBufferFromReader(d, src, buffer.UserProvided)
	}

	err := p.ba.Put(ctx, d, b)

	vnd.Assert(p.a.CountCalls("Put") == 1 && p.b.CountCalls("Put") == 1, "an upload did not reach each replica exactly once")
	vnd.Assert(len(p.a.Calls) == 1 && len(p.b.Calls) == 1, "upload caused other replica traffic")
	if err == nil {
		vnd.Cover("put-ok")
		vnd.Assert(p.a.Present[k], "upload succeeded but replica A does not hold the object")
		vnd.Assert(p.b.Present[k], "upload succeeded but replica B does not hold the object")
		vnd.Assert(p.a.PutOK == 1 && len(p.a.PutIdx) == 1 && p.a.PutIdx[0] == k, "upload succeeded but replica A did not consume the complete, matching content")
		vnd.Assert(p.b.PutOK == 1 && len(p.b.PutIdx) == 1 && p.b.PutIdx[0] == k, "upload succeeded but replica B did not consume the complete, matching content")
	}
	switch {
	case !good:
		vnd.Cover("put-corrupt")
		vnd.Assert(err != nil, "upload of content that does not match its digest succeeded")
		vnd.Assert(p.a.PutOK == 0 && p.b.PutOK == 0, "corrupted upload was stored")
	case !fA && !fB:
		vnd.Cover("put-both-fine")
		vnd.Assert(err == nil, "upload failed although neither replica fails")
	default:
		vnd.Assert(err != nil, "upload succeeded although a replica failed")
		vnd.Assert(status.Code(err) == codes.Unavailable, "replica failure during upload not surfaced with its code")
		msg := verifErrText(err)
		namesA := strings.HasPrefix(msg, "Backend A: "+p.a.Name+": injected Put failure")
		namesB := strings.HasPrefix(msg, "Backend B: "+p.b.Name+": injected Put failure")
		switch {
		case fA && fB:
			vnd.Cover("put-both-fail")
			vnd.Assert(namesA || namesB, "upload error names neither failing replica")
		case fA:
			vnd.Cover("put-a-fails")
			vnd.Assert(namesA, "upload error does not name failing replica A")
			vnd.Assert(p.b.Present[k], "replica B did not complete its half of the upload")
		default:
			vnd.Cover("put-b-fails")
			vnd.Assert(namesB, "upload error does not name failing replica B")
			vnd.Assert(p.a.Present[k], "replica A did not complete its half of the upload")
		}
	}
	if src != nil {
		vnd.Assert(src.closes == 1, "upload source not released exactly once")
	}
	for i := range p.objs {
		if i != k {
			vnd.Assert(vnd.Iff(p.a.Present[i], p.preA[i]), "Put changed another object in replica A")
			vnd.Assert(vnd.Iff(p.b.Present[i], p.preB[i]), "Put changed another object in replica B")
		}
	}
	vnd.Observe("put", uint64(status.Code(err)), uint64(p.a.PutOK), uint64(p.b.PutOK))
}

func verifSetHas(s digest.Set, d digest.Digest) bool {
	for _, x := range s.Items() {
		if x == d {
			return true
		}
	}
	return false
}

// Verif_C11_M3_FindMissing: one existence check over n digests (2 quick, 3
// thorough) of a universe with one more object, symbolic placement, symbolic
// failures of every replica call involved, either replica answering first.
func Verif_C11_M3_FindMissing() {
	ctx := context.Background()
	n := 2
	if vnd.Thorough() {
		n = 3
	}
	p := verifNewPair(n+1, false) // existence checks do not depend on the alternation state
	verifOrder(p, "FindMissing")
	sb := digest.NewSetBuilder(n)
	for i := 0; i < n; i++ {
		sb.Add(p.objs[i].Digest)
	}
	query := sb.Build()
	// A replica may also contradict itself: listed as present, NOT_FOUND on read.
	inconsistent := vnd.Choose(2) == 1
	if inconsistent {
		p.a.FailGetCode, p.b.FailGetCode = codes.NotFound, codes.NotFound
	}
	fmA, fmB := p.a.FailFindMissing, p.b.FailFindMissing
	gA, gB, uA, uB := p.a.FailGet, p.b.FailGet, p.a.FailPut, p.b.FailPut

	missing, err := p.ba.FindMissing(ctx, query)

	// What has to be copied.
	needAToB, needBToA := false, false
	for i := 0; i < n; i++ {
		needAToB = vnd.Or(needAToB, vnd.And(p.preA[i], vnd.Not(p.preB[i])))
		needBToA = vnd.Or(needBToA, vnd.And(p.preB[i], vnd.Not(p.preA[i])))
	}
	failAToB := vnd.And(needAToB, vnd.Or(gA, uB))
	failBToA := vnd.And(needBToA, vnd.Or(gB, uA))

	if err != nil {
		vnd.Assert(missing.Empty(), "failed existence check returned digests")
		vnd.Assert(status.Code(err) != codes.NotFound, "existence check failed with NOT_FOUND")
	}
	if fmA || fmB {
		vnd.Cover("fm-query-fails")
		vnd.Assert(err != nil, "existence check succeeded although a replica could not be queried")
		vnd.Assert(status.Code(err) == codes.Unavailable, "replica failure not surfaced with its code")
		msg := verifErrText(err)
		namesA := strings.HasPrefix(msg, "Backend A: "+p.a.Name+": injected FindMissing failure")
		namesB := strings.HasPrefix(msg, "Backend B: "+p.b.Name+": injected FindMissing failure")
		vnd.Assert(vnd.Implies(!fmB, namesA), "error does not name failing replica A")
		vnd.Assert(vnd.Implies(!fmA, namesB), "error does not name failing replica B")
		vnd.Assert(namesA || namesB, "error names neither failing replica")
		vnd.Assert(p.a.CountCalls("Put")+p.b.CountCalls("Put") == 0, "replication started although the query failed")
	} else if failAToB || failBToA {
		vnd.Cover("fm-replication-fails")
		vnd.Assert(err != nil, "existence check succeeded although synchronisation failed")
		msg := verifErrText(err)
		// A direction ends in NOT_FOUND when the source contradicts itself
		// (listed as present, NOT_FOUND on read) and the sink accepts the call.
		nfAToB := inconsistent && needAToB && gA && !uB
		nfBToA := inconsistent && needBToA && gB && !uA
		if (!failAToB || nfAToB) && (!failBToA || nfBToA) {
			vnd.Cover("fm-inconsistent")
			vnd.Assert(status.Code(err) == codes.Internal, "NOT_FOUND while replicating is not turned into INTERNAL")
			vnd.Assert(strings.Contains(msg, "returned inconsistent results while synchronizing"), "inconsistency not described")
		}
		if !nfAToB && !nfBToA {
			vnd.Assert(status.Code(err) == codes.Unavailable, "replica failure while synchronising not surfaced with its code")
		}
		vnd.Assert(vnd.Implies(!failBToA, strings.HasPrefix(msg, "Failed to synchronize from backend A to backend B: ") || strings.HasPrefix(msg, "Backend A returned inconsistent")), "error does not name the failing direction A to B")
		vnd.Assert(vnd.Implies(!failAToB, strings.HasPrefix(msg, "Failed to synchronize from backend B to backend A: ") || strings.HasPrefix(msg, "Backend B returned inconsistent")), "error does not name the failing direction B to A")
	} else {
		vnd.Cover("fm-ok")
		vnd.Assert(err == nil, "existence check failed although no replica call fails")
		for i := 0; i < n; i++ {
			want := vnd.And(vnd.Not(p.preA[i]), vnd.Not(p.preB[i]))
			vnd.Assert(vnd.Iff(verifSetHas(missing, p.objs[i].Digest), want), "reported missing differs from missing-from-both")
			held := vnd.Or(p.preA[i], p.preB[i])
			vnd.Assert(vnd.Iff(p.a.Present[i], held), "after a successful check replica A lacks an object that B held (or gained one nobody held)")
			vnd.Assert(vnd.Iff(p.b.Present[i], held), "after a successful check replica B lacks an object that A held (or gained one nobody held)")
		}
		vnd.Assert(missing.Length() <= n, "more digests reported than asked")
		if needAToB || needBToA {
			vnd.Cover("fm-repaired")
		}
	}
	// Never: loss of an object, or a change outside the queried set.
	for i := range p.objs {
		vnd.Assert(vnd.Implies(p.preA[i], p.a.Present[i]), "existence check removed an object from replica A")
		vnd.Assert(vnd.Implies(p.preB[i], p.b.Present[i]), "existence check removed an object from replica B")
	}
	vnd.Assert(vnd.Iff(p.a.Present[n], p.preA[n]) && vnd.Iff(p.b.Present[n], p.preB[n]), "object outside the query was touched")
	vnd.Observe("fm", uint64(status.Code(err)), uint64(missing.Length()), uint64(p.a.PutOK), uint64(p.b.PutOK))
}

// Verif_C11_M5_ChunkedReadRepairSchedules: a read-repairing Get consumed as a chunk
// stream while the copy to the first replica runs in its own goroutine, under all
// schedules with at most two preemptions: when the reader is told that the stream
// has ended, the replica consulted first holds the object.
//
// symgo: maxpaths=400000
func Verif_C11_M5_ChunkedReadRepairSchedules() {
	vnd.ExploreSchedules(true)
	ctx := context.Background()
	p := verifNewPair(1, true)
	p.a.BufferKind, p.b.BufferKind = verifstub.KindStream, verifstub.KindStream
	// the first replica lacks the object, the second holds it, nothing fails
	vnd.Assume(!p.first.Present[0] && p.second.Present[0])
	vnd.Assume(!p.a.FailGet && !p.a.FailPut && !p.a.FailFindMissing && !p.b.FailGet && !p.b.FailPut && !p.b.FailFindMissing)
	r := p.ba.Get(ctx, p.objs[0].Digest).ToChunkReader(0, 1+vnd.Choose(2))
	var data []byte
	var err error
	for i := 0; i < 10; i++ {
		var c []byte
		c, err = r.Read()
		data = append(data, c...)
		if err != nil {
			break
		}
	}
	vnd.Assert(err == io.EOF, "read-repairing Get failed although nothing fails")
	vnd.Assert(p.first.Present[0], "the read reported the end of the stream before the copy to the replica consulted first had finished")
	r.Close()
	vnd.Assert(string(data) == string(p.objs[0].Data), "Get returned content other than the object's")
	vnd.Cover("repaired-at-eof")
}

var verifTagComposite = "get-composite"

// verifWholeSlicer designates the whole parent as the requested child.
type verifWholeSlicer struct{}

func (verifWholeSlicer) Slice(b buffer.Buffer, childDigest digest.Digest) (buffer.Buffer, []slicing.BlobSlice) {
	return b, nil
}

// Verif_C11_M7_LossyRepairIsNotNotFound: the mirrored pair over the
// copy-then-read-back replicator strategies (concurrency-limiting, deduplicating):
// the object is held by the replica consulted second only, and the replica consulted
// first acknowledges the repair write without holding the object afterwards (an
// evicting or just-rotated store). The read then fails - but never with NOT_FOUND,
// because a replica does hold the object.
func Verif_C11_M7_LossyRepairIsNotNotFound() {
	ctx := context.Background()
	objs := verifstub.Universe("inst", 1)
	a := verifstub.NewReliableModel("replica-a", objs)
	b := verifstub.NewReliableModel("replica-b", objs)
	mk := func(src, dst *verifstub.Model) replication.BlobReplicator {
		base := replication.NewLocalBlobReplicator(src, dst)
		if vnd.Choose(2) == 1 {
			vnd.Cover("m7-deduplicating")
			return replication.NewDeduplicatingBlobReplicator(base, dst, digest.KeyWithoutInstance)
		}
		vnd.Cover("m7-limiting")
		return replication.NewConcurrencyLimitingBlobReplicator(base, dst, semaphore.NewWeighted(1))
	}
	ba := NewMirroredBlobAccess(a, b, mk(a, b), mk(b, a)).(*mirroredBlobAccess)
	first, second := a, b
	if vnd.Choose(2) == 1 {
		ba.round.Store(1)
		first, second = b, a
	}
	first.Present[0], second.Present[0] = false, true
	first.LosePut = vnd.Choose(2) == 1
	data, err := ba.Get(ctx, objs[0].Digest).ToByteSlice(100)
	if first.LosePut {
		vnd.Cover("m7-repair-lost")
		vnd.Assert(err != nil, "the read succeeded although the replica consulted first does not hold the object after the repair")
		vnd.Assert(status.Code(err) != codes.NotFound, "an object held by one replica was reported as NOT_FOUND because the other replica lost the repair write")
	} else {
		vnd.Cover("m7-repaired")
		vnd.Assert(err == nil && string(data) == string(objs[0].Data), "read-through repair through a copy-then-read-back replicator failed although nothing fails")
		vnd.Assert(first.Present[0], "after a successful read-through the replica consulted first still lacks the object")
	}
}
