//go:build verif

package grpcservers

import (
	"context"
	"hash"
	"io"

	remoteexecution "github.com/bazelbuild/remote-apis/build/bazel/remote/execution/v2"
	vnd "github.com/buildbarn/bb-storage/internal/verifnd"
	"github.com/buildbarn/bb-storage/internal/verifstub"
	"github.com/buildbarn/bb-storage/pkg/blobstore"
	"github.com/buildbarn/bb-storage/pkg/blobstore/buffer"
	"github.com/buildbarn/bb-storage/pkg/digest"

	"google.golang.org/genproto/googleapis/bytestream"
	"google.golang.org/grpc/codes"
	"google.golang.org/grpc/status"
)

// ---- reference object with symbolic content (hash idealisation as in C09) ----
//
// The reference object R has a concrete size and symbolic content; its digest
// carries a fixed hash string. The model hasher yields exactly that hash iff
// the bytes written to it equal R and some different value otherwise.

const verifC14RefHashHex = "000102030405060708090a0b0c0d0e0f"

type verifC14Hasher struct {
	ref, expected, written []byte
}

func (h *verifC14Hasher) Write(p []byte) (int, error) {
	h.written = append(h.written, p...)
	return len(p), nil
}

func (h *verifC14Hasher) Sum(b []byte) []byte {
	same := len(h.written) == len(h.ref)
	if same {
		for i := range h.ref {
			same = vnd.And(same, h.written[i] == h.ref[i])
		}
	}
	other := vnd.Bytes(len(h.expected))
	differs := false
	for i := range other {
		differs = vnd.Or(differs, other[i] != h.expected[i])
	}
	vnd.Assume(differs)
	out := make([]byte, len(h.expected))
	for i := range out {
		out[i] = vnd.IteU8(same, h.expected[i], other[i])
	}
	return append(b, out...)
}

func (h *verifC14Hasher) Reset()         { h.written = nil }
func (h *verifC14Hasher) Size() int      { return len(h.expected) }
func (h *verifC14Hasher) BlockSize() int { return 64 }

type verifC14Ref struct {
	n       int
	data    []byte
	digest  digest.Digest
	restore func() // reinstalls the real hash function (native replays share a process)
}

func verifC14NewRef(n int) *verifC14Ref {
	r := &verifC14Ref{n: n, data: vnd.Bytes(n)}
	r.digest = digest.MustNewDigest("", remoteexecution.DigestFunction_MD5, verifC14RefHashHex, int64(n))
	expected := r.digest.GetHashBytes()
	r.restore = digest.VerifSetHasherFactory(remoteexecution.DigestFunction_MD5, func(int64) hash.Hash {
		return &verifC14Hasher{ref: r.data, expected: expected}
	})
	return r
}

// verifC14Object: concrete content, real MD5 digest.
func verifC14Object(instanceName string, data []byte) verifstub.Object {
	f := digest.MustNewFunction(instanceName, remoteexecution.DigestFunction_MD5)
	g := f.NewGenerator(int64(len(data)))
	g.Write(data)
	return verifstub.Object{Digest: g.Sum(), Data: data}
}

func verifC14BytesEqual(a, b []byte) bool {
	if len(a) != len(b) {
		return false
	}
	eq := true
	for i := range a {
		eq = vnd.And(eq, a[i] == b[i])
	}
	return eq
}

// ---- a store that trusts its callers -------------------------------------------
//
// verifNaiveStore keeps whatever an upload's buffer yields without looking at
// it: whether mismatching data can become visible is then decided by the code
// under test (and the buffer layer it uses), not by the model.

type verifStored struct {
	digest digest.Digest
	data   []byte
}

type verifNaiveStore struct {
	blobstore.BlobAccess
	failPut  bool // every Put fails
	failCall int  // the failCall-th Put (from 1) fails; 0: none
	puts     int
	stored   []verifStored
	events   *[]string
}

var verifErrBackend = status.Error(codes.Unavailable, "verif: backend unavailable")

func (s *verifNaiveStore) Put(ctx context.Context, d digest.Digest, b buffer.Buffer) error {
	s.puts++
	if s.failPut || s.puts == s.failCall {
		b.Discard()
		return verifErrBackend
	}
	data, err := b.ToByteSlice(1 << 20)
	if err != nil {
		return err
	}
	s.stored = append(s.stored, verifStored{digest: d, data: data})
	if s.events != nil {
		*s.events = append(*s.events, "stored")
	}
	return nil
}

// ---- ByteStream stream stubs ----------------------------------------------------

var verifErrTransport = status.Error(codes.Canceled, "verif: transport error")

type verifReadStream struct {
	bytestream.ByteStream_ReadServer
	sent   [][]byte
	sends  int
	failAt int // the failAt-th Send (from 0) fails; -1: none
}

func (s *verifReadStream) Context() context.Context { return context.Background() }

func (s *verifReadStream) Send(r *bytestream.ReadResponse) error {
	k := s.sends
	s.sends++
	if k == s.failAt {
		return verifErrTransport
	}
	s.sent = append(s.sent, append([]byte(nil), r.Data...))
	return nil
}

func (s *verifReadStream) all() []byte {
	var out []byte
	for _, c := range s.sent {
		out = append(out, c...)
	}
	return out
}

type verifWriteStream struct {
	bytestream.ByteStream_WriteServer
	script    []*bytestream.WriteRequest
	ending    error // what Recv reports after the script: io.EOF or a transport error
	pos       int
	responses []*bytestream.WriteResponse
	events    *[]string
}

func (s *verifWriteStream) Context() context.Context { return context.Background() }

func (s *verifWriteStream) Recv() (*bytestream.WriteRequest, error) {
	if s.pos < len(s.script) {
		r := s.script[s.pos]
		s.pos++
		return r, nil
	}
	s.pos++
	return nil, s.ending
}

func (s *verifWriteStream) SendAndClose(r *bytestream.WriteResponse) error {
	s.responses = append(s.responses, r)
	*s.events = append(*s.events, "closed")
	return nil
}

// ---- a backend whose read streams count their Close calls ------------------------

type verifCountingSource struct {
	data   []byte
	pos    int
	closes int
}

func (s *verifCountingSource) Read(p []byte) (int, error) {
	if s.closes > 0 {
		vnd.Unreachable("backend stream read after Close")
	}
	if s.pos >= len(s.data) {
		return 0, io.EOF
	}
	n := copy(p, s.data[s.pos:])
	s.pos += n
	return n, nil
}

func (s *verifCountingSource) Close() error {
	s.closes++
	return nil
}

// verifStreamingCAS serves what the model holds through reader-backed,
// validating CAS buffers.
type verifStreamingCAS struct {
	*verifstub.Model
	sources []*verifCountingSource
}

func (c *verifStreamingCAS) Get(ctx context.Context, d digest.Digest) buffer.Buffer {
	data, err := c.Model.Get(ctx, d).ToByteSlice(1 << 20)
	if err != nil {
		return buffer.NewBufferFromError(err)
	}
	src := &verifCountingSource{data: data}
	c.sources = append(c.sources, src)
	return buffer.NewCASBufferFromReader(d, src, buffer.BackendProvided(func(bool) {}))
}
