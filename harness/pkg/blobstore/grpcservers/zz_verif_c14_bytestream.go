//go:build verif

package grpcservers

import (
	"context"
	"fmt"
	"io"
	"math"

	vnd "github.com/buildbarn/bb-storage/internal/verifnd"
	"github.com/buildbarn/bb-storage/internal/verifstub"
	bb_zstd "github.com/buildbarn/bb-storage/pkg/zstd"

	"google.golang.org/genproto/googleapis/bytestream"
	"google.golang.org/grpc/codes"
	"google.golang.org/grpc/status"
)

// ---- C14 / B3: ByteStream Read -----------------------------------------------

func verifC14MaxN() int {
	if vnd.Thorough() {
		return 4
	}
	return 3
}

// Verif_C14_B3_Read: object of 0..3 concrete bytes (real MD5 digest) in a model
// backend with symbolic presence and symbolic Get failure; every read offset in
// -1..n+1 plus the int64 extremes; read chunk size 1..3; symbolic ReadLimit; the
// k-th Send (symbolic k) fails. The concatenation of the Send payloads is
// exactly the object's suffix at the offset when the RPC succeeds, a prefix of
// that suffix in every case, nothing for an offset outside the object, a
// non-zero ReadLimit, an absent object or a backend error.
func Verif_C14_B3_Read() {
	maxN := verifC14MaxN()
	n := vnd.Choose(maxN + 1)
	data := []byte("abcd")[:n]
	instance := []string{"", "i/j"}[vnd.Choose(2)]
	obj := verifC14Object(instance, data)
	decoy := verifC14Object(instance, []byte("zyxw")[:n]) // same size, other content
	backend := verifstub.NewModel("cas", []verifstub.Object{obj, decoy})
	backend.FailPut, backend.FailFindMissing = false, false

	offs := []int64{math.MinInt64, math.MaxInt64}
	for o := -1; o <= n+1; o++ {
		offs = append(offs, int64(o))
	}
	off := offs[vnd.Choose(len(offs))]
	chunk := 1 + vnd.Choose(3)
	limit := vnd.I64()
	stream := &verifReadStream{failAt: vnd.Int(-1, maxN)}
	name := fmt.Sprintf("blobs/%s/%d", obj.Digest.GetHashString(), n)
	if instance != "" {
		name = instance + "/" + name
	}

	streaming := &verifStreamingCAS{Model: backend}
	s := NewByteStreamServer(streaming, chunk, nil)
	err := s.Read(&bytestream.ReadRequest{ResourceName: name, ReadOffset: off, ReadLimit: limit}, stream)
	got := stream.all()

	for _, c := range stream.sent {
		vnd.Assert(len(c) <= chunk, "Send payload larger than the configured read chunk size")
	}
	for _, src := range streaming.sources {
		vnd.Assert(src.closes == 1, "backend stream not released exactly once")
	}
	for _, c := range backend.Calls {
		vnd.Assert(c.Op == "Get" && len(c.Digests) == 1 && c.Digests[0] == obj.Digest, "backend asked for something other than the named object")
	}
	switch {
	case limit != 0:
		vnd.Cover("read-limit")
		vnd.Assert(err != nil && status.Code(err) == codes.Unimplemented, "non-zero ReadLimit not refused as UNIMPLEMENTED")
		vnd.Assert(len(got) == 0 && stream.sends == 0, "data sent for a request with a ReadLimit")
	case off < 0 || off > int64(n):
		vnd.Cover("bad-offset")
		vnd.Assert(err != nil, "read at an offset outside the object succeeded")
		vnd.Assert(len(got) == 0, "data sent for an offset outside the object")
	case backend.FailGet || !backend.Present[0]:
		vnd.Cover("absent-or-backend-error")
		vnd.Assert(err != nil, "read of an absent object (or with a failing backend) succeeded")
		vnd.Assert(len(got) == 0, "data sent for an absent object")
		if !backend.FailGet {
			vnd.Assert(status.Code(err) == codes.NotFound, "absent object not reported as NOT_FOUND")
		}
	default:
		want := data[off:]
		vnd.Assert(len(got) <= len(want), "more bytes sent than the object's suffix holds")
		if len(got) <= len(want) {
			vnd.Assert(verifC14BytesEqual(got, want[:len(got)]), "bytes sent are not the object's bytes at the requested offset")
		}
		if err == nil {
			vnd.Cover("read-ok")
			vnd.Assert(len(got) == len(want), "RPC succeeded without sending the complete suffix")
		} else {
			vnd.Cover("send-failed")
			vnd.Assert(err == verifErrTransport, "unexpected error for a present object")
			vnd.Assert(stream.sends == stream.failAt+1, "Send called again after it failed")
		}
	}
	vnd.ObserveBytes("sent", got)
	vnd.Observe("err", uint64(status.Code(err)))
}

// ---- C14 / B1: ByteStream Write (identity) ------------------------------------

// Verif_C14_B1_Write: reference object R of 0..3 symbolic bytes; the client
// stream delivers 0..3 WriteRequests (symbolic int64 offset, 0..2 symbolic data
// bytes, symbolic finish_write) and then ends with EOF or a transport error;
// the backend stores whatever a successful upload buffer yields, or fails.
// Stored => offsets contiguous from 0, finish_write exactly on the last
// request, stream ended with EOF, concatenated data == R. Every other case: the
// RPC returns an error and nothing is stored. SendAndClose exactly once, after
// the store, with the object's size, iff the RPC succeeds.
func Verif_C14_B1_Write() { verifC14Write(false) }

// Verif_C14_B2_WriteZstd: the same automaton for compressed uploads
// (compressed-blobs/zstd), with a decoder stub that passes bytes through
// unchanged: what must hold of the message sequence is independent of the codec.
func Verif_C14_B2_WriteZstd() { verifC14Write(true) }

// verifIdentityPool hands out "decoders" that return the compressed stream as is.
type verifIdentityPool struct{ bb_zstd.Pool }

type verifIdentityDecoder struct {
	bb_zstd.Decoder
	r io.Reader
}

func (d verifIdentityDecoder) Read(p []byte) (int, error) { return d.r.Read(p) }
func (d verifIdentityDecoder) Close()                     {}

func (verifIdentityPool) NewDecoder(ctx context.Context, r io.Reader) (bb_zstd.Decoder, error) {
	return verifIdentityDecoder{r: r}, nil
}

func verifC14Write(zstd bool) {
	maxN := verifC14MaxN()
	ref := verifC14NewRef(vnd.Choose(maxN + 1))
	defer ref.restore()
	var events []string
	store := &verifNaiveStore{failPut: vnd.Bool(), events: &events}

	k := vnd.Choose(4)
	stream := &verifWriteStream{events: &events}
	midfix := "blobs"
	if zstd {
		midfix = "compressed-blobs/zstd"
	}
	goodName := fmt.Sprintf("uploads/7e6a/%s/%s/%d", midfix, verifC14RefHashHex, ref.n)
	nameKind := 0
	if k > 0 {
		nameKind = vnd.Choose(3)
	}
	var all []byte
	contiguous, finishOK := true, true
	expect := int64(0)
	for i := 0; i < k; i++ {
		rq := &bytestream.WriteRequest{WriteOffset: vnd.I64(), Data: vnd.Bytes(vnd.Choose(3)), FinishWrite: vnd.Bool()}
		if i == 0 {
			switch nameKind {
			case 0:
				rq.ResourceName = goodName
			case 1:
				rq.ResourceName = fmt.Sprintf("uploads/7e6a/%s/%s", midfix, verifC14RefHashHex) // size missing
			case 2:
				rq.ResourceName = fmt.Sprintf("uploads/7e6a/%s/%s/%d", midfix, verifC14RefHashHex[1:], ref.n)
			}
		}
		contiguous = vnd.And(contiguous, rq.WriteOffset == expect)
		expect += int64(len(rq.Data))
		finishOK = vnd.And(finishOK, rq.FinishWrite == (i == k-1))
		all = append(all, rq.Data...)
		stream.script = append(stream.script, rq)
	}
	stream.ending = io.EOF
	if vnd.Choose(2) == 1 {
		stream.ending = verifErrTransport
	}

	var pool bb_zstd.Pool
	if zstd {
		pool = verifIdentityPool{}
	}
	s := NewByteStreamServer(store, 1<<16, pool)
	err := s.Write(stream)

	wellFormed := vnd.And(vnd.And(contiguous, finishOK), verifC14BytesEqual(all, ref.data))
	wellFormed = vnd.And(wellFormed, k > 0 && nameKind == 0 && stream.ending == io.EOF)
	stored := len(store.stored) > 0

	if stored {
		vnd.Cover("stored")
		vnd.Assert(contiguous, "object stored although the write offsets were not contiguous from zero")
		vnd.Assert(finishOK, "object stored although finish_write was not set exactly on the last request")
		vnd.Assert(stream.ending == io.EOF && stream.pos == k+1, "object stored although the client stream did not end cleanly")
		vnd.Assert(len(store.stored) == 1 && store.stored[0].digest == ref.digest, "stored under a digest other than the one in the resource name")
		vnd.Assert(verifC14BytesEqual(all, ref.data), "object stored although the uploaded data does not match the digest")
		vnd.Assert(verifC14BytesEqual(store.stored[0].data, ref.data), "stored bytes differ from the object the digest names")
		vnd.Assert(err == nil, "RPC failed although the object became visible")
	} else {
		vnd.Cover("not-stored")
		vnd.Assert(err != nil, "RPC succeeded although nothing was stored")
	}
	vnd.Assert(vnd.Implies(vnd.And(wellFormed, vnd.Not(store.failPut)), stored), "well-formed upload of matching data not stored")
	if err == nil {
		vnd.Assert(len(events) == 2 && events[0] == "stored" && events[1] == "closed", "SendAndClose not called exactly once after the store")
		if len(stream.responses) == 1 {
			// identity uploads commit the object's size; compressed uploads commit the length of the
			// compressed stream (equal here, as the decoder stub passes bytes through)
			vnd.Assert(stream.responses[0].CommittedSize == int64(ref.n), "committed size differs from the object's size")
		}
	} else {
		vnd.Cover("rpc-error")
		vnd.Assert(len(stream.responses) == 0, "SendAndClose called by a failing RPC")
		if nameKind != 0 || k == 0 {
			vnd.Assert(store.puts == 0, "backend contacted without a valid resource name")
		}
	}
	if k == 3 && stored {
		vnd.Cover("stored-from-three-requests")
	}
	vnd.Observe("outcome", verifC14B2U(stored), uint64(status.Code(err)), uint64(store.puts))
}

func verifC14B2U(b bool) uint64 {
	if b {
		return 1
	}
	return 0
}
