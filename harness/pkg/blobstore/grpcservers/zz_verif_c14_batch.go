//go:build verif

package grpcservers

import (
	"context"

	remoteexecution "github.com/bazelbuild/remote-apis/build/bazel/remote/execution/v2"
	vnd "github.com/buildbarn/bb-storage/internal/verifnd"
	"github.com/buildbarn/bb-storage/internal/verifstub"
	"github.com/buildbarn/bb-storage/pkg/blobstore"
	"github.com/buildbarn/bb-storage/pkg/blobstore/buffer"
	"github.com/buildbarn/bb-storage/pkg/digest"

	"google.golang.org/grpc/codes"
	"google.golang.org/grpc/status"
	"google.golang.org/protobuf/proto"
)

// ---- C14 / B4: FindMissingBlobs, BatchReadBlobs, BatchUpdateBlobs -------------

// universe of the batch harnesses: sizes 2, 1, 0
func verifC14Universe(instance string) []verifstub.Object {
	return []verifstub.Object{
		verifC14Object(instance, []byte("ab")),
		verifC14Object(instance, []byte("c")),
		verifC14Object(instance, []byte("")),
	}
}

const (
	verifEntryMalformedHex = 3 // non-hexadecimal character in the hash
	verifEntryNil          = 4 // digest absent
	verifEntryShortHash    = 5 // hash one character short
	verifEntryKinds        = 6
)

// verifC14Entry renders entry kind e as a wire digest (e < 3: object e).
func verifC14Entry(u []verifstub.Object, e int) *remoteexecution.Digest {
	switch e {
	case verifEntryMalformedHex:
		d := u[0].Digest.GetProto()
		d.Hash = "G" + d.Hash[1:]
		return d
	case verifEntryNil:
		return nil
	case verifEntryShortHash:
		d := u[1].Digest.GetProto()
		d.Hash = d.Hash[1:]
		return d
	}
	return u[e].Digest.GetProto()
}

func verifC14BatchBound() int {
	if vnd.Thorough() {
		return 3
	}
	return 2
}

// verifC14Setup picks instance name and digest function of a request: the empty
// instance with the function inferred from the first hash's length, a nested
// instance with explicit MD5, the empty instance with explicit MD5, or an
// instance name with a reserved pathname component (invalid).
func verifC14Setup() (instance string, instanceOK bool, fn remoteexecution.DigestFunction_Value) {
	switch vnd.Choose(4) {
	case 1:
		return "i/j", true, remoteexecution.DigestFunction_MD5
	case 2:
		return "", true, remoteexecution.DigestFunction_MD5
	case 3:
		return "i/uploads", false, remoteexecution.DigestFunction_UNKNOWN
	}
	return "", true, remoteexecution.DigestFunction_UNKNOWN
}

// verifC14Shape picks the number of entries and their kinds: the first entry
// ranges over all kinds, the second over the objects and one malformed kind, a
// third (thorough tier) over one object and one malformed kind. An invalid
// instance name is tried with one entry only.
func verifC14Shape(instanceOK bool, maxK int) []int {
	if !instanceOK {
		return []int{0}
	}
	k := vnd.Choose(maxK + 1)
	var entries []int
	for i := 0; i < k; i++ {
		switch i {
		case 0:
			entries = append(entries, vnd.Choose(verifEntryKinds))
		case 1:
			entries = append(entries, vnd.Choose(4))
		default:
			entries = append(entries, []int{0, verifEntryMalformedHex}[vnd.Choose(2)])
		}
	}
	return entries
}

// Verif_C14_B4_FindMissingBlobs: 0..2 (thorough 3) requested digests (objects of the universe,
// repeated ones, malformed ones), symbolic presence, symbolic backend failure.
// The response is exactly the set of requested objects the backend reports
// missing, as the wire digests of the request; a malformed request fails as a
// whole without reaching the backend; a backend error is passed on.
func Verif_C14_B4_FindMissingBlobs() {
	instance, instanceOK, fn := verifC14Setup()
	iname := instance
	if !instanceOK {
		iname = ""
	}
	u := verifC14Universe(iname)
	backend := verifstub.NewModel("cas", u)
	backend.FailGet, backend.FailPut = false, false
	entries := verifC14Shape(instanceOK, verifC14BatchBound())
	k := len(entries)
	req := &remoteexecution.FindMissingBlobsRequest{InstanceName: instance, DigestFunction: fn}
	requested := [3]bool{}
	malformed := false
	for _, e := range entries {
		if e < 3 {
			requested[e] = true
		} else {
			malformed = true
		}
		req.BlobDigests = append(req.BlobDigests, verifC14Entry(u, e))
	}
	s := NewContentAddressableStorageServer(backend, 1000)
	resp, err := s.FindMissingBlobs(context.Background(), req)

	switch {
	case k == 0:
		vnd.Cover("empty-request")
		vnd.Assert(err == nil && resp != nil && len(resp.MissingBlobDigests) == 0, "empty request not answered with an empty response")
		vnd.Assert(len(backend.Calls) == 0, "backend contacted for an empty request")
	case malformed || !instanceOK:
		vnd.Cover("malformed-request")
		vnd.Assert(err != nil && resp == nil, "malformed request answered")
		vnd.Assert(len(backend.Calls) == 0, "backend contacted for a malformed request")
	case backend.FailFindMissing:
		vnd.Cover("backend-error")
		vnd.Assert(err != nil && status.Code(err) == codes.Unavailable, "backend error not passed on")
	default:
		vnd.Cover("answered")
		vnd.Assert(err == nil && resp != nil, "well-formed request failed")
		if resp == nil {
			return
		}
		vnd.Assert(len(backend.Calls) == 1 && backend.Calls[0].Op == "FindMissing", "backend not asked exactly once")
		reported := [3]int{}
		for _, d := range resp.MissingBlobDigests {
			hit := -1
			for j := range u {
				if d != nil && d.Hash == u[j].Digest.GetHashString() && d.SizeBytes == u[j].Digest.GetSizeBytes() {
					hit = j
				}
			}
			vnd.Assert(hit >= 0, "response names a digest that is not in the request")
			if hit >= 0 {
				reported[hit]++
			}
		}
		for j := range u {
			vnd.Assert(reported[j] <= 1, "digest reported missing twice")
			vnd.Assert(vnd.Iff(reported[j] == 1, vnd.And(requested[j], vnd.Not(backend.Present[j]))), "response differs from the backend's answer")
		}
		for _, c := range backend.Calls {
			for _, d := range c.Digests {
				vnd.Assert(d.GetInstanceName().String() == instance, "backend asked under another instance name")
			}
		}
		vnd.Observe("missing", uint64(len(resp.MissingBlobDigests)))
	}
}

// verifReadBackend serves each object through a validating CAS buffer whose
// content the harness picks per Get: right, wrong with the right size, too
// short, too long; or the object is absent; or the backend fails.
type verifReadBackend struct {
	blobstore.BlobAccess
	universe []verifstub.Object
	gets     []digest.Digest
	kinds    []int
}

const (
	verifServeRight = iota
	verifServeWrong
	verifServeShort
	verifServeLong
	verifServeAbsent
	verifServeError
	verifServeKinds
)

func (b *verifReadBackend) Get(ctx context.Context, d digest.Digest) buffer.Buffer {
	b.gets = append(b.gets, d)
	kind := 0
	switch len(b.kinds) {
	case 0:
		kind = vnd.Choose(verifServeKinds)
	case 1:
		kind = []int{verifServeRight, verifServeWrong, verifServeAbsent}[vnd.Choose(3)]
	default:
		kind = []int{verifServeRight, verifServeLong}[vnd.Choose(2)]
	}
	b.kinds = append(b.kinds, kind)
	var data []byte
	for _, o := range b.universe {
		if o.Digest == d {
			data = o.Data
		}
	}
	switch kind {
	case verifServeWrong:
		w := append([]byte(nil), data...)
		if len(w) > 0 {
			w[0] ^= 0x20
		}
		data = w
	case verifServeShort:
		if len(data) > 0 {
			data = data[:len(data)-1]
		}
	case verifServeLong:
		data = append(append([]byte(nil), data...), 'x')
	case verifServeAbsent:
		return buffer.NewBufferFromError(status.Error(codes.NotFound, "verif: object not found"))
	case verifServeError:
		return buffer.NewBufferFromError(verifErrBackend)
	}
	return buffer.NewCASBufferFromByteSlice(d, data, buffer.BackendProvided(func(bool) {}))
}

// Verif_C14_B4_BatchReadBlobs: 0..2 (thorough 3) requested digests, total size
// limit chosen around the sum of sizes, backend content per Get as above. One
// response per request entry, in order, naming the request's digest; status OK
// iff the backend delivered the object's exact content, and then the data is
// that content; otherwise no data and the backend's/validation's code. A
// malformed entry or an oversized total fails the whole call before any Get.
func Verif_C14_B4_BatchReadBlobs() {
	instance, instanceOK, fn := verifC14Setup()
	iname := instance
	if !instanceOK {
		iname = ""
	}
	u := verifC14Universe(iname)
	backend := &verifReadBackend{universe: u}
	entries := verifC14Shape(instanceOK, verifC14BatchBound())
	k := len(entries)
	req := &remoteexecution.BatchReadBlobsRequest{InstanceName: instance, DigestFunction: fn}
	malformed := false
	total := int64(0)
	for _, e := range entries {
		if e < 3 {
			total += u[e].Digest.GetSizeBytes()
		} else {
			malformed = true
		}
		req.Digests = append(req.Digests, verifC14Entry(u, e))
	}
	limit := int64(vnd.Int(0, 7)) // symbolic; the largest possible total is 6
	s := NewContentAddressableStorageServer(backend, limit)
	resp, err := s.BatchReadBlobs(context.Background(), req)

	switch {
	case k == 0:
		vnd.Cover("empty-request")
		vnd.Assert(err == nil && resp != nil && len(resp.Responses) == 0, "empty request not answered with an empty response")
		vnd.Assert(len(backend.gets) == 0, "backend contacted for an empty request")
	case malformed || !instanceOK:
		vnd.Cover("malformed-request")
		vnd.Assert(err != nil && resp == nil, "malformed request answered")
		vnd.Assert(len(backend.gets) == 0, "backend contacted for a malformed request")
	case total > limit:
		vnd.Cover("over-limit")
		vnd.Assert(err != nil && status.Code(err) == codes.InvalidArgument, "request exceeding the size limit not refused as INVALID_ARGUMENT")
		vnd.Assert(len(backend.gets) == 0, "backend contacted for a request exceeding the size limit")
	default:
		vnd.Cover("answered")
		vnd.Assert(err == nil && resp != nil, "well-formed request within the size limit failed")
		if resp == nil {
			return
		}
		vnd.Assert(len(resp.Responses) == k && len(backend.gets) == k, "not exactly one response and one backend read per requested digest")
		if len(resp.Responses) != k || len(backend.gets) != k {
			return
		}
		for i, r := range resp.Responses {
			o := u[entries[i]]
			vnd.Assert(backend.gets[i] == o.Digest, "backend read for another digest than requested")
			vnd.Assert(r.Digest != nil && r.Digest.Hash == o.Digest.GetHashString() && r.Digest.SizeBytes == o.Digest.GetSizeBytes(), "response entry does not name the requested digest")
			code := codes.Code(r.Status.GetCode())
			kind := backend.kinds[i]
			// altering or shortening the empty object yields the empty object
			right := kind == verifServeRight || (len(o.Data) == 0 && (kind == verifServeWrong || kind == verifServeShort))
			if right {
				vnd.Cover("entry-ok")
				vnd.Assert(code == codes.OK, "exact content not delivered")
				vnd.Assert(verifC14BytesEqual(r.Data, o.Data), "delivered data differs from the object")
			} else {
				vnd.Cover("entry-failed")
				vnd.Assert(code != codes.OK, "entry reported OK although the backend did not deliver the object's content")
				vnd.Assert(len(r.Data) == 0, "data that does not match its digest was delivered")
				switch kind {
				case verifServeAbsent:
					vnd.Assert(code == codes.NotFound, "absent object not reported as NOT_FOUND")
				case verifServeError:
					vnd.Assert(code == codes.Unavailable, "backend error code not passed on")
				default:
					vnd.Assert(code == codes.Internal, "corrupted backend content not reported as INTERNAL")
				}
			}
			vnd.Observe("entry", uint64(code), uint64(len(r.Data)))
		}
	}
}

// Verif_C14_B4_BatchUpdateBlobs: 0..2 (thorough 3) upload entries, each naming an
// object of the universe (or a malformed digest) with right data, wrong data of
// the right size, too short or too long data; the backend keeps whatever a
// successful upload buffer yields, and its n-th Put (symbolic n) fails. One
// response per entry in order; status OK iff that entry was stored; everything
// stored is the exact content of its digest; mismatching data and malformed
// digests yield INVALID_ARGUMENT for that entry only.
func Verif_C14_B4_BatchUpdateBlobs() {
	instance, instanceOK, fn := verifC14Setup()
	iname := instance
	if !instanceOK {
		iname = ""
	}
	u := verifC14Universe(iname)
	store := &verifNaiveStore{failCall: vnd.Int(0, 3)}
	entries := verifC14Shape(instanceOK, verifC14BatchBound())
	k := len(entries)
	req := &remoteexecution.BatchUpdateBlobsRequest{InstanceName: instance, DigestFunction: fn}
	var dataKinds []int
	for i, e := range entries {
		dk := 0
		switch i {
		case 0:
			dk = vnd.Choose(4)
		case 1:
			dk = []int{verifServeRight, verifServeWrong, verifServeLong}[vnd.Choose(3)]
		default:
			dk = []int{verifServeRight, verifServeShort}[vnd.Choose(2)]
		}
		dataKinds = append(dataKinds, dk)
		base := u[0].Data
		if e < 3 {
			base = u[e].Data
		}
		data := append([]byte(nil), base...)
		switch dk {
		case verifServeWrong:
			if len(data) > 0 {
				data[0] ^= 0x20
			}
		case verifServeShort:
			if len(data) > 0 {
				data = data[:len(data)-1]
			}
		case verifServeLong:
			data = append(data, 'x')
		}
		req.Requests = append(req.Requests, &remoteexecution.BatchUpdateBlobsRequest_Request{Digest: verifC14Entry(u, e), Data: data})
	}
	s := NewContentAddressableStorageServer(store, 1000)
	resp, err := s.BatchUpdateBlobs(context.Background(), req)

	// whatever happened: everything stored is the exact content of its digest
	for _, st := range store.stored {
		hit := false
		for _, o := range u {
			if o.Digest == st.digest {
				hit = true
				vnd.Assert(verifC14BytesEqual(st.data, o.Data), "data that does not match its digest was stored")
			}
		}
		vnd.Assert(hit, "object stored under a digest that was not uploaded")
	}
	// the digest function is inferred from the first entry's hash when not given
	firstUnusable := k > 0 && fn == remoteexecution.DigestFunction_UNKNOWN && (entries[0] == verifEntryNil || entries[0] == verifEntryShortHash)
	switch {
	case k == 0:
		vnd.Cover("empty-request")
		vnd.Assert(err == nil && resp != nil && len(resp.Responses) == 0, "empty request not answered with an empty response")
		vnd.Assert(store.puts == 0, "backend contacted for an empty request")
	case !instanceOK || firstUnusable:
		vnd.Cover("malformed-request")
		vnd.Assert(err != nil && resp == nil, "request without usable instance name or digest function answered")
		vnd.Assert(store.puts == 0, "backend contacted for a malformed request")
	default:
		vnd.Cover("answered")
		vnd.Assert(err == nil && resp != nil, "well-formed request failed as a whole")
		if resp == nil {
			return
		}
		vnd.Assert(len(resp.Responses) == k, "not exactly one response per upload entry")
		if len(resp.Responses) != k {
			return
		}
		puts, storedSoFar := 0, 0
		for i, r := range resp.Responses {
			e, dk := entries[i], dataKinds[i]
			code := codes.Code(r.Status.GetCode())
			want := verifC14Entry(u, e)
			vnd.Assert((r.Digest == nil) == (want == nil) && (want == nil || (r.Digest.Hash == want.Hash && r.Digest.SizeBytes == want.SizeBytes)), "response entry does not name the uploaded digest")
			if e >= 3 {
				vnd.Cover("entry-malformed-digest")
				vnd.Assert(code == codes.InvalidArgument, "malformed digest not reported as INVALID_ARGUMENT for its entry")
				continue
			}
			puts++
			right := dk == verifServeRight || (len(u[e].Data) == 0 && (dk == verifServeWrong || dk == verifServeShort))
			failed := puts == store.failCall
			switch {
			case failed:
				vnd.Cover("entry-backend-error")
				vnd.Assert(code == codes.Unavailable, "backend error not reported for its entry")
			case right:
				vnd.Cover("entry-stored")
				vnd.Assert(code == codes.OK, "matching upload not reported OK")
				vnd.Assert(storedSoFar < len(store.stored) && store.stored[storedSoFar].digest == u[e].Digest, "entry reported OK but not stored under its digest")
				storedSoFar++
			default:
				vnd.Cover("entry-mismatch")
				vnd.Assert(code == codes.InvalidArgument, "mismatching upload not reported as INVALID_ARGUMENT")
			}
			vnd.Observe("entry", uint64(code))
		}
		vnd.Assert(storedSoFar == len(store.stored), "more objects stored than entries reported OK")
		vnd.Assert(puts == store.puts, "backend not contacted exactly once per well-formed entry")
	}
}

// ---- C14: Action Cache server ---------------------------------------------------

type verifACBackend struct {
	blobstore.BlobAccess
	result   *remoteexecution.ActionResult
	getKind  int // 0 found, 1 absent, 2 error
	failPut  bool
	gets     []digest.Digest
	putKeys  []digest.Digest
	putMsgs  []proto.Message
	putSizes []int
}

func (b *verifACBackend) Get(ctx context.Context, d digest.Digest) buffer.Buffer {
	b.gets = append(b.gets, d)
	switch b.getKind {
	case 1:
		return buffer.NewBufferFromError(status.Error(codes.NotFound, "verif: no such action result"))
	case 2:
		return buffer.NewBufferFromError(verifErrBackend)
	}
	return buffer.NewProtoBufferFromProto(b.result, buffer.BackendProvided(func(bool) {}))
}

func (b *verifACBackend) Put(ctx context.Context, d digest.Digest, buf buffer.Buffer) error {
	b.putKeys = append(b.putKeys, d)
	if b.failPut {
		buf.Discard()
		return verifErrBackend
	}
	sz, _ := buf.GetSizeBytes()
	m, err := buf.ToProto(&remoteexecution.ActionResult{}, 10000)
	if err != nil {
		return err
	}
	b.putMsgs = append(b.putMsgs, m)
	b.putSizes = append(b.putSizes, int(sz))
	return nil
}

// Verif_C14_B5_ActionCache: GetActionResult returns exactly the message the
// backend holds under the requested digest (or its error; a message larger
// than the configured maximum is refused); UpdateActionResult hands exactly the
// request's message to the backend under the request's digest and reports the
// backend's error. Malformed digests and instance names never reach the backend.
func Verif_C14_B5_ActionCache() {
	instance, instanceOK, fn := verifC14Setup()
	iname := instance
	if !instanceOK {
		iname = ""
	}
	u := verifC14Universe(iname)
	e := []int{0, verifEntryMalformedHex, verifEntryNil, verifEntryShortHash}[vnd.Choose(4)]
	result := &remoteexecution.ActionResult{ExitCode: 7, StdoutRaw: []byte("hi"), OutputFiles: []*remoteexecution.OutputFile{{Path: "o", Digest: u[1].Digest.GetProto()}}}
	size := proto.Size(result)
	backend := &verifACBackend{result: result}
	usable := instanceOK && e < 3
	if vnd.Choose(2) == 0 {
		backend.getKind = vnd.Choose(3)
		maxSize := size - 1 + vnd.Choose(2)
		s := NewActionCacheServer(backend, maxSize)
		got, err := s.GetActionResult(context.Background(), &remoteexecution.GetActionResultRequest{InstanceName: instance, ActionDigest: verifC14Entry(u, e), DigestFunction: fn})
		switch {
		case !usable:
			vnd.Cover("get-malformed")
			vnd.Assert(err != nil && got == nil, "malformed GetActionResult answered")
			vnd.Assert(len(backend.gets) == 0, "backend contacted for a malformed GetActionResult")
		case backend.getKind == 0 && maxSize >= size:
			vnd.Cover("get-found")
			vnd.Assert(err == nil && got == result, "stored ActionResult not returned as is")
			vnd.Assert(len(backend.gets) == 1 && backend.gets[0] == u[0].Digest, "backend read under another digest than requested")
		default:
			vnd.Cover("get-failed")
			vnd.Assert(err != nil && got == nil, "GetActionResult answered although the backend had no (acceptable) result")
			want := codes.InvalidArgument // too large
			if backend.getKind == 1 {
				want = codes.NotFound
			} else if backend.getKind == 2 {
				want = codes.Unavailable
			}
			vnd.Assert(status.Code(err) == want, "backend outcome not mirrored in the status code")
		}
		vnd.Observe("get", uint64(status.Code(err)))
		return
	}
	backend.failPut = vnd.Bool()
	s := NewActionCacheServer(backend, 10000)
	got, err := s.UpdateActionResult(context.Background(), &remoteexecution.UpdateActionResultRequest{InstanceName: instance, ActionDigest: verifC14Entry(u, e), DigestFunction: fn, ActionResult: result})
	switch {
	case !usable:
		vnd.Cover("update-malformed")
		vnd.Assert(err != nil && got == nil, "malformed UpdateActionResult answered")
		vnd.Assert(len(backend.putKeys) == 0, "backend contacted for a malformed UpdateActionResult")
	case backend.failPut:
		vnd.Cover("update-backend-error")
		vnd.Assert(err != nil && status.Code(err) == codes.Unavailable, "backend error not passed on")
		vnd.Assert(len(backend.putMsgs) == 0, "message stored although the backend failed")
	default:
		vnd.Cover("update-stored")
		vnd.Assert(err == nil && got == result, "UpdateActionResult did not echo the stored result")
		vnd.Assert(len(backend.putKeys) == 1 && backend.putKeys[0] == u[0].Digest, "stored under another digest than requested")
		vnd.Assert(len(backend.putMsgs) == 1 && backend.putMsgs[0] == proto.Message(result), "backend received another message than uploaded")
		if len(backend.putSizes) == 1 {
			vnd.Assert(backend.putSizes[0] == size, "buffer size differs from the message's wire size")
		}
	}
	vnd.Observe("update", uint64(status.Code(err)), uint64(size))
}
