//go:build verif

package blobstore

import (
	"context"

	vnd "github.com/buildbarn/bb-storage/internal/verifnd"
	"github.com/buildbarn/bb-storage/internal/verifstub"
	"github.com/buildbarn/bb-storage/pkg/blobstore/buffer"
	"github.com/buildbarn/bb-storage/pkg/digest"

	"google.golang.org/grpc/codes"
	"google.golang.org/grpc/status"
)

// verifAuthorizer answers allow / deny / error per instance name; the verdicts
// are chosen by the harness (symbolic choice among the three outcomes).
type verifAuthorizer struct {
	names    []string
	verdict  []int // 0 allow, 1 deny, 2 error
	calls    int
	errOther error
}

var (
	verifErrDenied = status.Error(codes.PermissionDenied, "verif: denied")
)

func verifNewAuthorizer(tag string, names []string) *verifAuthorizer {
	a := &verifAuthorizer{names: names, verdict: make([]int, len(names)), errOther: status.Error(codes.Unavailable, "verif: authorizer "+tag+" unavailable")}
	for i := range a.verdict {
		a.verdict[i] = vnd.Int(0, 2) // symbolic: forks only where a verdict is consulted
	}
	return a
}

func (a *verifAuthorizer) verdictFor(n digest.InstanceName) int {
	for i, s := range a.names {
		if s == n.String() {
			return a.verdict[i]
		}
	}
	return 1
}

func (a *verifAuthorizer) Authorize(ctx context.Context, instanceNames []digest.InstanceName) []error {
	a.calls++
	errs := make([]error, len(instanceNames))
	for i, n := range instanceNames {
		switch a.verdictFor(n) {
		case 1:
			errs[i] = verifErrDenied
		case 2:
			errs[i] = a.errOther
		}
	}
	return errs
}

// verifCountingBuffer wraps a byte-slice buffer behind a reader so that release
// of the upload's buffer is observable (source closed exactly once).
type verifCloseCounter struct {
	data   []byte
	pos    int
	closes int
}

func (c *verifCloseCounter) Read(p []byte) (int, error) {
	n := copy(p, c.data[c.pos:])
	c.pos += n
	if c.pos == len(c.data) {
		return n, ioEOF
	}
	return n, nil
}
func (c *verifCloseCounter) Close() error { c.closes++; return nil }

// Verif_C18_A1_Decorator: the backend is reached only if the authorizer of that
// operation allowed every instance name involved; otherwise the caller gets the
// authorizer's error and the backend is not contacted; a rejected upload's
// buffer is released.
func Verif_C18_A1_Decorator() {
	ctx := context.Background()
	names := []string{"", "a", "a/b"}
	var objs [][]verifstub.Object
	for _, n := range names {
		objs = append(objs, verifstub.Universe(n, 2))
	}
	backend := verifstub.NewReliableModel("backend", objs[0])
	getA := verifNewAuthorizer("get", names)
	putA := verifNewAuthorizer("put", names)
	fmA := verifNewAuthorizer("findmissing", names)
	ba := NewAuthorizingBlobAccess(backend, getA, putA, fmA)

	ni := vnd.Choose(len(names))
	d := objs[ni][0].Digest
	switch vnd.Choose(4) {
	case 0: // Get
		b := ba.Get(ctx, d)
		_, err := b.ToByteSlice(100)
		if getA.verdict[ni] == 0 {
			vnd.Cover("get-allowed")
			vnd.Assert(backend.CountCalls("Get") == 1, "allowed Get did not reach the backend exactly once")
		} else {
			vnd.Cover("get-rejected")
			vnd.Assert(len(backend.Calls) == 0, "backend contacted for an instance name the Get authorizer did not allow")
			vnd.Assert(err != nil, "rejected Get did not fail")
			want := codes.PermissionDenied
			if getA.verdict[ni] == 2 {
				want = codes.Unavailable
			}
			vnd.Assert(status.Code(err) == want, "rejected Get does not carry the authorizer's error code")
		}
	case 1: // GetFromComposite: parent and child may live under different instance names;
		// it is the PARENT that is read from the backend, so the parent's name decides
		nj := vnd.Choose(len(names))
		b := ba.GetFromComposite(ctx, d, objs[nj][1].Digest, verifSlicer{})
		_, err := b.ToByteSlice(100)
		if getA.verdict[ni] == 0 {
			vnd.Cover("composite-allowed")
			vnd.Assert(backend.CountCalls("GetFromComposite") == 1, "composite Get whose parent instance name is allowed did not reach the backend")
		} else {
			vnd.Cover("composite-rejected")
			vnd.Assert(len(backend.Calls) == 0, "backend contacted for a composite Get whose parent instance name the authorizer did not allow")
			vnd.Assert(err != nil, "rejected composite Get did not fail")
		}
	case 2: // Put
		src := &verifCloseCounter{data: objs[ni][0].Data}
		b := buffer.NewCASBufferFromReader(d, src, buffer.UserProvided)
		err := ba.Put(ctx, d, b)
		if putA.verdict[ni] == 0 {
			vnd.Cover("put-allowed")
			vnd.Assert(backend.CountCalls("Put") == 1, "allowed Put did not reach the backend")
			vnd.Assert(err == nil, "allowed Put of valid content failed")
		} else {
			vnd.Cover("put-rejected")
			vnd.Assert(len(backend.Calls) == 0, "backend contacted for an upload the Put authorizer did not allow")
			vnd.Assert(err != nil, "rejected Put did not fail")
		}
		vnd.Assert(src.closes == 1, "upload buffer not released exactly once")
	case 3: // FindMissing over digests of two instance names
		nj := vnd.Choose(len(names))
		set := digest.NewSetBuilder(2).Add(d).Add(objs[nj][1].Digest).Build()
		_, err := ba.FindMissing(ctx, set)
		allowed := fmA.verdict[ni] == 0 && fmA.verdict[nj] == 0
		if allowed {
			vnd.Cover("findmissing-allowed")
			vnd.Assert(backend.CountCalls("FindMissing") == 1, "allowed FindMissing did not reach the backend")
			vnd.Assert(err == nil, "allowed FindMissing failed")
		} else {
			vnd.Cover("findmissing-rejected")
			vnd.Assert(len(backend.Calls) == 0, "backend contacted although an instance name in the set was not allowed")
			vnd.Assert(err != nil, "FindMissing with a rejected instance name did not fail")
		}
	}
	vnd.Observe("calls", uint64(len(backend.Calls)))
}
