//go:build verif

package blobstore

import (
	"context"
	"io"
	"time"

	vnd "github.com/buildbarn/bb-storage/internal/verifnd"
	"github.com/buildbarn/bb-storage/internal/verifstub"
	"github.com/buildbarn/bb-storage/pkg/blobstore/buffer"
	"github.com/buildbarn/bb-storage/pkg/clock"
	"github.com/buildbarn/bb-storage/pkg/digest"
	"github.com/buildbarn/bb-storage/pkg/eviction"
)

type verifQ7Clock struct{}

func (verifQ7Clock) Now() time.Time { return time.Unix(1000, 0) }
func (verifQ7Clock) NewContextWithTimeout(parent context.Context, timeout time.Duration) (context.Context, context.CancelFunc) {
	panic("not expected")
}
func (verifQ7Clock) NewTimer(d time.Duration) (clock.Timer, <-chan time.Time) { panic("not expected") }
func (verifQ7Clock) NewTicker(d time.Duration) (clock.Ticker, <-chan time.Time) {
	panic("not expected")
}

type verifQ7ReaderAt struct {
	data   []byte
	closes int
}

func (r *verifQ7ReaderAt) ReadAt(p []byte, off int64) (int, error) {
	if off < 0 || off >= int64(len(r.data)) {
		return 0, io.EOF
	}
	n := copy(p, r.data[off:])
	if n < len(p) {
		return n, io.EOF
	}
	return n, nil
}
func (r *verifQ7ReaderAt) Close() error { r.closes++; return nil }

type verifQ7Reader struct {
	data []byte
	pos  int
}

func (r *verifQ7Reader) Read(p []byte) (int, error) {
	if r.pos >= len(r.data) {
		return 0, io.EOF
	}
	n := copy(p, r.data[r.pos:])
	r.pos += n
	return n, nil
}
func (r *verifQ7Reader) Close() error { return nil }

// Verif_C08_Q7_ValidationCacheForwardsVerdicts: the read buffer factory that skips
// re-validation of recently validated objects (data_integrity_validation_cache) sits
// between the block device and the quarantine logic. For a history of two reads (each of
// good or corrupted bytes, through each of the three constructors): every verdict the
// underlying validation produces reaches the store's callback - in particular every
// NEGATIVE one, on which quarantining depends -, corrupted data is never handed out, a
// negative verdict is never cached, and only an object that validated before may skip
// validation.
func Verif_C08_Q7_ValidationCacheForwardsVerdicts() {
	obj := verifstub.Universe("inst", 1)[0]
	bad := append([]byte(nil), obj.Data...)
	bad[0] ^= 1
	f := NewValidationCachingReadBufferFactory(CASReadBufferFactory,
		digest.NewExistenceCache(verifQ7Clock{}, digest.KeyWithoutInstance, 4, time.Minute, eviction.NewLRUSet[string]()))
	validatedBefore := false
	for round := 0; round < 2; round++ {
		corrupted := vnd.Choose(2) == 1
		data := obj.Data
		if corrupted {
			data = bad
		}
		var verdicts []bool
		cb := func(ok bool) { verdicts = append(verdicts, ok) }
		var b buffer.Buffer
		how := vnd.Choose(3)
		switch how {
		case 0:
			b = f.NewBufferFromByteSlice(obj.Digest, data, cb)
		case 1:
			b = f.NewBufferFromReader(obj.Digest, &verifQ7Reader{data: data}, cb)
		case 2:
			b = f.NewBufferFromReaderAt(obj.Digest, &verifQ7ReaderAt{data: data}, int64(len(data)), cb)
		}
		got, err := b.ToByteSlice(100)
		mayskip := validatedBefore && how != 1
		if corrupted {
			vnd.Cover("q7-corrupted-read")
			if !mayskip {
				vnd.Assert(err != nil, "corrupted data was handed out although the object is not in the validation cache")
				vnd.Assert(len(verdicts) == 1 && !verdicts[0], "a negative integrity verdict did not reach the store's callback exactly once (the quarantine depends on it)")
			}
		} else {
			vnd.Cover("q7-good-read")
			vnd.Assert(err == nil && string(got) == string(obj.Data), "reading intact data failed")
			for _, v := range verdicts {
				vnd.Assert(v, "a negative verdict for intact data")
			}
			if !mayskip {
				vnd.Assert(len(verdicts) == 1, "a positive verdict did not reach the store's callback exactly once")
			}
			validatedBefore = true
		}
	}
}
