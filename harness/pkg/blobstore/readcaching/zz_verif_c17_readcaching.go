//go:build verif

package readcaching

import (
	"context"
	remoteexecution "github.com/bazelbuild/remote-apis/build/bazel/remote/execution/v2"
	"github.com/buildbarn/bb-storage/pkg/blobstore/slicing"

	vnd "github.com/buildbarn/bb-storage/internal/verifnd"
	"github.com/buildbarn/bb-storage/internal/verifstub"
	"github.com/buildbarn/bb-storage/pkg/blobstore/buffer"
	"github.com/buildbarn/bb-storage/pkg/blobstore/replication"
	"github.com/buildbarn/bb-storage/pkg/digest"

	"google.golang.org/grpc/codes"
	"google.golang.org/grpc/status"
)

// Verif_C17_U1_ReadCaching: one operation through a read-caching composite
// (slow store, fast store, real local replicator slow -> fast) for every
// placement of the objects, every combination of backend failures and both
// plain buffer kinds.
func Verif_C17_U1_ReadCaching() {
	ctx := context.Background()
	objs := verifstub.Universe("inst", 2)
	slow := verifstub.NewModel("slow", objs)
	fast := verifstub.NewModel("fast", objs)
	slow.BufferKind = vnd.Choose(2)
	fast.BufferKind = vnd.Choose(2)
	preSlow := append([]bool(nil), slow.Present...)
	preFast := append([]bool(nil), fast.Present...)
	ba := NewReadCachingBlobAccess(slow, fast, replication.NewLocalBlobReplicator(slow, fast))
	k := vnd.Choose(len(objs))
	d := objs[k].Digest

	switch vnd.Choose(3) {
	case 0: // Get, plain or as a composite read (the child is a digest no store knows as an object)
		composite := vnd.Choose(2) == 1
		firstOp := "Get"
		var data []byte
		var err error
		if composite {
			vnd.Cover("rc-composite")
			firstOp = "GetFromComposite"
			child := digest.MustNewDigest("inst", remoteexecution.DigestFunction_MD5, "ffffffffffffffffffffffffffffffff", 1)
			data, err = ba.GetFromComposite(ctx, d, child, verifWholeSlicer{}).ToByteSlice(100)
		} else {
			data, err = ba.Get(ctx, d).ToByteSlice(100)
		}
		vnd.Assert(len(fast.Calls) >= 1 && fast.Calls[0].Op == firstOp, "the fast store was not consulted first")
		if err == nil {
			vnd.Assert(string(data) == string(objs[k].Data), "Get succeeded with content other than the object's")
		}
		switch {
		case fast.FailGet:
			vnd.Cover("rc-fast-fails")
			vnd.Assert(err != nil && status.Code(err) == codes.Unavailable, "failure of the fast store not surfaced")
			vnd.Assert(len(slow.Calls) == 0, "slow store contacted although the fast store failed fatally")
		case preFast[k]:
			vnd.Cover("rc-fast-holds")
			vnd.Assert(err == nil, "Get failed although the fast store holds the object")
			vnd.Assert(len(slow.Calls) == 0, "slow store contacted although the fast store served the object")
		case slow.FailGet:
			vnd.Cover("rc-slow-fails")
			vnd.Assert(err != nil && status.Code(err) == codes.Unavailable, "failure of the slow store not surfaced (masked)")
		case !preSlow[k]:
			vnd.Cover("rc-neither")
			if composite && fast.FailPut {
				// a composite read repairs by copying the parent first: the failing cache write may
				// be reported before the slow store is found to lack the object
				vnd.Assert(err != nil && (status.Code(err) == codes.NotFound || status.Code(err) == codes.Unavailable), "object held by neither store reported neither as NOT_FOUND nor as the store's failure")
			} else {
				vnd.Assert(err != nil && status.Code(err) == codes.NotFound, "object held by neither store is not NOT_FOUND")
			}
			vnd.Assert(fast.PutOK == 0 && slow.PutOK == 0, "something was stored although nothing was found")
		case fast.FailPut:
			vnd.Cover("rc-cache-write-fails")
			vnd.Assert(err != nil && status.Code(err) == codes.Unavailable, "failed write to the fast store not surfaced")
		default:
			vnd.Cover("rc-read-through")
			vnd.Assert(err == nil, "Get failed although the slow store holds the object and nothing fails")
			vnd.Assert(fast.Present[k], "after a successful read-through the fast store lacks the object")
			vnd.Assert(len(fast.PutIdx) == 1 && fast.PutIdx[0] == k, "read-through stored something else in the fast store")
		}
		vnd.Assert(slow.CountCalls("Put") == 0, "a read wrote to the slow store")
		vnd.Observe("get", uint64(status.Code(err)))
	case 1: // Put
		err := ba.Put(ctx, d, buffer.NewValidatedBufferFromByteSlice(objs[k].Data))
		vnd.Cover("rc-put")
		vnd.Assert(len(fast.Calls) == 0, "an upload reached the fast store")
		vnd.Assert(slow.CountCalls("Put") == 1 && len(slow.Calls) == 1, "an upload did not reach the slow store exactly once")
		vnd.Assert(vnd.Iff(err == nil, !slow.FailPut), "upload outcome differs from the slow store's")
		if err == nil {
			vnd.Assert(slow.Present[k], "upload succeeded but the slow store lacks the object")
		}
		vnd.Observe("put", uint64(status.Code(err)))
	case 2: // FindMissing is the slow store's
		missing, err := ba.FindMissing(ctx, digest.NewSetBuilder(2).Add(objs[0].Digest).Add(objs[1].Digest).Build())
		vnd.Cover("rc-findmissing")
		vnd.Assert(len(fast.Calls) == 0, "existence check consulted the fast store")
		vnd.Assert(vnd.Iff(err == nil, !slow.FailFindMissing), "existence check outcome differs from the slow store's")
		if err == nil {
			for i := range objs {
				vnd.Assert(vnd.Iff(verifSetHas(missing, objs[i].Digest), vnd.Not(preSlow[i])), "existence check differs from the slow store's contents")
			}
		}
		vnd.Observe("fm", uint64(status.Code(err)), uint64(missing.Length()))
	}
	for i := range objs {
		vnd.Assert(vnd.Implies(preSlow[i], slow.Present[i]), "an object vanished from the slow store")
		vnd.Assert(vnd.Implies(preFast[i], fast.Present[i]), "an object vanished from the fast store")
		if i != k {
			vnd.Assert(vnd.Iff(preSlow[i], slow.Present[i]) && vnd.Iff(preFast[i], fast.Present[i]), "another object was touched")
		}
	}
	vnd.Assert(slow.SourceOpened == slow.SourceClosed && fast.SourceOpened == fast.SourceClosed, "a backend stream was not released")
}

func verifSetHas(s digest.Set, d digest.Digest) bool {
	for _, x := range s.Items() {
		if x == d {
			return true
		}
	}
	return false
}

type verifWholeSlicer struct{}

func (verifWholeSlicer) Slice(b buffer.Buffer, childDigest digest.Digest) (buffer.Buffer, []slicing.BlobSlice) {
	return b, nil
}
