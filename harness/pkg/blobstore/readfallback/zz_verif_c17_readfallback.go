//go:build verif

package readfallback

import (
	"context"
	"strings"

	vnd "github.com/buildbarn/bb-storage/internal/verifnd"
	"github.com/buildbarn/bb-storage/internal/verifstub"
	"github.com/buildbarn/bb-storage/pkg/blobstore/buffer"
	"github.com/buildbarn/bb-storage/pkg/blobstore/replication"
	"github.com/buildbarn/bb-storage/pkg/digest"

	"google.golang.org/grpc/codes"
	"google.golang.org/grpc/status"
)

func verifErrText(err error) string {
	if err == nil {
		return ""
	}
	return status.Convert(err).Message()
}

func verifSetHas(s digest.Set, d digest.Digest) bool {
	for _, x := range s.Items() {
		if x == d {
			return true
		}
	}
	return false
}

// Verif_C17_U1_ReadFallback: one operation through a read-fallback composite
// (primary, secondary; real local replicator secondary -> primary, or the
// no-op replicator) for every placement, every combination of backend
// failures, both plain buffer kinds.
func Verif_C17_U1_ReadFallback() {
	ctx := context.Background()
	objs := verifstub.Universe("inst", 3)
	pri := verifstub.NewModel("pri", objs)
	sec := verifstub.NewModel("sec", objs)
	pri.BufferKind = vnd.Choose(2)
	sec.BufferKind = pri.BufferKind
	if vnd.Thorough() {
		sec.BufferKind = vnd.Choose(2)
	}
	prePri := append([]bool(nil), pri.Present...)
	preSec := append([]bool(nil), sec.Present...)
	copying := vnd.Choose(2) == 0
	var repl replication.BlobReplicator
	if copying {
		repl = replication.NewLocalBlobReplicator(sec, pri)
	} else {
		repl = replication.NewNoopBlobReplicator(sec)
	}
	ba := NewReadFallbackBlobAccess(pri, sec, repl)
	k := vnd.Choose(2)
	d := objs[k].Digest

	switch vnd.Choose(3) {
	case 0: // Get
		data, err := ba.Get(ctx, d).ToByteSlice(100)
		vnd.Assert(len(pri.Calls) >= 1 && pri.Calls[0].Op == "Get", "the primary was not consulted first")
		if err == nil {
			vnd.Assert(string(data) == string(objs[k].Data), "Get succeeded with content other than the object's")
		}
		switch {
		case pri.FailGet:
			vnd.Cover("rf-primary-fails")
			vnd.Assert(err != nil && status.Code(err) == codes.Unavailable, "failure of the primary not surfaced")
			vnd.Assert(strings.HasPrefix(verifErrText(err), "Primary: "), "failure of the primary does not name it")
			vnd.Assert(len(sec.Calls) == 0, "secondary contacted although the primary failed fatally")
		case prePri[k]:
			vnd.Cover("rf-primary-holds")
			vnd.Assert(err == nil, "Get failed although the primary holds the object")
			vnd.Assert(len(sec.Calls) == 0, "secondary contacted although the primary served the object")
		case sec.FailGet:
			vnd.Cover("rf-secondary-fails")
			vnd.Assert(err != nil && status.Code(err) == codes.Unavailable, "failure of the secondary not surfaced (masked)")
			vnd.Assert(strings.HasPrefix(verifErrText(err), "Secondary: "), "failure of the secondary does not name it")
		case !preSec[k]:
			vnd.Cover("rf-neither")
			vnd.Assert(err != nil && status.Code(err) == codes.NotFound, "object held by neither backend is not NOT_FOUND")
			vnd.Assert(pri.PutOK == 0, "something was stored although nothing was found")
		case copying && pri.FailPut:
			vnd.Cover("rf-copy-fails")
			vnd.Assert(err != nil && status.Code(err) == codes.Unavailable, "failed write to the primary not surfaced")
		default:
			vnd.Cover("rf-read-through")
			vnd.Assert(err == nil, "Get failed although the secondary holds the object and nothing fails")
			if copying {
				vnd.Cover("rf-read-through-copied")
				vnd.Assert(pri.Present[k], "after a successful read-through the primary lacks the object")
				vnd.Assert(len(pri.PutIdx) == 1 && pri.PutIdx[0] == k, "read-through stored something else in the primary")
			} else {
				vnd.Assert(pri.CountCalls("Put") == 0, "the no-op replicator wrote to the primary")
			}
		}
		vnd.Observe("get", uint64(status.Code(err)))
	case 1: // Put
		err := ba.Put(ctx, d, buffer.NewValidatedBufferFromByteSlice(objs[k].Data))
		vnd.Cover("rf-put")
		vnd.Assert(len(sec.Calls) == 0, "an upload reached the secondary")
		vnd.Assert(pri.CountCalls("Put") == 1 && len(pri.Calls) == 1, "an upload did not reach the primary exactly once")
		vnd.Assert(vnd.Iff(err == nil, !pri.FailPut), "upload outcome differs from the primary's")
		if err == nil {
			vnd.Assert(pri.Present[k], "upload succeeded but the primary lacks the object")
		}
		vnd.Observe("put", uint64(status.Code(err)))
	case 2: // FindMissing over two of the three objects
		missing, err := ba.FindMissing(ctx, digest.NewSetBuilder(2).Add(objs[0].Digest).Add(objs[1].Digest).Build())
		needCopy := false
		for i := 0; i < 2; i++ {
			needCopy = vnd.Or(needCopy, vnd.And(vnd.Not(prePri[i]), preSec[i]))
		}
		if err != nil {
			vnd.Assert(missing.Empty(), "failed existence check returned digests")
			vnd.Assert(status.Code(err) != codes.NotFound, "existence check failed with NOT_FOUND")
		}
		switch {
		case pri.FailFindMissing:
			vnd.Cover("rf-fm-primary-fails")
			vnd.Assert(err != nil && status.Code(err) == codes.Unavailable && strings.HasPrefix(verifErrText(err), "Primary: "), "failure of the primary not surfaced under its name")
		case sec.FailFindMissing:
			vnd.Cover("rf-fm-secondary-fails")
			vnd.Assert(err != nil && status.Code(err) == codes.Unavailable && strings.HasPrefix(verifErrText(err), "Secondary: "), "failure of the secondary not surfaced under its name")
		case copying && needCopy && (sec.FailGet || pri.FailPut):
			vnd.Cover("rf-fm-copy-fails")
			vnd.Assert(err != nil && status.Code(err) == codes.Unavailable, "failed synchronisation not surfaced")
			vnd.Assert(strings.HasPrefix(verifErrText(err), "Failed to synchronize from backend secondary to backend primary: "), "failed synchronisation not described")
		default:
			vnd.Cover("rf-fm-ok")
			vnd.Assert(err == nil, "existence check failed although no backend call fails")
			for i := 0; i < 2; i++ {
				vnd.Assert(vnd.Iff(verifSetHas(missing, objs[i].Digest), vnd.And(vnd.Not(prePri[i]), vnd.Not(preSec[i]))), "reported missing differs from missing-from-both")
				if copying {
					vnd.Assert(vnd.Iff(pri.Present[i], vnd.Or(prePri[i], preSec[i])), "after a successful check the primary lacks an object the secondary held")
				}
			}
			vnd.Assert(missing.Length() <= 2, "more digests reported than asked")
		}
		vnd.Assert(sec.CountCalls("Put") == 0, "existence check wrote to the secondary")
		vnd.Observe("fm", uint64(status.Code(err)), uint64(missing.Length()))
	}
	for i := range objs {
		vnd.Assert(vnd.Implies(prePri[i], pri.Present[i]), "an object vanished from the primary")
		vnd.Assert(vnd.Iff(preSec[i], sec.Present[i]), "the secondary was modified")
	}
	vnd.Assert(vnd.Iff(prePri[2], pri.Present[2]), "an object that was not asked for was touched")
	vnd.Assert(pri.SourceOpened == pri.SourceClosed && sec.SourceOpened == sec.SourceClosed, "a backend stream was not released")
}
