//go:build verif

package auth

import (
	"context"

	vnd "github.com/buildbarn/bb-storage/internal/verifnd"
	"github.com/buildbarn/bb-storage/pkg/digest"

	"google.golang.org/grpc/codes"
	"google.golang.org/grpc/status"
)

type verifMember struct {
	verdict []int // per instance name index: 0 allow, 1 deny, 2 error
	names   []digest.InstanceName
	err     error
}

func (m *verifMember) Authorize(ctx context.Context, instanceNames []digest.InstanceName) []error {
	errs := make([]error, len(instanceNames))
	for i, n := range instanceNames {
		v := 1
		for j, k := range m.names {
			if k == n {
				v = m.verdict[j]
			}
		}
		switch v {
		case 1:
			errs[i] = status.Error(codes.PermissionDenied, "verif: denied")
		case 2:
			errs[i] = m.err
		}
	}
	return errs
}

// Verif_C18_A2_Any: 'any' grants exactly when some member grants before any
// member reports a failure other than denial; the first member that does not
// deny decides; the result is index-aligned with the input.
func Verif_C18_A2_Any() {
	ctx := context.Background()
	var names []digest.InstanceName
	all := []string{"", "a", "b"}
	for _, s := range all {
		n, err := digest.NewInstanceName(s)
		vnd.Assert(err == nil, "valid instance name rejected")
		names = append(names, n)
	}
	k := vnd.Choose(4) // 0..3 members
	var members []Authorizer
	var ms []*verifMember
	for i := 0; i < k; i++ {
		m := &verifMember{names: names, verdict: make([]int, len(names)), err: status.Errorf(codes.Unavailable, "verif: member %d unavailable", i)}
		for j := range m.verdict {
			m.verdict[j] = vnd.Int(0, 2)
		}
		ms = append(ms, m)
		members = append(members, m)
	}
	a := NewAnyAuthorizer(members)
	if k == 3 && vnd.Choose(2) == 1 {
		// nested: any(any(m0, m1), m2) must answer like any(m0, m1, m2)
		vnd.Cover("nested")
		a = NewAnyAuthorizer([]Authorizer{NewAnyAuthorizer(members[:2]), members[2]})
	}
	nq := 1 + vnd.Choose(len(names))
	query := append([]digest.InstanceName(nil), names[:nq]...)
	errs := a.Authorize(ctx, query)
	for i := range query {
		vnd.Assert(query[i] == names[i], "'any' modified the caller's list of instance names")
	}
	vnd.Assert(len(errs) == len(query), "result of 'any' is not index-aligned with the instance names")
	for i := range query {
		// specification: walk the members in order; the first one that does not deny decides
		want := codes.PermissionDenied
		for _, m := range ms {
			if m.verdict[i] == 0 {
				want = codes.OK
				break
			}
			if m.verdict[i] == 2 {
				want = codes.Unavailable
				break
			}
		}
		got := status.Code(errs[i])
		vnd.Assert(got == want, "'any' does not answer what the first non-denying member answers")
		if want == codes.OK {
			vnd.Cover("granted")
		} else if want == codes.Unavailable {
			vnd.Cover("failure-reported")
		} else {
			vnd.Cover("denied")
		}
	}
	vnd.Observe("any", uint64(k), uint64(nq))
}
