//go:build verif

package eviction

import (
	vnd "github.com/buildbarn/bb-storage/internal/verifnd"
)

// Verif_C17_U2_LRUSet: the real LRU set against a reference list over every
// legal sequence of up to 6 operations on 3 values: Peek is the least recently
// inserted/touched value, no operation panics, the linked list and the lookup
// map stay in step.
func Verif_C17_U2_LRUSet() {
	s := NewLRUSet[string]().(*lruSet[string])
	values := []string{"a", "b", "c"}
	var ref []string // oldest first
	idx := func(v string) int {
		for i, x := range ref {
			if x == v {
				return i
			}
		}
		return -1
	}
	nOps := 5
	if vnd.Thorough() {
		nOps = 7
	}
	for op := 0; op < nOps; op++ {
		switch vnd.Choose(3) {
		case 0: // Insert a value that is not in the set
			v := values[vnd.Choose(len(values))]
			if idx(v) >= 0 {
				vnd.Assume(false)
			}
			s.Insert(v)
			ref = append(ref, v)
		case 1: // Touch a member
			v := values[vnd.Choose(len(values))]
			i := idx(v)
			if i < 0 {
				vnd.Assume(false)
			}
			s.Touch(v)
			ref = append(append(append([]string(nil), ref[:i]...), ref[i+1:]...), v)
			vnd.Cover("lru-touch")
		case 2: // Peek + Remove on a non-empty set
			if len(ref) == 0 {
				vnd.Assume(false)
			}
			vnd.Assert(s.Peek() == ref[0], "Peek is not the least recently used value")
			s.Remove()
			ref = ref[1:]
			vnd.Cover("lru-remove")
		}
		// list and map agree with the reference
		vnd.Assert(len(s.elements) == len(ref), "lookup map and reference differ in size")
		e := s.head.newer
		for _, v := range ref {
			vnd.Assert(e != &s.head, "linked list shorter than the reference")
			vnd.Assert(e.value == v, "linked list order differs from least-recently-used order")
			vnd.Assert(s.elements[v] == e, "lookup map does not point at the list element")
			vnd.Assert(e.newer.older == e && e.older.newer == e, "linked list is not doubly linked")
			e = e.newer
		}
		vnd.Assert(e == &s.head, "linked list longer than the reference")
	}
	vnd.Observe("lru", uint64(len(ref)))
}
