//go:build verif

package digest

import (
	remoteexecution "github.com/bazelbuild/remote-apis/build/bazel/remote/execution/v2"
	vnd "github.com/buildbarn/bb-storage/internal/verifnd"
)

// ---- an independent specification of the resource-name grammar --------------
//
// Written from the documented formats
//
//	read:  ${instance}/blobs/[${fn}/]${hash}/${size}
//	       ${instance}/compressed-blobs/${compressor}/[${fn}/]${hash}/${size}
//	write: ${instance}/uploads/${uuid}/<the part of a read path after the instance>[/${anything}]
//
// It works on strings with plain Go control flow (under the engine it forks on
// symbolic bytes; it is only run AFTER the code under test has returned, when
// the path condition has already fixed the shape of the string).

const verifC20WhyNoBlobs = "neither blobs nor compressed-blobs where the digest part starts"

type verifC20Parsed struct {
	ok       bool
	instance string
	comp     int
	fn       verifC20Func
	hash     string
	size     int64
	uuid     string
	rest     []string // fields after the size
	why      string   // when !ok: which rule the name breaks
}

// verifC20Split: non-empty '/'-separated fields.
func verifC20Split(s string) []string {
	var out []string
	start := -1
	for i := 0; i < len(s); i++ {
		if s[i] == '/' {
			if start >= 0 {
				out = append(out, s[start:i])
				start = -1
			}
		} else if start < 0 {
			start = i
		}
	}
	if start >= 0 {
		out = append(out, s[start:])
	}
	return out
}

func verifC20IsReserved(s string) bool {
	for _, kw := range verifC20ReservedKeywords {
		if s == kw {
			return true
		}
	}
	return false
}

// verifC20ParseSize: optional sign, at least one decimal digit, value in [0, 2^63-1].
func verifC20ParseSize(s string) (int64, bool) {
	i := 0
	neg := false
	if len(s) > 0 && (s[0] == '+' || s[0] == '-') {
		neg = s[0] == '-'
		i = 1
	}
	if i == len(s) {
		return 0, false
	}
	var v uint64
	for ; i < len(s); i++ {
		c := s[i]
		if c < '0' || c > '9' {
			return 0, false
		}
		if v > (1<<63)/10 {
			return 0, false
		}
		v = v*10 + uint64(c-'0')
		if v > 1<<63 {
			return 0, false
		}
	}
	if neg {
		if v != 0 {
			return 0, false
		}
		return 0, true
	}
	if v > 1<<63-1 {
		return 0, false
	}
	return int64(v), true
}

func verifC20AllLowerHex(s string) bool {
	for i := 0; i < len(s); i++ {
		c := s[i]
		if !((c >= '0' && c <= '9') || (c >= 'a' && c <= 'f')) {
			return false
		}
	}
	return true
}

// verifC20ParseDigestPart: fields = {blobs | compressed-blobs comp} [fn] hash size rest...
func verifC20ParseDigestPart(fields []string, p *verifC20Parsed) bool {
	if len(fields) == 0 {
		p.why = "truncated"
		return false
	}
	switch fields[0] {
	case "blobs":
		p.comp = 0
		fields = fields[1:]
	case "compressed-blobs":
		if len(fields) < 2 {
			p.why = "truncated"
			return false
		}
		switch fields[1] {
		case "zstd":
			p.comp = 1
		case "deflate":
			p.comp = 2
		case "brotli":
			p.comp = 3
		default:
			p.why = "unknown compressor"
			return false
		}
		fields = fields[2:]
	default:
		p.why = verifC20WhyNoBlobs
		return false
	}
	if len(fields) == 0 {
		p.why = "truncated"
		return false
	}
	named := false
	for _, f := range verifC20Funcs {
		if f.midfix != "" && fields[0] == f.midfix {
			p.fn = f
			named = true
		}
	}
	if named {
		fields = fields[1:]
	}
	if len(fields) < 2 {
		p.why = "truncated"
		return false
	}
	p.hash = fields[0]
	if named {
		if len(p.hash) != p.fn.hexLen {
			p.why = "wrong hash length"
			return false
		}
	} else {
		found := false
		for _, f := range verifC20Funcs {
			if f.midfix == "" && len(p.hash) == f.hexLen {
				p.fn = f
				found = true
			}
		}
		if !found {
			p.why = "wrong hash length or unknown function"
			return false
		}
	}
	if !verifC20AllLowerHex(p.hash) {
		p.why = "hash not lowercase hexadecimal"
		return false
	}
	size, ok := verifC20ParseSize(fields[1])
	if !ok {
		p.why = "size not a non-negative decimal number"
		return false
	}
	p.size = size
	p.rest = fields[2:]
	return true
}

func verifC20InstanceOK(components []string) bool {
	for _, c := range components {
		if verifC20IsReserved(c) {
			return false
		}
	}
	return true
}

// verifC20SpecRead: the meaning of a read resource name, if it has one.
func verifC20SpecRead(path string) verifC20Parsed {
	fields := verifC20Split(path)
	var p verifC20Parsed
	k := 0
	for k < len(fields) && fields[k] != "blobs" && fields[k] != "compressed-blobs" {
		k++
	}
	if k == len(fields) {
		p.why = "no blobs or compressed-blobs keyword"
		return p
	}
	if !verifC20InstanceOK(fields[:k]) {
		p.why = "reserved keyword in instance name"
		return p
	}
	p.instance = verifC20Join(fields[:k]...)
	p.ok = verifC20ParseDigestPart(fields[k:], &p)
	return p
}

// verifC20SpecWrite: the meaning of a write resource name, if it has one.
func verifC20SpecWrite(path string) verifC20Parsed {
	fields := verifC20Split(path)
	var p verifC20Parsed
	k := 0
	for k < len(fields) && fields[k] != "uploads" {
		k++
	}
	if k+1 >= len(fields) {
		p.why = "no uploads keyword followed by a UUID"
		return p
	}
	if !verifC20InstanceOK(fields[:k]) {
		p.why = "reserved keyword in instance name"
		return p
	}
	p.instance = verifC20Join(fields[:k]...)
	p.uuid = fields[k+1]
	p.ok = verifC20ParseDigestPart(fields[k+2:], &p)
	return p
}

// verifC20CheckAgainstSpec compares the outcome of a parser with the specification.
func verifC20CheckAgainstSpec(kind string, p verifC20Parsed, d Digest, c remoteexecution.Compressor_Value, err error) {
	if err != nil {
		vnd.Assert(!p.ok, kind+": a well-formed resource name is rejected")
		return
	}
	if !p.ok && p.why == verifC20WhyNoBlobs && kind == "write path" {
		// finding carried by Verif_C20_D3_WritePathWithoutBlobsKeyword; not re-reported from the general harnesses
		return
	}
	vnd.Assert(p.ok, kind+": a malformed resource name is accepted: "+p.why)
	if !p.ok {
		return
	}
	vnd.Assert(int(c) == p.comp, kind+": accepted with a different compressor than the name states")
	vnd.Assert(d.GetDigestFunction().GetEnumValue() == p.fn.enum, kind+": accepted with a different digest function than the name states")
	vnd.Assert(verifC20StrEq(d.GetHashString(), p.hash), kind+": accepted with a different hash than the name states")
	vnd.Assert(d.GetSizeBytes() == p.size, kind+": accepted with a different size than the name states")
	vnd.Assert(verifC20StrEq(d.GetInstanceName().String(), p.instance), kind+": accepted with a different instance name than the name states")
}
