//go:build verif

package digest

import (
	"bytes"
	vnd "github.com/buildbarn/bb-storage/internal/verifnd"
)

// A Go panic anywhere below is reported by the engine as a violation: totality
// needs no assertion of its own.

// verifC20InstanceNameValid: the REv2 rule for instance names, fork-free over a
// string of concrete length with symbolic bytes: no leading or trailing slash,
// no empty component, no component equal to a reserved keyword.
func verifC20InstanceNameValid(s string) bool {
	n := len(s)
	if n == 0 {
		return true
	}
	valid := vnd.And(s[0] != '/', s[n-1] != '/')
	for i := 0; i+1 < n; i++ {
		valid = vnd.And(valid, vnd.Not(vnd.And(s[i] == '/', s[i+1] == '/')))
	}
	for _, kw := range verifC20ReservedKeywords {
		for i := 0; i+len(kw) <= n; i++ {
			m := true
			if i > 0 {
				m = vnd.And(m, s[i-1] == '/')
			}
			for j := 0; j < len(kw); j++ {
				m = vnd.And(m, s[i+j] == kw[j])
			}
			if i+len(kw) < n {
				m = vnd.And(m, s[i+len(kw)] == '/')
			}
			valid = vnd.And(valid, vnd.Not(m))
		}
	}
	return valid
}

func verifC20ShortBound() int {
	if vnd.Thorough() {
		return 5
	}
	return 3
}

// Verif_C20_D3_InstanceNameAnyBytes: every byte string up to the bound:
// NewInstanceName does not panic and accepts exactly the valid names; an
// accepted name is returned unchanged and splits into its components.
func Verif_C20_D3_InstanceNameAnyBytes() {
	n := vnd.Choose(verifC20ShortBound() + 1)
	s := verifC20AnyString(n)
	in, err := NewInstanceName(s)
	valid := verifC20InstanceNameValid(s)
	if err == nil {
		vnd.Cover("name-accepted")
		vnd.Assert(valid, "NewInstanceName accepts an invalid instance name")
		vnd.Assert(verifC20StrEq(in.String(), s), "NewInstanceName alters the name")
		in2, err2 := NewInstanceNameFromComponents(in.GetComponents())
		vnd.Assert(err2 == nil, "components of an accepted instance name are rejected")
		vnd.Assert(verifC20StrEq(in2.String(), s), "GetComponents/NewInstanceNameFromComponents does not round-trip")
	} else {
		vnd.Cover("name-rejected")
		vnd.Assert(vnd.Not(valid), "NewInstanceName rejects a valid instance name")
	}
	vnd.Observe("accepted", uint64(vnd.IteInt(err == nil, 1, 0)))
}

// Verif_C20_D3_InstanceNameKeywords: a reserved keyword as a whole component is
// rejected at every position; as a proper part of a component it is not; one
// byte of the keyword replaced by an arbitrary byte: accepted iff valid.
func Verif_C20_D3_InstanceNameKeywords() {
	kw := verifC20ReservedKeywords[vnd.Choose(len(verifC20ReservedKeywords))]
	pre := []string{"", "x/", "x", "a/b-1/"}[vnd.Choose(4)]
	post := []string{"", "/y", "y", "/c/d"}[vnd.Choose(4)]
	s := pre + kw + post
	whole := (pre == "" || pre[len(pre)-1] == '/') && (post == "" || post[0] == '/')
	_, err := NewInstanceName(s)
	if whole {
		vnd.Cover("keyword-component")
		vnd.Assert(err != nil, "instance name with a reserved keyword as a component is accepted")
	} else {
		vnd.Cover("keyword-substring")
		vnd.Assert(err == nil, "instance name that merely contains a reserved keyword inside a component is rejected")
	}
	if pre == "x/" && post == "/y" {
		b := []byte(s)
		b[len(pre)+vnd.Choose(len(kw))] = verifC20AnyByte()
		s2 := string(b)
		_, err := NewInstanceName(s2)
		vnd.Assert(vnd.Iff(err == nil, verifC20InstanceNameValid(s2)), "NewInstanceName and the validity rule disagree on a keyword with one arbitrary byte")
		vnd.Cover("keyword-mutated")
	}
}

// Verif_C20_D3_PathsAnyBytes: every byte string up to the bound into both path
// parsers: no panic, and (no valid resource name is that short) rejected.
func Verif_C20_D3_PathsAnyBytes() {
	n := vnd.Choose(verifC20ShortBound() + 1)
	s := verifC20AnyString(n)
	if vnd.Choose(2) == 0 {
		_, _, err := NewDigestFromByteStreamReadPath(s)
		vnd.Assert(err != nil, "a read path shorter than any valid one is accepted")
		vnd.Cover("short-read-rejected")
	} else {
		_, _, err := NewDigestFromByteStreamWritePath(s)
		vnd.Assert(err != nil, "a write path shorter than any valid one is accepted")
		vnd.Cover("short-write-rejected")
	}
}

// ---- field-level grammar ------------------------------------------------------

const (
	verifC20H32 = "8b1a9953c4611296a827abf8c47804d7"
	verifC20H40 = "f7ff9e8b7bb2e09b70935a5d785e0cc5d9d0abf0"
	verifC20H64 = "185f8db32271fe25f561a6fc938b2e264306ec304eda518007d1764826381969"
	verifC20U   = "36ebab65-3c4f-4faf-818b-2eabb4cd1b02"
)

var verifC20Vocabulary = []string{"blobs", "compressed-blobs", "zstd", "uploads", "sha256tree", verifC20H32, verifC20H64, "42", "x"}

// Verif_C20_D3_FieldGrammar: every sequence of at most 4 (thorough: 5) fields
// over a vocabulary of keywords, hashes, numbers and names, joined by single
// slashes, into both parsers: no panic, and the outcome is the specification's.
func Verif_C20_D3_FieldGrammar() {
	max := 4
	if vnd.Thorough() {
		max = 5
	}
	n := vnd.Choose(max + 1)
	fields := make([]string, n)
	for i := range fields {
		fields[i] = verifC20Vocabulary[vnd.Choose(len(verifC20Vocabulary))]
	}
	s := verifC20Join(fields...)
	d, c, err := NewDigestFromByteStreamReadPath(s)
	verifC20CheckAgainstSpec("read path", verifC20SpecRead(s), d, c, err)
	if err == nil {
		vnd.Cover("grammar-read-accepted")
	}
	d, c, err = NewDigestFromByteStreamWritePath(s)
	verifC20CheckAgainstSpec("write path", verifC20SpecWrite(s), d, c, err)
	// a write path needs at least 5 fields with this vocabulary (uploads, uuid, blobs, hash, size)
	if n < 5 {
		vnd.Assert(err != nil, "a write path with fewer than five fields is accepted")
	}
}

var verifC20ValidReadPaths = [][]string{
	{"blobs", verifC20H32, "42"},
	{"x", "blobs", verifC20H32, "42"},
	{"x", "y-1", "compressed-blobs", "zstd", "sha256tree", verifC20H64, "42"},
	{"blobs", "gitsha1", verifC20H40, "0"},
}

var verifC20ValidWritePaths = [][]string{
	{"uploads", verifC20U, "blobs", verifC20H32, "42"},
	{"x", "uploads", verifC20U, "blobs", verifC20H32, "42", "f"},
	{"x", "y-1", "uploads", verifC20U, "compressed-blobs", "zstd", "sha256tree", verifC20H64, "42", "blobs", "f"},
	{"uploads", "uploads", "blobs", "blake3", verifC20H64, "7"},
}

var verifC20MutationWords = []string{"blobs", "compressed-blobs", "zstd", "gzip", "uploads", "sha256tree", "md5", "vso", verifC20H32, verifC20H40, verifC20H64, "42", "-1", "x", "actions"}

// verifC20MutateFields: one field deleted / replaced / inserted, or truncation.
func verifC20MutateFields(base []string) []string {
	out := append([]string(nil), base...)
	switch vnd.Choose(4) {
	case 0: // truncate
		vnd.Cover("mutation-truncate")
		return out[:vnd.Choose(len(out))]
	case 1: // delete
		i := vnd.Choose(len(out))
		return append(out[:i], out[i+1:]...)
	case 2: // replace
		out[vnd.Choose(len(out))] = verifC20MutationWords[vnd.Choose(len(verifC20MutationWords))]
		return out
	default: // insert
		i := vnd.Choose(len(out) + 1)
		w := verifC20MutationWords[vnd.Choose(len(verifC20MutationWords))]
		res := append([]string(nil), out[:i]...)
		res = append(res, w)
		return append(res, out[i:]...)
	}
}

// Verif_C20_D3_FieldMutations: valid read and write names with one field
// deleted, replaced, inserted, or the name truncated after a field: no panic
// and the outcome is the specification's.
func Verif_C20_D3_FieldMutations() {
	if vnd.Choose(2) == 0 {
		base := verifC20ValidReadPaths[vnd.Choose(len(verifC20ValidReadPaths))]
		s0 := verifC20Join(base...)
		_, _, err := NewDigestFromByteStreamReadPath(s0)
		vnd.Assert(err == nil && verifC20SpecRead(s0).ok, "a valid read path is rejected")
		s := verifC20Join(verifC20MutateFields(base)...)
		d, c, err := NewDigestFromByteStreamReadPath(s)
		verifC20CheckAgainstSpec("read path", verifC20SpecRead(s), d, c, err)
		if err != nil {
			vnd.Cover("read-mutation-rejected")
		} else {
			vnd.Cover("read-mutation-accepted")
		}
	} else {
		base := verifC20ValidWritePaths[vnd.Choose(len(verifC20ValidWritePaths))]
		s0 := verifC20Join(base...)
		_, _, err := NewDigestFromByteStreamWritePath(s0)
		vnd.Assert(err == nil && verifC20SpecWrite(s0).ok, "a valid write path is rejected")
		s := verifC20Join(verifC20MutateFields(base)...)
		d, c, err := NewDigestFromByteStreamWritePath(s)
		verifC20CheckAgainstSpec("write path", verifC20SpecWrite(s), d, c, err)
		if err != nil {
			vnd.Cover("write-mutation-rejected")
		} else {
			vnd.Cover("write-mutation-accepted")
		}
	}
}

// Verif_C20_D3_CompactBinarySizes: the compact binary form (used in NFSv4 file handles and
// the like) with an ARBITRARY size field: the function enum and hash of a valid digest,
// followed by each of nine size encodings (zero, small and extreme positive and negative values, a truncated varint) where the zig-zag varint size goes. The parser
// either rejects the input or returns a digest that is as valid as one made by NewDigest:
// non-negative size, the instance name it was asked to use, and a string form that
// NewDigestFromByteStreamReadPath-style accessors agree with.
func Verif_C20_D3_CompactBinarySizes() {
	f := verifC20Funcs[0]
	d := verifC20NewDigest("inst", f, verifC20Hash(f.hexLen, nil), 5)
	cb := d.GetCompactBinary()
	// strip the size varint (5 encodes as one byte) and append symbolic bytes instead
	raw := append([]byte(nil), cb[:len(cb)-1]...)
	// zig-zag varints of 0, -1, 1, -64, 64, -128, MaxInt64, MinInt64, and a truncated one
	tails := [][]byte{{0x00}, {0x01}, {0x02}, {0x7f}, {0x80, 0x01}, {0xff, 0x01},
		{0xfe, 0xff, 0xff, 0xff, 0xff, 0xff, 0xff, 0xff, 0xff, 0x01},
		{0xff, 0xff, 0xff, 0xff, 0xff, 0xff, 0xff, 0xff, 0xff, 0x01}, {0x80}}
	raw = append(raw, tails[vnd.Choose(len(tails))]...)
	r := bytes.NewBuffer(raw)
	got, err := d.GetInstanceName().NewDigestFromCompactBinary(r)
	if err != nil {
		vnd.Cover("compact-rejected")
		return
	}
	vnd.Cover("compact-accepted")
	vnd.Assert(got.GetSizeBytes() >= 0, "the compact binary parser produced a digest with a negative size")
	vnd.Assert(got.GetInstanceName().String() == "inst", "the compact binary parser produced a digest whose instance name is not the one it was given (degenerate digest string)")
	vnd.Assert(got.GetHashString() == d.GetHashString(), "the compact binary parser changed the hash")
	again, err2 := got.GetDigestFunction().NewDigest(got.GetHashString(), got.GetSizeBytes())
	vnd.Assert(err2 == nil && again == got, "a digest produced by the compact binary parser is not one NewDigest would produce")
}
