//go:build verif

package digest

import (
	remoteexecution "github.com/bazelbuild/remote-apis/build/bazel/remote/execution/v2"
	vnd "github.com/buildbarn/bb-storage/internal/verifnd"
)

// ---- the harness's own description of the eight supported functions --------
//
// Written from the REv2 specification, NOT read from bare_function.go: enum
// value, hash length in hexadecimal characters, path midfix (only functions
// with an enumeration value above 7 are named in resource names; the others
// are inferred from the hash length).

type verifC20Func struct {
	enum   remoteexecution.DigestFunction_Value
	hexLen int
	midfix string
}

var verifC20Funcs = []verifC20Func{
	{remoteexecution.DigestFunction_MD5, 32, ""},
	{remoteexecution.DigestFunction_SHA1, 40, ""},
	{remoteexecution.DigestFunction_SHA256, 64, ""},
	{remoteexecution.DigestFunction_SHA384, 96, ""},
	{remoteexecution.DigestFunction_SHA512, 128, ""},
	{remoteexecution.DigestFunction_SHA256TREE, 64, "sha256tree"},
	{remoteexecution.DigestFunction_BLAKE3, 64, "blake3"},
	{remoteexecution.DigestFunction_GITSHA1, 40, "gitsha1"},
}

var verifC20Sizes = []int64{0, 7, 42, 123456789012, 9223372036854775807}
var verifC20SizeStrings = []string{"0", "7", "42", "123456789012", "9223372036854775807"}

// instance names: empty, single component, '-' and digits (the packed
// representation uses '-' as its separator and digits for function and size),
// several components, a component that merely contains a reserved keyword.
var verifC20InstanceNames = []string{"", "a", "x-1", "3-0-", "a/b-2/c", "blobsy/-", "-/0"}

var verifC20ReservedKeywords = []string{"blobs", "uploads", "actions", "actionResults", "operations", "capabilities", "compressed-blobs"}

const verifC20HexDigits = "0123456789abcdef"

// verifC20IsLowerHex: fork-free.
func verifC20IsLowerHex(c byte) bool {
	return vnd.Or(vnd.And(c >= '0', c <= '9'), vnd.And(c >= 'a', c <= 'f'))
}

// verifC20Hash returns a hash of n lowercase hexadecimal characters of which
// the positions in sym are symbolic; the others are fixed (distinct) digits.
func verifC20Hash(n int, sym []int) string {
	b := make([]byte, n)
	for i := range b {
		b[i] = verifC20HexDigits[(i*7+3)%16]
	}
	for _, p := range sym {
		if p < 0 || p >= n {
			continue
		}
		c := vnd.U8()
		vnd.Assume(verifC20IsLowerHex(c))
		b[p] = c
	}
	return string(b)
}

// verifC20StrEq: fork-free string comparison (lengths are concrete).
func verifC20StrEq(a, b string) bool {
	if len(a) != len(b) {
		return false
	}
	eq := true
	for i := 0; i < len(a); i++ {
		eq = vnd.And(eq, a[i] == b[i])
	}
	return eq
}

// verifC20Join joins non-empty parts with '/'.
func verifC20Join(parts ...string) string {
	out := ""
	for _, p := range parts {
		if p == "" {
			continue
		}
		if out != "" {
			out += "/"
		}
		out += p
	}
	return out
}

func verifC20CompressorMidfix(c int) string {
	switch c {
	case 0:
		return "blobs"
	case 1:
		return "compressed-blobs/zstd"
	case 2:
		return "compressed-blobs/deflate"
	case 3:
		return "compressed-blobs/brotli"
	}
	return "?"
}

// verifC20NewDigest builds a digest through the real constructors and asserts
// that valid components are accepted.
func verifC20NewDigest(instance string, f verifC20Func, hash string, size int64) Digest {
	in, err := NewInstanceName(instance)
	vnd.Assert(err == nil, "valid instance name rejected")
	fn, err := in.GetDigestFunction(f.enum, 0)
	vnd.Assert(err == nil, "supported digest function rejected")
	d, err := fn.NewDigest(hash, size)
	vnd.Assert(err == nil, "valid hash and size rejected by NewDigest")
	return d
}

// verifC20ObserveString records a (possibly symbolic) string for the translation check.
func verifC20ObserveString(tag, s string) {
	vnd.ObserveBytes(tag, []byte(s))
}

// verifC20AnyByte: an arbitrary ASCII byte, or one of two representatives of
// the non-ASCII bytes (a stray continuation byte, a byte that never occurs in
// UTF-8). The engine enumerates non-ASCII bytes one by one and concretises the
// bytes that follow a multi-byte lead, so the class is kept small and without
// lead bytes; valid multi-byte sequences are covered by concrete cases. The
// stated bound of C20 is "single bytes >= 0x80".
func verifC20AnyByte() byte {
	b := vnd.U8()
	vnd.Assume(vnd.Or(b < 0x80, vnd.Or(b == 0x80, b == 0xff)))
	return b
}

func verifC20AnyString(n int) string {
	b := make([]byte, n)
	for i := range b {
		b[i] = verifC20AnyByte()
	}
	return string(b)
}
