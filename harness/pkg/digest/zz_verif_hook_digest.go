//go:build verif

package digest

import (
	"hash"

	remoteexecution "github.com/bazelbuild/remote-apis/build/bazel/remote/execution/v2"
)

// VerifSetHasherFactory swaps the cryptographic primitive behind a digest
// function (the hasherFactory field of its bareFunction) for a harness model
// hasher. Everything else — Digest.NewHasher, getBareFunction, GetHashBytes and
// every validator — runs unmodified. Returns a function that restores it.
func VerifSetHasherFactory(digestFunction remoteexecution.DigestFunction_Value, f func(expectedSizeBytes int64) hash.Hash) (restore func()) {
	bf := getBareFunction(digestFunction, 0)
	old := bf.hasherFactory
	bf.hasherFactory = f
	return func() { bf.hasherFactory = old }
}
