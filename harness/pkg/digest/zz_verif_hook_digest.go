//go:build verif

package digest

import (
	"hash"

	remoteexecution "github.com/bazelbuild/remote-apis/build/bazel/remote/execution/v2"
	vnd "github.com/buildbarn/bb-storage/internal/verifnd"
)

var verifOriginalFactories = map[*bareFunction]func(int64) hash.Hash{}

func init() {
	// native replays of one run share a process: undo hasher swaps between replays
	vnd.RegisterReset(func() {
		for bf, f := range verifOriginalFactories {
			bf.hasherFactory = f
		}
	})
}

// VerifSetHasherFactory swaps the cryptographic primitive behind a digest
// function (the hasherFactory field of its bareFunction) for a harness model
// hasher. Everything else — Digest.NewHasher, getBareFunction, GetHashBytes and
// every validator — runs unmodified. Returns a function that restores it.
func VerifSetHasherFactory(digestFunction remoteexecution.DigestFunction_Value, f func(expectedSizeBytes int64) hash.Hash) (restore func()) {
	bf := getBareFunction(digestFunction, 0)
	old := bf.hasherFactory
	if _, ok := verifOriginalFactories[bf]; !ok {
		verifOriginalFactories[bf] = old
	}
	bf.hasherFactory = f
	return func() { bf.hasherFactory = old }
}
