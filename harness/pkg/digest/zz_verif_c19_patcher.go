//go:build verif

package digest

import (
	remoteexecution "github.com/bazelbuild/remote-apis/build/bazel/remote/execution/v2"
	vnd "github.com/buildbarn/bb-storage/internal/verifnd"
)

// verifC19Join is the oracle's prefix ⊕ remainder (component-wise concatenation).
func verifC19Join(prefix, rest string) string {
	if prefix == "" {
		return rest
	}
	if rest == "" {
		return prefix
	}
	return prefix + "/" + rest
}

var verifC19PatchPrefixes = []string{"", "a", "a/b", "ab", "x/y/z"}
var verifC19PatchRemainders = []string{"", "c", "c/d", "b", "ab/a"}

type verifC19DigestShape struct {
	fn   remoteexecution.DigestFunction_Value
	hash string
	size int64
}

var verifC19Shapes = []verifC19DigestShape{
	{remoteexecution.DigestFunction_MD5, "8b1a9953c4611296a827abf8c47804d7", 5},
	{remoteexecution.DigestFunction_SHA256, "e3b0c44298fc1c149afbf4c8996fb92427ae41e4649b934ca495991b7852b855", 0},
	{remoteexecution.DigestFunction_SHA1, "a54d88e06612d820bc3be72877c74f257b561b19", 123456789012},
}

// Verif_C19_T2_Patcher: for every (old prefix, new prefix) of the list and every
// name below the old prefix, PatchDigest yields exactly the digest with name
// new ⊕ remainder and untouched function/hash/size, UnpatchDigest restores the
// original, and PatchInstanceName agrees.
func Verif_C19_T2_Patcher() {
	oi := vnd.Choose(len(verifC19PatchPrefixes))
	ni := vnd.Choose(len(verifC19PatchPrefixes))
	oldP, newP := verifC19PatchPrefixes[oi], verifC19PatchPrefixes[ni]
	p := NewInstanceNamePatcher(verifC19Name(oldP), verifC19Name(newP))
	if oi == ni {
		vnd.Cover("t2-identity-rewrite")
	} else if oldP == "" {
		vnd.Cover("t2-insert-prefix")
	} else if newP == "" {
		vnd.Cover("t2-strip-prefix")
	} else {
		vnd.Cover("t2-replace-prefix")
	}
	for ri, rest := range verifC19PatchRemainders {
		before := verifC19Join(oldP, rest)
		after := verifC19Join(newP, rest)
		nb, na := verifC19Name(before), verifC19Name(after)
		got := p.PatchInstanceName(nb)
		vnd.Assert(got.String() == after, "PatchInstanceName: result is not new prefix + remainder")
		vnd.Assert(got == na, "PatchInstanceName: result differs from the canonical instance name")
		for si, sh := range verifC19Shapes {
			d := MustNewDigest(before, sh.fn, sh.hash, sh.size)
			want := MustNewDigest(after, sh.fn, sh.hash, sh.size)
			pd := p.PatchDigest(d)
			vnd.Assert(pd.GetInstanceName().String() == after, "PatchDigest: instance name is not new prefix + remainder")
			vnd.Assert(pd.GetHashString() == sh.hash, "PatchDigest changed the hash")
			vnd.Assert(pd.GetSizeBytes() == sh.size, "PatchDigest changed the size")
			vnd.Assert(pd.GetDigestFunction().GetEnumValue() == sh.fn, "PatchDigest changed the digest function")
			vnd.Assert(pd == want, "PatchDigest result differs from the digest built directly under the rewritten name")
			back := p.UnpatchDigest(pd)
			vnd.Assert(back == d, "UnpatchDigest(PatchDigest(d)) != d")
			vnd.Assert(back.GetInstanceName().String() == before, "UnpatchDigest did not restore the caller's instance name")
			vnd.Observe("patch", uint64(ri), uint64(si), uint64(len(pd.GetInstanceName().String())), uint64(len(back.GetInstanceName().String())))
		}
	}
}
