//go:build verif

package digest

import (
	"bytes"

	remoteexecution "github.com/bazelbuild/remote-apis/build/bazel/remote/execution/v2"
	vnd "github.com/buildbarn/bb-storage/internal/verifnd"
	"github.com/google/uuid"
)

// verifC20ExpectedReadPath is the harness's own rendering of the documented
// format ${instance}/{blobs|compressed-blobs/${compressor}}/[${function}/]${hash}/${size}.
func verifC20ExpectedReadPath(instance string, comp int, f verifC20Func, hash, sizeStr string) string {
	return verifC20Join(instance, verifC20CompressorMidfix(comp), f.midfix, hash, sizeStr)
}

func verifC20ExpectedWritePath(instance, uuidStr string, comp int, f verifC20Func, hash, sizeStr string) string {
	return verifC20Join(instance, "uploads", uuidStr, verifC20CompressorMidfix(comp), f.midfix, hash, sizeStr)
}

// verifC20UUIDString: canonical textual form of a UUID (fork-free, own code).
func verifC20UUIDString(u uuid.UUID) string {
	out := make([]byte, 0, 36)
	for i, b := range u {
		if i == 4 || i == 6 || i == 8 || i == 10 {
			out = append(out, '-')
		}
		out = append(out, verifC20HexChar(b>>4), verifC20HexChar(b&15))
	}
	return string(out)
}

func verifC20HexChar(n byte) byte {
	return vnd.IteU8(n < 10, '0'+n, 'a'+n-10)
}

// verifC20RoundTrips checks every codec on one digest.
func verifC20RoundTrips(d Digest, instance string, f verifC20Func, hash string, size int64, sizeStr string, comp int, u uuid.UUID) {
	compressor := remoteexecution.Compressor_Value(comp)

	// ByteStream read path.
	rp := d.GetByteStreamReadPath(compressor)
	vnd.Assert(verifC20StrEq(rp, verifC20ExpectedReadPath(instance, comp, f, hash, sizeStr)), "GetByteStreamReadPath does not produce the documented format")
	d2, c2, err := NewDigestFromByteStreamReadPath(rp)
	vnd.Assert(err == nil, "the read path of a valid digest is rejected")
	if err == nil {
		vnd.Assert(verifC20StrEq(d2.value, d.value), "read path does not round-trip to the same digest")
		vnd.Assert(c2 == compressor, "read path does not round-trip to the same compressor")
	}
	// a leading slash is tolerated by the field splitter; the result must be the same
	d2, c2, err = NewDigestFromByteStreamReadPath("/" + rp)
	vnd.Assert(vnd.And(err == nil && c2 == compressor, verifC20StrEq(d2.value, d.value)), "read path with a leading slash parses differently")

	// ByteStream write path, with and without a trailing file name.
	wp := d.GetByteStreamWritePath(u, compressor)
	vnd.Assert(verifC20StrEq(wp, verifC20ExpectedWritePath(instance, verifC20UUIDString(u), comp, f, hash, sizeStr)), "GetByteStreamWritePath does not produce the documented format")
	d3, c3, err := NewDigestFromByteStreamWritePath(wp)
	vnd.Assert(err == nil, "the write path of a valid digest is rejected")
	if err == nil {
		vnd.Assert(verifC20StrEq(d3.value, d.value), "write path does not round-trip to the same digest")
		vnd.Assert(c3 == compressor, "write path does not round-trip to the same compressor")
	}
	d3, c3, err = NewDigestFromByteStreamWritePath(wp + "/some/file-1.txt")
	vnd.Assert(vnd.And(err == nil && c3 == compressor, verifC20StrEq(d3.value, d.value)), "write path with a trailing file name parses differently")

	// REv2 message.
	d4, err := d.GetDigestFunction().NewDigestFromProto(d.GetProto())
	vnd.Assert(err == nil, "the REv2 message of a valid digest is rejected")
	if err == nil {
		vnd.Assert(verifC20StrEq(d4.value, d.value), "REv2 message does not round-trip to the same digest")
	}

	// Compact binary, followed by bytes that belong to somebody else.
	cb := d.GetCompactBinary()
	r := bytes.NewBuffer(append(append([]byte(nil), cb...), 0x81, 0x7f))
	d5, err := d.GetInstanceName().NewDigestFromCompactBinary(r)
	vnd.Assert(err == nil, "the compact binary form of a valid digest is rejected")
	if err == nil {
		vnd.Assert(verifC20StrEq(d5.value, d.value), "compact binary form does not round-trip to the same digest")
		vnd.Assert(r.Len() == 2, "the compact binary parser does not consume exactly the bytes the formatter produced")
	}
	// every strict prefix of the compact form is rejected (truncation), without panic
	for n := 0; n < len(cb); n++ {
		_, err := d.GetInstanceName().NewDigestFromCompactBinary(bytes.NewBuffer(cb[:n:n]))
		vnd.Assert(err != nil, "a truncated compact binary digest is accepted")
	}
}

// Verif_C20_D2_RoundTripGrid: the full concrete grid function x instance name
// x size x compressor.
func Verif_C20_D2_RoundTripGrid() {
	f := verifC20Funcs[vnd.Choose(len(verifC20Funcs))]
	instance := verifC20InstanceNames[vnd.Choose(len(verifC20InstanceNames))]
	si := vnd.Choose(len(verifC20Sizes))
	ncomp := 2
	if vnd.Thorough() {
		ncomp = 4
	}
	comp := vnd.Choose(ncomp)
	hash := verifC20Hash(f.hexLen, nil)
	d := verifC20NewDigest(instance, f, hash, verifC20Sizes[si])
	u := uuid.UUID{0x00, 0x9f, 0xa0, 0xff, 0x10, 0x0a, 0xb1, 0x2c, 0xd3, 0x4e, 0xf5, 0x60, 0x07, 0x80, 0x99, 0xaf}
	vnd.Cover("grid-roundtrip")
	verifC20RoundTrips(d, instance, f, hash, verifC20Sizes[si], verifC20SizeStrings[si], comp, u)
	verifC20ObserveString("readpath", d.GetByteStreamReadPath(remoteexecution.Compressor_Value(comp)))
	verifC20ObserveString("writepath", d.GetByteStreamWritePath(u, remoteexecution.Compressor_Value(comp)))
	vnd.ObserveBytes("compact", d.GetCompactBinary())
}

// verifC20SymFuncs: functions used by the harnesses with symbolic characters:
// quick = MD5 (shortest, inferred from the hash length), SHA256TREE (named in
// paths), GITSHA1 (two-digit function number in the packed form); thorough = all.
func verifC20SymFuncs() []verifC20Func {
	if vnd.Thorough() {
		return verifC20Funcs
	}
	return []verifC20Func{verifC20Funcs[0], verifC20Funcs[5], verifC20Funcs[7]}
}

// Verif_C20_D2_ReadPathSymbolic: read path with arbitrary lowercase-hex first
// and last hash characters.
func Verif_C20_D2_ReadPathSymbolic() {
	fs := verifC20SymFuncs()
	f := fs[vnd.Choose(len(fs))]
	k := vnd.Choose(2)
	instance := []string{"", "3-0-/b-2"}[k]
	si := []int{4, 0}[k]
	comp := []int{1, 0}[k]
	hash := verifC20Hash(f.hexLen, []int{0, f.hexLen - 1})
	d := verifC20NewDigest(instance, f, hash, verifC20Sizes[si])
	compressor := remoteexecution.Compressor_Value(comp)
	vnd.Cover("symbolic-readpath")
	rp := d.GetByteStreamReadPath(compressor)
	vnd.Assert(verifC20StrEq(rp, verifC20ExpectedReadPath(instance, comp, f, hash, verifC20SizeStrings[si])), "GetByteStreamReadPath does not produce the documented format")
	d2, c2, err := NewDigestFromByteStreamReadPath(rp)
	vnd.Assert(err == nil, "the read path of a valid digest is rejected")
	if err == nil {
		vnd.Assert(verifC20StrEq(d2.value, d.value), "read path does not round-trip to the same digest")
		vnd.Assert(c2 == compressor, "read path does not round-trip to the same compressor")
	}
	verifC20ObserveString("readpath", rp)
}

// Verif_C20_D2_WritePathSymbolic: write path with arbitrary first and last UUID bytes.
func Verif_C20_D2_WritePathSymbolic() {
	fs := verifC20SymFuncs()
	f := fs[vnd.Choose(len(fs))]
	k := vnd.Choose(2)
	instance := []string{"", "3-0-/b-2"}[k]
	si := []int{4, 0}[k]
	comp := []int{1, 0}[k]
	hash := verifC20Hash(f.hexLen, nil)
	d := verifC20NewDigest(instance, f, hash, verifC20Sizes[si])
	compressor := remoteexecution.Compressor_Value(comp)
	u := uuid.UUID{0x00, 0x9f, 0xa0, 0xff, 0x10, 0x0a, 0xb1, 0x2c, 0xd3, 0x4e, 0xf5, 0x60, 0x07, 0x80, 0x99, 0xaf}
	u[0] = vnd.U8()
	u[15] = vnd.U8()
	vnd.Cover("symbolic-writepath")
	wp := d.GetByteStreamWritePath(u, compressor)
	vnd.Assert(verifC20StrEq(wp, verifC20ExpectedWritePath(instance, verifC20UUIDString(u), comp, f, hash, verifC20SizeStrings[si])), "GetByteStreamWritePath does not produce the documented format")
	d3, c3, err := NewDigestFromByteStreamWritePath(wp)
	vnd.Assert(err == nil, "the write path of a valid digest is rejected")
	if err == nil {
		vnd.Assert(verifC20StrEq(d3.value, d.value), "write path does not round-trip to the same digest")
		vnd.Assert(c3 == compressor, "write path does not round-trip to the same compressor")
	}
	verifC20ObserveString("writepath", wp)
}

// Verif_C20_D2_CompactSymbolic: REv2 message and compact binary with an
// arbitrary lowercase-hex last hash character.
func Verif_C20_D2_CompactSymbolic() {
	fs := verifC20SymFuncs()
	f := fs[vnd.Choose(len(fs))]
	hash := verifC20Hash(f.hexLen, []int{f.hexLen - 1})
	d := verifC20NewDigest("x-1", f, hash, 123456789012)
	vnd.Cover("symbolic-compact")
	d4, err := d.GetDigestFunction().NewDigestFromProto(d.GetProto())
	vnd.Assert(err == nil, "the REv2 message of a valid digest is rejected")
	if err == nil {
		vnd.Assert(verifC20StrEq(d4.value, d.value), "REv2 message does not round-trip to the same digest")
	}
	cb := d.GetCompactBinary()
	r := bytes.NewBuffer(append(append([]byte(nil), cb...), 0x81))
	d5, err := d.GetInstanceName().NewDigestFromCompactBinary(r)
	vnd.Assert(err == nil, "the compact binary form of a valid digest is rejected")
	if err == nil {
		vnd.Assert(verifC20StrEq(d5.value, d.value), "compact binary form does not round-trip to the same digest")
		vnd.Assert(r.Len() == 1, "the compact binary parser does not consume exactly the bytes the formatter produced")
	}
	vnd.ObserveBytes("compact", cb)
}

// Verif_C20_D2_DotInstanceNames: instance names with '.' in them. Whatever
// NewInstanceName accepts must survive formatting and parsing back.
func Verif_C20_D2_DotInstanceNames() {
	names := []string{"a.b", "..a", "...", ".a/b.", ".", "..", "a/./b", "a/../b", "./a", "a/.."}
	instance := names[vnd.Choose(len(names))]
	in, err := NewInstanceName(instance)
	if err != nil {
		// (no Cover: unreachable until the finding is repaired)
		return
	}
	vnd.Cover("dot-name-accepted")
	fn, err := in.GetDigestFunction(remoteexecution.DigestFunction_MD5, 0)
	vnd.Assert(err == nil, "supported function rejected")
	d, err := fn.NewDigest(verifC20Hash(32, nil), 42)
	vnd.Assert(err == nil, "valid digest rejected")
	comp := remoteexecution.Compressor_Value(vnd.Choose(2))
	d2, c2, err := NewDigestFromByteStreamReadPath(d.GetByteStreamReadPath(comp))
	vnd.Assert(err == nil, "read path of a digest with an accepted instance name is rejected")
	vnd.Assert(d2 == d && c2 == comp, "read path does not round-trip for an accepted instance name containing '.' components")
	u := uuid.UUID{1, 2, 3, 4, 5, 6, 7, 8, 9, 10, 11, 12, 13, 14, 15, 16}
	d3, c3, err := NewDigestFromByteStreamWritePath(d.GetByteStreamWritePath(u, comp))
	vnd.Assert(err == nil, "write path of a digest with an accepted instance name is rejected")
	vnd.Assert(d3 == d && c3 == comp, "write path does not round-trip for an accepted instance name containing '.' components")
}
