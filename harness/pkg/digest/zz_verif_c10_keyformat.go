//go:build verif

package digest

import (
	remoteexecution "github.com/bazelbuild/remote-apis/build/bazel/remote/execution/v2"
	vnd "github.com/buildbarn/bb-storage/internal/verifnd"
)

// Verif_C10_X4_KeyFormatCombine: composite backends (mirrored, read fallback, sharding ...)
// and the caches in front of them key objects by the COMBINED key format of their members.
// If any member distinguishes instance names (a hierarchical local CAS does), so must the
// combination - otherwise an existence cache in front of the composite answers for one
// instance name with what it learnt under another. Combine is the least upper bound:
// commutative, idempotent, KeyWithInstance absorbing; and keys of that format differ for
// the same blob under two instance names.
func Verif_C10_X4_KeyFormatCombine() {
	fs := []KeyFormat{KeyWithoutInstance, KeyWithInstance}
	a, b := fs[vnd.Choose(2)], fs[vnd.Choose(2)]
	c := a.Combine(b)
	want := KeyWithoutInstance
	if a == KeyWithInstance || b == KeyWithInstance {
		want = KeyWithInstance
	}
	vnd.Assert(c == want, "KeyFormat.Combine loses the instance name although one of the two formats carries it")
	vnd.Assert(c == b.Combine(a), "KeyFormat.Combine is not commutative")
	vnd.Assert(a.Combine(a) == a, "KeyFormat.Combine is not idempotent")
	d1 := MustNewDigest("tenant-a", remoteexecution.DigestFunction_MD5, "00000000000000000000000000000001", 5)
	d2 := MustNewDigest("tenant-b", remoteexecution.DigestFunction_MD5, "00000000000000000000000000000001", 5)
	if c == KeyWithInstance {
		vnd.Cover("x4-with-instance")
		vnd.Assert(d1.GetKey(c) != d2.GetKey(c), "keys that carry the instance name coincide for two instance names")
	} else {
		vnd.Cover("x4-without-instance")
		vnd.Assert(d1.GetKey(c) == d2.GetKey(c), "keys without instance name differ for the same blob")
	}
}
