//go:build verif

package digest

import (
	vnd "github.com/buildbarn/bb-storage/internal/verifnd"
)

// ---- independent oracle (never calls the trie or strings.FieldsFunc) ----

// verifC19Split splits a valid instance name into its components.
func verifC19Split(s string) []string {
	var out []string
	start := 0
	for i := 0; i <= len(s); i++ {
		if i == len(s) || s[i] == '/' {
			if i > start {
				out = append(out, s[start:i])
			}
			start = i + 1
		}
	}
	return out
}

// verifC19IsComponentPrefix reports whether every component of p equals the
// component of q at the same position (p not longer than q).
func verifC19IsComponentPrefix(p, q []string) bool {
	if len(p) > len(q) {
		return false
	}
	for i := range p {
		if p[i] != q[i] {
			return false
		}
	}
	return true
}

// verifC19Longest returns the index (into names) of the registered name that is
// the longest component-wise prefix of q, or -1; exact reports the index of the
// registered name equal to q, or -1.
func verifC19Longest(namesSplit [][]string, member []bool, qc []string) (longest, exact int) {
	longest, exact = -1, -1
	best := -1
	for i, nc := range namesSplit {
		if !member[i] {
			continue
		}
		if verifC19IsComponentPrefix(nc, qc) {
			if len(nc) > best {
				best = len(nc)
				longest = i
			}
			if len(nc) == len(qc) {
				exact = i
			}
		}
	}
	return
}

var verifC19TrieNames = []string{"", "a", "a/b", "ab", "b", "a/b/c"}

// queries: members, string-but-not-component prefixes ("ab" vs "a/b", "a/bc"),
// extensions below the deepest member, siblings, unknown roots.
var verifC19TrieQueries = []string{"", "a", "a/b", "a/b/c", "a/b/c/d", "ab", "a/bc", "abc", "b", "b/a", "c", "a/c", "ab/c", "a/b/d", "a/b/cd", "ba"}

func verifC19Name(s string) InstanceName {
	n, err := NewInstanceName(s)
	vnd.Assert(err == nil, "valid instance name rejected by NewInstanceName")
	return n
}

// verifC19TrieEnv holds the per-path precomputed name objects and the oracle's
// own component splits.
type verifC19TrieEnv struct {
	names      []InstanceName
	namesSplit [][]string
	queries    []InstanceName
	querySplit [][]string
}

func verifC19NewTrieEnv() *verifC19TrieEnv {
	e := &verifC19TrieEnv{}
	for _, n := range verifC19TrieNames {
		e.names = append(e.names, verifC19Name(n))
		e.namesSplit = append(e.namesSplit, verifC19Split(n))
	}
	for _, q := range verifC19TrieQueries {
		e.queries = append(e.queries, verifC19Name(q))
		e.querySplit = append(e.querySplit, verifC19Split(q))
	}
	return e
}

// verifC19CheckTrie compares all four lookup functions with the oracle for every query.
func verifC19CheckTrie(e *verifC19TrieEnv, it *InstanceNameTrie, member []bool, value []int, phase uint64) {
	for qi, qn := range e.queries {
		longest, exact := verifC19Longest(e.namesSplit, member, e.querySplit[qi])
		wantLongest, wantExact := -1, -1
		if longest >= 0 {
			wantLongest = value[longest]
		}
		if exact >= 0 {
			wantExact = value[exact]
		}
		gl := it.GetLongestPrefix(qn)
		ge := it.GetExact(qn)
		cp := it.ContainsPrefix(qn)
		ce := it.ContainsExact(qn)
		vnd.Assert(gl == wantLongest, "GetLongestPrefix does not return the value of the longest component-wise prefix")
		vnd.Assert(ge == wantExact, "GetExact does not return the value of the identical registered name (or -1)")
		vnd.Assert(cp == (longest >= 0), "ContainsPrefix disagrees with the existence of a registered component-wise prefix")
		vnd.Assert(ce == (exact >= 0), "ContainsExact disagrees with membership of the exact name")
		vnd.Observe("trie", phase, uint64(qi), uint64(int64(gl)), uint64(int64(ge)))
		if longest >= 0 && exact < 0 {
			vnd.Cover("t1-proper-prefix-match")
		}
		if longest < 0 {
			vnd.Cover("t1-no-match")
		}
	}
}

// verifC19TrieOp applies one symbolic operation (Set of any of the six names
// with a fresh value, or Remove of a current member), checks Remove's result,
// and re-checks every lookup.
func verifC19TrieOp(e *verifC19TrieEnv, it *InstanceNameTrie, member []bool, value []int, count *int, phase uint64, removeOnly bool) {
	k := len(e.names)
	var op int
	if removeOnly {
		op = k + vnd.Choose(k)
	} else {
		op = vnd.Choose(2 * k)
	}
	i := op % k
	if op < k {
		if !member[i] {
			*count++
			vnd.Cover("t1-set-new")
		} else {
			vnd.Cover("t1-set-overwrite")
		}
		member[i] = true
		value[i] = int(phase)*10 + i
		it.Set(e.names[i], value[i])
		verifC19CheckTrie(e, it, member, value, phase)
		return
	}
	vnd.Assume(member[i])
	empty := it.Remove(e.names[i])
	member[i] = false
	*count--
	vnd.Assert(empty == (*count == 0), "Remove misreports whether the trie became empty")
	if empty {
		vnd.Cover("t1-removed-last")
		vnd.Assert(len(it.root.children) == 0 && it.root.value < 0, "trie reported empty still holds nodes")
	} else {
		vnd.Cover("t1-removed-one")
	}
	verifC19CheckTrie(e, it, member, value, phase)
	// the removed name can be registered again and is then found again
	member[i] = true
	*count++
	value[i] = int(phase)*10 + 7
	it.Set(e.names[i], value[i])
	verifC19CheckTrie(e, it, member, value, phase+100)
	empty = it.Remove(e.names[i])
	member[i] = false
	*count--
	vnd.Assert(empty == (*count == 0), "second Remove misreports whether the trie became empty")
}

// Verif_C19_T1_Trie: for every subset of the six names (inserted in ascending or
// descending order) followed by one further operation - Set of any name with a
// new value, or Remove of any member - (thorough: both orders for every subset,
// then a second Remove of any member) the four lookup functions agree
// with the independently computed longest component-wise prefix for each of
// the query names; Remove reports emptiness correctly and removes exactly the
// one name; a removed name can be registered again.
//
// symgo: maxpaths=40000
func Verif_C19_T1_Trie() {
	k := len(verifC19TrieNames)
	member := make([]bool, k)
	value := make([]int, k)
	subset := vnd.Choose(1 << uint(k))
	// insertion order: thorough tries both for every subset; quick alternates
	// with the parity of the subset size.
	reverse := false
	if vnd.Thorough() {
		reverse = vnd.Choose(2) == 1
	} else {
		for b := 0; b < k; b++ {
			if subset&(1<<uint(b)) != 0 {
				reverse = !reverse
			}
		}
	}
	e := verifC19NewTrieEnv()
	it := NewInstanceNameTrie()
	count := 0
	for j := 0; j < k; j++ {
		i := j
		if reverse {
			i = k - 1 - j
		}
		if subset&(1<<uint(i)) != 0 {
			member[i] = true
			value[i] = j // 0 is a legitimate value; which name gets it depends on the order
			it.Set(e.names[i], value[i])
			count++
		}
	}
	vnd.Cover("t1-built")
	verifC19CheckTrie(e, it, member, value, 0)
	verifC19TrieOp(e, it, member, value, &count, 1, false)
	if vnd.Thorough() {
		verifC19TrieOp(e, it, member, value, &count, 2, true)
	}
}

// verifC19SymQueryMasksQuick: registered subsets used with the symbolic query in
// the quick tier (bit i = verifC19TrieNames[i]); thorough uses all 64.
var verifC19SymQueryMasksQuick = []int{0b111111, 0b101110, 0b001101, 0b100100, 0b010010, 0b000000}

// Verif_C19_T1_TrieSymbolicQuery: the query name is a SYMBOLIC string of 0..5
// bytes over {a,b,c,/} constrained only to be a well-formed instance name (no
// leading/trailing/double slash): all four lookups agree with the longest
// component-wise prefix, computed fork-free on the symbolic bytes.
//
// symgo: maxpaths=60000
func Verif_C19_T1_TrieSymbolicQuery() {
	k := len(verifC19TrieNames)
	var mask int
	if vnd.Thorough() {
		mask = vnd.Choose(1 << uint(k))
	} else {
		mask = verifC19SymQueryMasksQuick[vnd.Choose(len(verifC19SymQueryMasksQuick))]
	}
	it := NewInstanceNameTrie()
	member := make([]bool, k)
	for i, n := range verifC19TrieNames {
		if mask&(1<<uint(i)) != 0 {
			member[i] = true
			it.Set(verifC19Name(n), i)
		}
	}
	n := vnd.Choose(6)
	q := vnd.SymString(n)
	for i := 0; i < n; i++ {
		c := q[i]
		vnd.Assume(vnd.Or(vnd.Or(c == 'a', c == 'b'), vnd.Or(c == 'c', c == '/')))
		if i == 0 || i == n-1 {
			vnd.Assume(c != '/')
		} else {
			vnd.Assume(vnd.Not(vnd.And(c == '/', q[i-1] == '/')))
		}
	}
	vnd.Cover("t1s-assumed")
	qn := InstanceName{value: q}

	// oracle on the bytes: name p (concrete) is a component-wise prefix of q iff
	// p == "" or q starts with p and ends there or continues with '/'.
	wantLongest, wantExact := -1, -1
	for i, p := range verifC19TrieNames {
		if !member[i] || len(p) > n {
			continue
		}
		starts := true
		for j := 0; j < len(p); j++ {
			starts = vnd.And(starts, q[j] == p[j])
		}
		isPrefix := starts
		if len(p) < n && len(p) > 0 {
			isPrefix = vnd.And(starts, q[len(p)] == '/')
		}
		if len(p) == n {
			wantExact = vnd.IteInt(starts, i, wantExact)
		}
		// a match replaces the current candidate only if it is longer
		wantLongest = vnd.IteInt(vnd.And(isPrefix, verifC19LongerThan(p, wantLongest)), i, wantLongest)
	}
	gl := it.GetLongestPrefix(qn)
	ge := it.GetExact(qn)
	cp := it.ContainsPrefix(qn)
	ce := it.ContainsExact(qn)
	vnd.Assert(gl == wantLongest, "GetLongestPrefix (symbolic query) is not the longest component-wise prefix")
	vnd.Assert(ge == wantExact, "GetExact (symbolic query) is not the identical registered name")
	vnd.Assert(cp == (wantLongest >= 0), "ContainsPrefix (symbolic query) disagrees with the oracle")
	vnd.Assert(ce == (wantExact >= 0), "ContainsExact (symbolic query) disagrees with the oracle")
	if gl >= 0 && ge < 0 {
		vnd.Cover("t1s-proper-prefix")
	}
	if gl < 0 {
		vnd.Cover("t1s-no-match")
	}
	vnd.Observe("trie-sym", uint64(n), uint64(int64(gl)), uint64(int64(ge)))
}

// verifC19LongerThan: len(p) > len(names[cur]) for a symbolic index cur (-1: none), fork-free.
func verifC19LongerThan(p string, cur int) bool {
	r := cur == -1
	for i, n := range verifC19TrieNames {
		if len(p) > len(n) {
			r = vnd.Or(r, cur == i)
		}
	}
	return r
}
