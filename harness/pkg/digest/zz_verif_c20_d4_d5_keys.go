//go:build verif

package digest

import (
	remoteexecution "github.com/bazelbuild/remote-apis/build/bazel/remote/execution/v2"
	vnd "github.com/buildbarn/bb-storage/internal/verifnd"
)

// verifC20HexLetter: a symbolic character in 'a'..'f' (one class, so that the
// hash validator does not fork on it).
func verifC20HexLetter() byte {
	c := vnd.U8()
	vnd.Assume(vnd.And(c >= 'a', c <= 'f'))
	return c
}

func verifC20FuncByEnum(e remoteexecution.DigestFunction_Value) verifC20Func {
	for _, f := range verifC20Funcs {
		if f.enum == e {
			return f
		}
	}
	panic("harness: unknown function")
}

// Verif_C20_D4_Keys: two digests over confusable components (functions with the
// same hash length, one- and two-digit function numbers, sizes that are
// prefixes of each other, instance names that are prefixes of each other or
// contain '-' and digits, hashes that differ in a symbolic character): keys
// are equal exactly when function, hash, size (and, for KeyWithInstance,
// instance name) agree.
func Verif_C20_D4_Keys() {
	type fp struct {
		a, b remoteexecution.DigestFunction_Value
	}
	fpairs := []fp{
		{remoteexecution.DigestFunction_SHA256, remoteexecution.DigestFunction_SHA256},
		{remoteexecution.DigestFunction_SHA256, remoteexecution.DigestFunction_SHA256TREE},
		{remoteexecution.DigestFunction_SHA256TREE, remoteexecution.DigestFunction_BLAKE3},
		{remoteexecution.DigestFunction_SHA1, remoteexecution.DigestFunction_GITSHA1},
		{remoteexecution.DigestFunction_GITSHA1, remoteexecution.DigestFunction_GITSHA1},
		{remoteexecution.DigestFunction_MD5, remoteexecution.DigestFunction_MD5},
	}
	type sp struct{ a, b int64 }
	spairs := []sp{{42, 42}, {4, 42}, {0, 0}, {42, 43}, {42, 52}}
	if vnd.Thorough() {
		spairs = append(spairs, sp{1, 10}, sp{9223372036854775807, 922337203685477580})
	}
	type ip struct{ a, b string }
	ipairs := []ip{{"", ""}, {"a", "a/b"}, {"2-a", "2-a"}}
	if vnd.Thorough() {
		ipairs = append(ipairs, ip{"x-1", "x-1"}, ip{"", "0"})
	}
	fpk := fpairs[vnd.Choose(len(fpairs))]
	spk := spairs[vnd.Choose(len(spairs))]
	ipk := ipairs[vnd.Choose(len(ipairs))]
	f1, f2 := verifC20FuncByEnum(fpk.a), verifC20FuncByEnum(fpk.b)

	h1 := []byte(verifC20Hash(f1.hexLen, nil))
	h2 := []byte(verifC20Hash(f2.hexLen, nil))
	pos := []int{0, f1.hexLen - 1}[vnd.Choose(2)]
	h1[pos] = verifC20HexLetter()
	h2[pos] = verifC20HexLetter()

	d1 := verifC20NewDigest(ipk.a, f1, string(h1), spk.a)
	d2 := verifC20NewDigest(ipk.b, f2, string(h2), spk.b)

	sameHash := verifC20StrEq(string(h1), string(h2))
	sameCore := vnd.And(f1.enum == f2.enum && spk.a == spk.b, sameHash)
	sameAll := vnd.And(sameCore, ipk.a == ipk.b)

	k1, k2 := d1.GetKey(KeyWithoutInstance), d2.GetKey(KeyWithoutInstance)
	vnd.Assert(vnd.Iff(verifC20StrEq(k1, k2), sameCore), "KeyWithoutInstance keys are equal although function, hash or size differ, or differ although they agree")
	ki1, ki2 := d1.GetKey(KeyWithInstance), d2.GetKey(KeyWithInstance)
	vnd.Assert(vnd.Iff(verifC20StrEq(ki1, ki2), sameAll), "KeyWithInstance keys are equal although function, hash, size or instance name differ, or differ although they agree")
	vnd.Assert(vnd.Iff(verifC20StrEq(d1.String(), d2.String()), sameAll), "String() does not identify the digest")
	// the instance-free key never depends on the instance name
	d3 := verifC20NewDigest("other/name-7", f1, string(h1), spk.a)
	vnd.Assert(verifC20StrEq(d3.GetKey(KeyWithoutInstance), k1), "KeyWithoutInstance depends on the instance name")
	vnd.Assert(vnd.Not(verifC20StrEq(d3.GetKey(KeyWithInstance), ki1)), "KeyWithInstance does not depend on the instance name")
	if f1.enum == f2.enum && spk.a == spk.b {
		vnd.Cover("keys-may-collide")
	} else {
		vnd.Cover("keys-must-differ")
	}
	// Combine picks the format with the most information.
	vnd.Assert(KeyWithInstance.Combine(KeyWithoutInstance) == KeyWithInstance && KeyWithoutInstance.Combine(KeyWithInstance) == KeyWithInstance &&
		KeyWithoutInstance.Combine(KeyWithoutInstance) == KeyWithoutInstance && KeyWithInstance.Combine(KeyWithInstance) == KeyWithInstance, "KeyFormat.Combine does not pick the more informative format")
	verifC20ObserveString("k1", k1)
	verifC20ObserveString("ki2", ki2)
}

// Verif_C20_D5_Ancestors: GetDigestsWithParentInstanceNames is exactly the chain
// of component prefixes (0..3 components), each with the same function, hash
// and size.
func Verif_C20_D5_Ancestors() {
	f := verifC20Funcs[vnd.Choose(len(verifC20Funcs))]
	names := [][]string{{}, {"a"}, {"a", "b"}, {"a", "b", "c"}, {"x-1", "2-", "c"}, {"ab", "cd", "ef"}, {"abc"}, {"-", "-"}, {"a", "bcd"}, {"abc", "d"}}
	comps := names[vnd.Choose(len(names))]
	size := []int64{0, 123456789012}[vnd.Choose(2)]
	hash := verifC20Hash(f.hexLen, nil)
	d := verifC20NewDigest(verifC20Join(comps...), f, hash, size)
	verifC20CheckAncestors(d, comps, f, hash, size)
	vnd.Cover("ancestors")
}

func verifC20CheckAncestors(d Digest, comps []string, f verifC20Func, hash string, size int64) {
	before := d.value
	chain := d.GetDigestsWithParentInstanceNames()
	vnd.Assert(verifC20StrEq(d.value, before), "GetDigestsWithParentInstanceNames changes its receiver")
	vnd.Assert(len(chain) == len(comps)+1, "number of ancestor digests is not the number of components plus one")
	if len(chain) != len(comps)+1 {
		return
	}
	for i, a := range chain {
		want := verifC20Join(comps[:i]...)
		vnd.Assert(verifC20StrEq(a.GetInstanceName().String(), want), "ancestor digest does not carry the prefix of the instance name's components")
		vnd.Assert(a.GetDigestFunction().GetEnumValue() == f.enum, "ancestor digest has a different function")
		vnd.Assert(verifC20StrEq(a.GetHashString(), hash), "ancestor digest has a different hash")
		vnd.Assert(a.GetSizeBytes() == size, "ancestor digest has a different size")
		// it is a well-formed digest: identical to the one built from the components
		in, err := NewInstanceNameFromComponents(comps[:i])
		vnd.Assert(err == nil, "prefix of a valid instance name rejected")
		fn, _ := in.GetDigestFunction(f.enum, 0)
		w, err := fn.NewDigest(hash, size)
		vnd.Assert(err == nil && verifC20StrEq(w.value, a.value), "ancestor digest differs from the digest built from the component prefix")
	}
}

// Verif_C20_D5_AncestorsSymbolic: components with arbitrary (non-slash) bytes.
func Verif_C20_D5_AncestorsSymbolic() {
	f := verifC20SymFuncs()[vnd.Choose(len(verifC20SymFuncs()))]
	c0, c1 := verifC20AnyByte(), verifC20AnyByte()
	vnd.Assume(vnd.And(c0 != '/', c1 != '/'))
	var comps []string
	switch vnd.Choose(3) {
	case 0:
		comps = []string{string([]byte{c0})}
	case 1:
		comps = []string{string([]byte{c0}), string([]byte{'b', c1})}
	case 2:
		comps = []string{string([]byte{c0, '-'}), "b", string([]byte{c1})}
	}
	in, err := NewInstanceName(verifC20Join(comps...))
	vnd.Assert(err == nil, "valid instance name rejected")
	hash := verifC20Hash(f.hexLen, nil)
	fn, _ := in.GetDigestFunction(f.enum, 0)
	d, err := fn.NewDigest(hash, 42)
	vnd.Assert(err == nil, "valid digest rejected")
	verifC20CheckAncestors(d, comps, f, hash, 42)
	vnd.Cover("ancestors-symbolic")
	vnd.Observe("chain", uint64(len(d.GetDigestsWithParentInstanceNames())))
}
