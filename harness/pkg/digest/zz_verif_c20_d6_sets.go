//go:build verif

package digest

import (
	vnd "github.com/buildbarn/bb-storage/internal/verifnd"
)

// ---- D6: set algebra ------------------------------------------------------------
//
// A universe of digests; sets are bit masks over the universe IN SORTED ORDER
// (bit i = i-th smallest digest by its string form), so the expected Items() of
// a mask is simply the universe filtered by the mask. Membership is chosen by
// Choose, i.e. every family of subsets is enumerated; everything is concrete,
// so the whole family costs no solver time.

type verifC20Universe struct {
	sorted []Digest // ascending by String()
}

func verifC20NewUniverse(ds []Digest) *verifC20Universe {
	// insertion sort by the string form (the harness's own ordering code)
	s := append([]Digest(nil), ds...)
	for i := 1; i < len(s); i++ {
		for j := i; j > 0 && s[j].String() < s[j-1].String(); j-- {
			s[j], s[j-1] = s[j-1], s[j]
		}
	}
	for i := 1; i < len(s); i++ {
		vnd.Assert(s[i-1].String() < s[i].String(), "harness: universe has duplicates")
	}
	return &verifC20Universe{sorted: s}
}

func (u *verifC20Universe) items(mask int) []Digest {
	var out []Digest
	for i, d := range u.sorted {
		if mask&(1<<i) != 0 {
			out = append(out, d)
		}
	}
	return out
}

// build feeds the members of mask to a SetBuilder in a scrambled order with
// duplicates.
func (u *verifC20Universe) build(mask int, variant int) Set {
	n := len(u.sorted)
	sb := NewSetBuilder(variant) // capacity hint 0 or 1: must not matter
	order := make([]int, 0, 2*n)
	for i := n - 1; i >= 0; i-- { // descending
		order = append(order, i)
	}
	for i := 0; i < n; i += 2 { // then every other element again
		order = append(order, i)
	}
	if variant == 1 {
		for i := 0; i < n; i++ { // ascending, everything twice
			order = append(order, i, i)
		}
	}
	for _, i := range order {
		if mask&(1<<i) != 0 {
			sb = sb.Add(u.sorted[i])
		}
	}
	vnd.Assert(sb.Length() == verifC20PopCount(mask), "SetBuilder.Length counts duplicates or loses elements")
	return sb.Build()
}

func verifC20PopCount(m int) int {
	c := 0
	for ; m != 0; m &= m - 1 {
		c++
	}
	return c
}

// check: s holds exactly the members of mask, ascending, without duplicates.
func (u *verifC20Universe) check(s Set, mask int, what string) {
	want := u.items(mask)
	got := s.Items()
	vnd.Assert(len(got) == len(want), what+": wrong number of elements")
	vnd.Assert(s.Length() == len(want), what+": Length() wrong")
	vnd.Assert(s.Empty() == (len(want) == 0), what+": Empty() wrong")
	first, ok := s.First()
	vnd.Assert(ok == (len(want) > 0), what+": First() reports the wrong emptiness")
	if len(got) != len(want) {
		return
	}
	for i := range want {
		vnd.Assert(got[i] == want[i], what+": not the expected elements in ascending order")
	}
	if len(want) > 0 {
		vnd.Assert(first == want[0], what+": First() is not the smallest element")
	}
	for i := 1; i < len(got); i++ {
		vnd.Assert(got[i-1].String() < got[i].String(), what+": not strictly ascending")
	}
}

func verifC20Snapshot(s Set) []Digest { return append([]Digest(nil), s.Items()...) }

func verifC20Unchanged(s Set, snap []Digest, what string) {
	got := s.Items()
	vnd.Assert(len(got) == len(snap), what+": input set changed length")
	if len(got) != len(snap) {
		return
	}
	for i := range snap {
		vnd.Assert(got[i] == snap[i], what+": input set was modified")
	}
}

func verifC20SetUniverse4() *verifC20Universe {
	// hashes chosen so that the ascending order ALTERNATES empty and non-empty blobs (an
	// empty blob is followed by a non-empty one, and the other way round) and interleaves
	// the two instance names
	h := []string{
		"00000000000000000000000000000000",
		"55555555555555555555555555555555",
		"aaaaaaaaaaaaaaaaaaaaaaaaaaaaaaaa",
		"ffffffffffffffffffffffffffffffff",
	}
	md5 := verifC20Funcs[0]
	return verifC20NewUniverse([]Digest{
		verifC20NewDigest("a", md5, h[0], 0), // an empty blob (by size) in instance a
		verifC20NewDigest("b", md5, h[1], 5),
		verifC20NewDigest("b", md5, h[2], 0),
		verifC20NewDigest("a", md5, h[3], 5),
	})
}

// verifC20PartitionCheck: the partition of s by instance name.
func (u *verifC20Universe) checkPartition(s Set, mask int, what string) {
	parts := s.PartitionByInstanceName()
	// expected: instance names in order of first occurrence in the ascending items
	var names []string
	var masks []int
	for i, d := range u.sorted {
		if mask&(1<<i) == 0 {
			continue
		}
		name := d.GetInstanceName().String()
		k := -1
		for j, n := range names {
			if n == name {
				k = j
			}
		}
		if k < 0 {
			names = append(names, name)
			masks = append(masks, 0)
			k = len(names) - 1
		}
		masks[k] |= 1 << i
	}
	vnd.Assert(len(parts) == len(names), what+": wrong number of partitions")
	if len(parts) != len(names) {
		return
	}
	for k := range parts {
		vnd.Assert(!parts[k].Empty(), what+": empty partition")
		u.check(parts[k], masks[k], what+": partition")
	}
}

// Verif_C20_D6_SetAlgebra: universe of 4 digests over 2 instance names (two of
// them empty blobs); three sets A, B, C, every family of subsets; builder input
// scrambled and with duplicates.
func Verif_C20_D6_SetAlgebra() {
	u := verifC20SetUniverse4()
	n := 1 << len(u.sorted)
	ma, mb := vnd.Choose(n), vnd.Choose(n)
	mc := 0
	nc := 4 // quick: C ranges over four representative subsets; thorough: all 16
	cs := []int{0, 0b0110, 0b1011, 0b1111}
	if vnd.Thorough() {
		mc = vnd.Choose(n)
	} else {
		mc = cs[vnd.Choose(nc)]
	}
	variant := vnd.Choose(2)
	a, b, c := u.build(ma, variant), u.build(mb, 1-variant), u.build(mc, variant)
	u.check(a, ma, "SetBuilder.Build")
	u.check(b, mb, "SetBuilder.Build")
	u.check(c, mc, "SetBuilder.Build")
	sa, sb, sc := verifC20Snapshot(a), verifC20Snapshot(b), verifC20Snapshot(c)

	// union
	u.check(GetUnion(nil), 0, "GetUnion of no sets")
	u.check(GetUnion([]Set{a}), ma, "GetUnion of one set")
	u.check(GetUnion([]Set{a, b}), ma|mb, "GetUnion of two sets")
	u.check(GetUnion([]Set{a, a}), ma, "GetUnion of a set with itself")
	un := GetUnion([]Set{a, b, c})
	u.check(un, ma|mb|mc, "GetUnion of three sets")
	u.check(GetUnion([]Set{c, EmptySet, b, a, EmptySet}), ma|mb|mc, "GetUnion of three sets and empty sets in another order")
	verifC20Unchanged(a, sa, "GetUnion")
	verifC20Unchanged(b, sb, "GetUnion")
	verifC20Unchanged(c, sc, "GetUnion")
	sun := verifC20Snapshot(un)

	// difference and intersection
	onlyA, both, onlyB := GetDifferenceAndIntersection(a, b)
	u.check(onlyA, ma&^mb, "GetDifferenceAndIntersection: only in A")
	u.check(both, ma&mb, "GetDifferenceAndIntersection: in both")
	u.check(onlyB, mb&^ma, "GetDifferenceAndIntersection: only in B")
	o2, b2, o3 := GetDifferenceAndIntersection(un, c)
	u.check(o2, (ma|mb|mc)&^mc, "GetDifferenceAndIntersection(union, C): only in the union")
	u.check(b2, mc, "GetDifferenceAndIntersection(union, C): in both")
	u.check(o3, 0, "GetDifferenceAndIntersection(union, C): only in C")
	verifC20Unchanged(a, sa, "GetDifferenceAndIntersection")
	verifC20Unchanged(b, sb, "GetDifferenceAndIntersection")
	verifC20Unchanged(c, sc, "GetDifferenceAndIntersection")
	verifC20Unchanged(un, sun, "GetDifferenceAndIntersection")

	// partition
	u.checkPartition(a, ma, "PartitionByInstanceName(A)")
	u.checkPartition(un, ma|mb|mc, "PartitionByInstanceName(union)")
	verifC20Unchanged(a, sa, "PartitionByInstanceName")
	verifC20Unchanged(un, sun, "PartitionByInstanceName")

	// empty blobs
	emptyMask := 0
	for i, d := range u.sorted {
		if d.GetSizeBytes() == 0 {
			emptyMask |= 1 << i
		}
	}
	u.check(a.RemoveEmptyBlob(), ma&^emptyMask, "RemoveEmptyBlob(A)")
	u.check(un.RemoveEmptyBlob(), (ma|mb|mc)&^emptyMask, "RemoveEmptyBlob(union)")
	verifC20Unchanged(a, sa, "RemoveEmptyBlob")
	verifC20Unchanged(un, sun, "RemoveEmptyBlob")

	// singleton
	u.check(u.sorted[1].ToSingletonSet(), 0b10, "ToSingletonSet")

	if ma&mb != 0 && ma&^mb != 0 && mb&^ma != 0 {
		vnd.Cover("overlapping-sets")
	}
	if ma == 0 && mb == 0 && mc == 0 {
		vnd.Cover("all-empty")
	}
	vnd.Observe("union", uint64(un.Length()), uint64(both.Length()))
}

// Verif_C20_D6_PartitionThreeInstances: 6 digests over three instance names (the
// branch of PartitionByInstanceName for a third and later instance name), every
// subset; appending to one partition must not disturb the others or the input.
func Verif_C20_D6_PartitionThreeInstances() {
	hx := verifC20Hash(64, nil)
	hy := "0000000000000000000000000000000000000000000000000000000000000000"
	sha := verifC20Funcs[2]
	// chosen so that the ascending order interleaves the instance names: the
	// string form starts with function-hash-size, the instance name comes last
	u := verifC20NewUniverse([]Digest{
		verifC20NewDigest("a", sha, hy, 1),
		verifC20NewDigest("b", sha, hy, 1),
		verifC20NewDigest("", sha, hy, 1),
		verifC20NewDigest("a", sha, hx, 0),
		verifC20NewDigest("", sha, hx, 0),
		verifC20NewDigest("b", sha, hx, 0),
	})
	m := vnd.Choose(1 << len(u.sorted))
	s := u.build(m, 0)
	u.check(s, m, "SetBuilder.Build")
	snap := verifC20Snapshot(s)
	u.checkPartition(s, m, "PartitionByInstanceName")
	verifC20Unchanged(s, snap, "PartitionByInstanceName")
	emptyMask := 0
	for i, d := range u.sorted {
		if d.GetSizeBytes() == 0 {
			emptyMask |= 1 << i
		}
	}
	u.check(s.RemoveEmptyBlob(), m&^emptyMask, "RemoveEmptyBlob")
	verifC20Unchanged(s, snap, "RemoveEmptyBlob")
	if len(s.PartitionByInstanceName()) == 3 {
		vnd.Cover("three-partitions")
	}
	vnd.Observe("partitions", uint64(len(s.PartitionByInstanceName())))
}
