//go:build verif

package digest

import (
	vnd "github.com/buildbarn/bb-storage/internal/verifnd"
)

// verifC20CheckAccessors: the unpack-based accessors of d return exactly the
// components it was built from.
func verifC20CheckAccessors(d Digest, instance string, f verifC20Func, hash string, size int64) {
	vnd.Assert(verifC20StrEq(d.GetHashString(), hash), "GetHashString does not return the hash the digest was built from")
	vnd.Assert(d.GetSizeBytes() == size, "GetSizeBytes does not return the size the digest was built from")
	vnd.Assert(d.GetInstanceName().String() == instance, "GetInstanceName does not return the instance name the digest was built from")
	df := d.GetDigestFunction()
	vnd.Assert(df.bareFunction != nil, "GetDigestFunction returns no function")
	vnd.Assert(df.GetEnumValue() == f.enum, "GetDigestFunction does not return the function the digest was built from")
	vnd.Assert(df.bareFunction.hashBytesSize*2 == f.hexLen, "GetDigestFunction returns a function with a different hash length")
	vnd.Assert(df.GetInstanceName().String() == instance, "GetDigestFunction carries a different instance name")
	vnd.Assert(d.UsesDigestFunction(MustNewFunction(instance, f.enum)), "UsesDigestFunction denies the function the digest was built from")
	for _, other := range verifC20Funcs {
		if other.enum != f.enum {
			vnd.Assert(!d.UsesDigestFunction(MustNewFunction(instance, other.enum)), "UsesDigestFunction accepts a different function")
		}
	}
	if instance != "" {
		vnd.Assert(!d.UsesDigestFunction(MustNewFunction("", f.enum)), "UsesDigestFunction accepts a different instance name")
	}
	// REv2 message.
	p := d.GetProto()
	vnd.Assert(verifC20StrEq(p.Hash, hash), "GetProto carries a different hash")
	vnd.Assert(p.SizeBytes == size, "GetProto carries a different size")
	// a digest rebuilt from the accessors' answers is the same digest
	d2, err := df.NewDigest(d.GetHashString(), d.GetSizeBytes())
	vnd.Assert(err == nil, "rebuilding a digest from its own components fails")
	vnd.Assert(verifC20StrEq(d2.value, d.value), "rebuilding a digest from its own components yields a different digest")
}

// Verif_C20_D1_AccessorsGrid: the full grid function x instance name x size
// (all concrete), two concrete hashes each.
func Verif_C20_D1_AccessorsGrid() {
	f := verifC20Funcs[vnd.Choose(len(verifC20Funcs))]
	instance := verifC20InstanceNames[vnd.Choose(len(verifC20InstanceNames))]
	size := verifC20Sizes[vnd.Choose(len(verifC20Sizes))]
	var hash string
	if vnd.Choose(2) == 0 {
		hash = verifC20Hash(f.hexLen, nil)
	} else {
		// all digits: the hash is indistinguishable from a size by character class
		b := make([]byte, f.hexLen)
		for i := range b {
			b[i] = '0' + byte(i%10)
		}
		hash = string(b)
	}
	d := verifC20NewDigest(instance, f, hash, size)
	vnd.Cover("grid-constructed")
	verifC20CheckAccessors(d, instance, f, hash, size)
	hb := d.GetHashBytes()
	vnd.Assert(len(hb) == f.hexLen/2, "GetHashBytes has the wrong length")
	if len(hb) == f.hexLen/2 {
		for i := range hb {
			vnd.Assert(hb[i] == verifC20Nibble(hash[2*i])<<4|verifC20Nibble(hash[2*i+1]), "GetHashBytes is not the binary form of the hash")
		}
	}
	verifC20ObserveString("value", d.String())
}

// Verif_C20_D1_AccessorsSymbolicHash: for each function, a hash whose first,
// 31st (the character the hash-end scan of unpack starts at, for a one-digit
// function number) and last characters are arbitrary lowercase hexadecimal
// characters.
func Verif_C20_D1_AccessorsSymbolicHash() {
	f := verifC20Funcs[vnd.Choose(len(verifC20Funcs))]
	k := vnd.Choose(3)
	instance := []string{"", "x-1", "3-0-/b-2"}[k]
	size := []int64{0, 123456789012, 9223372036854775807}[k]
	sym := []int{0, f.hexLen - 1}
	if vnd.Thorough() {
		sym = []int{0, 29, 30, f.hexLen - 1}
	}
	hash := verifC20Hash(f.hexLen, sym)
	d := verifC20NewDigest(instance, f, hash, size)
	vnd.Cover("symbolic-constructed")
	verifC20CheckAccessors(d, instance, f, hash, size)
	verifC20ObserveString("value", d.String())
}

// Verif_C20_D1_HashBytes: GetHashBytes is the binary form of a hash with one
// (thorough: two) symbolic character(s).
func Verif_C20_D1_HashBytes() {
	fs := verifC20SymFuncs()
	f := fs[vnd.Choose(len(fs))]
	sym := []int{f.hexLen - 2}
	if vnd.Thorough() {
		sym = []int{1, f.hexLen - 2}
	}
	hash := verifC20Hash(f.hexLen, sym)
	d := verifC20NewDigest("a/b", f, hash, 42)
	hb := d.GetHashBytes()
	vnd.Cover("hashbytes")
	vnd.Assert(len(hb) == f.hexLen/2, "GetHashBytes has the wrong length")
	if len(hb) == f.hexLen/2 {
		for i := range hb {
			vnd.Assert(hb[i] == verifC20Nibble(hash[2*i])<<4|verifC20Nibble(hash[2*i+1]), "GetHashBytes is not the binary form of the hash")
		}
	}
	vnd.ObserveBytes("hashbytes", hb)
}

// verifC20Nibble: value of a lowercase hexadecimal digit (fork-free).
func verifC20Nibble(c byte) byte {
	return vnd.IteU8(c <= '9', c-'0', c-'a'+10)
}
