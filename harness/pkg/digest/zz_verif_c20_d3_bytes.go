//go:build verif

package digest

import (
	remoteexecution "github.com/bazelbuild/remote-apis/build/bazel/remote/execution/v2"
	vnd "github.com/buildbarn/bb-storage/internal/verifnd"
)

// ---- byte-level mutations of valid resource names ------------------------------

type verifC20Base struct {
	write bool
	s     string
	// positions worth mutating: everything outside the interior of the hash and
	// of the UUID, plus the first and last two characters of those
	positions []int
	// a few of them for the symbolic variant
	symPositions []int
}

func verifC20MakeBase(write bool, parts []string, boring map[int]bool, sym []int) verifC20Base {
	b := verifC20Base{write: write}
	for i, p := range parts {
		start := len(b.s)
		if i > 0 {
			b.positions = append(b.positions, start) // the separator
			b.s += "/"
			start++
		}
		b.s += p
		for j := 0; j < len(p); j++ {
			if boring[i] && j >= 2 && j < len(p)-2 {
				continue
			}
			b.positions = append(b.positions, start+j)
		}
	}
	b.symPositions = sym
	return b
}

func verifC20Bases() []verifC20Base {
	return []verifC20Base{
		// x/blobs/<32>/42: separator before blobs, 'l' of blobs, separator before the hash, first and last hash character, separator before the size, both size digits
		verifC20MakeBase(false, []string{"x", "blobs", verifC20H32, "42"}, map[int]bool{2: true}, []int{1, 3, 7, 8, 39, 40, 41, 42}),
		// compressed-blobs/zstd/sha256tree/<64>/7
		verifC20MakeBase(false, []string{"compressed-blobs", "zstd", "sha256tree", verifC20H64, "7"}, map[int]bool{3: true}, []int{10, 16, 17, 21, 32, 33, 97, 98}),
		// x/uploads/<uuid>/blobs/<32>/42
		verifC20MakeBase(true, []string{"x", "uploads", verifC20U, "blobs", verifC20H32, "42"}, map[int]bool{2: true, 4: true}, []int{1, 2, 9, 10, 46, 47, 52, 53, 84, 85, 86}),
	}
}

func verifC20ParseAndCheck(write bool, s string) (Digest, remoteexecution.Compressor_Value, error) {
	if write {
		d, c, err := NewDigestFromByteStreamWritePath(s)
		verifC20CheckAgainstSpec("write path", verifC20SpecWrite(s), d, c, err)
		return d, c, err
	}
	d, c, err := NewDigestFromByteStreamReadPath(s)
	verifC20CheckAgainstSpec("read path", verifC20SpecRead(s), d, c, err)
	return d, c, err
}

// verifC20CheckCanonical: an accepted name re-formats to the accepted string's
// canonical form (redundant slashes dropped, size in canonical decimal): the
// fields of the re-formatted name are the leading fields of the input (read),
// or the fields after the UUID (write), except for the spelling of the size.
func verifC20CheckCanonical(write bool, s string, d Digest, c remoteexecution.Compressor_Value) {
	in := verifC20Split(s)
	for _, comp := range verifC20Split(d.GetInstanceName().String()) {
		if comp == "." || comp == ".." {
			// finding carried by Verif_C20_D2_DotInstanceNames; not re-reported here
			return
		}
	}
	out := verifC20Split(d.GetByteStreamReadPath(c))
	inst := len(verifC20Split(d.GetInstanceName().String()))
	if write {
		// drop "uploads", uuid
		vnd.Assert(len(in) >= inst+2, "accepted write path has no room for uploads/uuid")
		if len(in) < inst+2 {
			return
		}
		vnd.Assert(in[inst] == "uploads", "accepted write path does not have uploads after the instance name")
		in = append(append([]string(nil), in[:inst]...), in[inst+2:]...)
	}
	vnd.Assert(len(in) >= len(out), "re-formatted name has more fields than the accepted name")
	if len(in) < len(out) {
		return
	}
	for i := 0; i+1 < len(out); i++ {
		vnd.Assert(verifC20StrEq(in[i], out[i]), "re-formatted name differs from the accepted name in a field other than the size")
	}
	size, ok := verifC20ParseSize(in[len(out)-1])
	vnd.Assert(ok && size == d.GetSizeBytes(), "size field of the accepted name does not denote the digest's size")
}

var verifC20MutationBytes = []byte{'/', '-', '+', '0', '9', 'a', 'f', 'g', 'A', 'F', ' ', 0x80, 0xff, '.'}

// Verif_C20_D3_ByteMutationsConcrete: one byte of a valid name replaced by each
// of 14 interesting bytes at every interesting position, or the name truncated
// at any position: no panic; outcome = specification; accepted => canonical.
func Verif_C20_D3_ByteMutationsConcrete() {
	bases := verifC20Bases()
	base := bases[vnd.Choose(len(bases))]
	_, _, err := verifC20ParseAndCheck(base.write, base.s)
	vnd.Assert(err == nil, "valid base name rejected")
	var s string
	if vnd.Choose(2) == 0 {
		b := []byte(base.s)
		b[base.positions[vnd.Choose(len(base.positions))]] = verifC20MutationBytes[vnd.Choose(len(verifC20MutationBytes))]
		s = string(b)
	} else {
		s = base.s[:vnd.Choose(len(base.s))]
		vnd.Cover("truncated")
	}
	d, c, err := verifC20ParseAndCheck(base.write, s)
	if err == nil {
		vnd.Cover("mutant-accepted")
		verifC20CheckCanonical(base.write, s, d, c)
	} else {
		vnd.Cover("mutant-rejected")
	}
}

// Verif_C20_D3_ByteMutationsSymbolic: one (thorough: two) byte(s) at chosen
// positions replaced by arbitrary bytes. (Two symbolic digits in the size field make
// the size a value with up to 100 feasible values that strconv has to format.)
//
// symgo: maxconcretize=260
func Verif_C20_D3_ByteMutationsSymbolic() {
	bases := verifC20Bases()
	base := bases[vnd.Choose(len(bases))]
	b := []byte(base.s)
	i := vnd.Choose(len(base.symPositions))
	b[base.symPositions[i]] = verifC20AnyByte()
	if vnd.Thorough() {
		j := vnd.Choose(len(base.symPositions))
		if j != i {
			b[base.symPositions[j]] = verifC20AnyByte()
		}
	}
	s := string(b)
	d, c, err := verifC20ParseAndCheck(base.write, s)
	if err == nil {
		vnd.Cover("symbolic-mutant-accepted")
		verifC20CheckCanonical(base.write, s, d, c)
	} else {
		vnd.Cover("symbolic-mutant-rejected")
	}
	vnd.Observe("accepted", uint64(vnd.IteInt(err == nil, 1, 0)))
}

// Verif_C20_D3_WritePathWithoutBlobsKeyword: the documented write formats have
// "blobs" or "compressed-blobs/${compressor}" after the UUID; a name without
// either is malformed and must be rejected.
func Verif_C20_D3_WritePathWithoutBlobsKeyword() {
	prefix := []string{"", "a/"}[vnd.Choose(2)]
	tail := [][]string{
		{verifC20H32, "42", "f"},
		{"sha256tree", verifC20H64, "42"},
		{verifC20H64, "7", "blobs", "f"},
		{"x", verifC20H32, "42"},
	}[vnd.Choose(4)]
	s := prefix + "uploads/" + verifC20U + "/" + verifC20Join(tail...)
	vnd.Assert(!verifC20SpecWrite(s).ok, "harness: the specification accepts a name without the keyword")
	_, _, err := NewDigestFromByteStreamWritePath(s)
	vnd.Cover("write-without-keyword")
	vnd.Assert(err != nil, "write path without blobs/compressed-blobs after the UUID is accepted")
}

// ---- the explicit list of the property -------------------------------------------

type verifC20BadCase struct {
	what string
	path string
}

func verifC20Upper(s string) string {
	b := []byte(s)
	for i := range b {
		if b[i] >= 'a' && b[i] <= 'f' {
			b[i] -= 32
		}
	}
	return string(b)
}

// Verif_C20_D3_RejectionList: each kind of malformed input named by the property,
// as the digest part of a read path and of a write path: rejected.
func Verif_C20_D3_RejectionList() {
	cases := []verifC20BadCase{
		{"hash one character short", "blobs/" + verifC20H32[1:] + "/42"},
		{"hash one character long", "blobs/" + verifC20H32 + "0/42"},
		{"hash of a length no function has", "blobs/" + verifC20H32 + verifC20H32[:16] + "/42"},
		{"hash length of another function", "blobs/sha256tree/" + verifC20H40 + "/42"},
		{"empty hash (double slash)", "blobs//42"},
		{"uppercase hash", "blobs/" + verifC20Upper(verifC20H32) + "/42"},
		{"one uppercase character", "blobs/" + verifC20H32[:31] + "F/42"},
		{"non-hex character", "blobs/" + verifC20H32[:31] + "g/42"},
		{"non-ASCII character", "blobs/" + verifC20H32[:30] + "\xc3\xa9/42"},
		{"negative size", "blobs/" + verifC20H32 + "/-1"},
		{"most negative size", "blobs/" + verifC20H32 + "/-9223372036854775808"},
		{"size overflow", "blobs/" + verifC20H32 + "/9223372036854775808"},
		{"non-numeric size", "blobs/" + verifC20H32 + "/4x"},
		{"hexadecimal size", "blobs/" + verifC20H32 + "/0x10"},
		{"size with underscore", "blobs/" + verifC20H32 + "/1_0"},
		{"size with space", "blobs/" + verifC20H32 + "/ 42"},
		{"missing size", "blobs/" + verifC20H32},
		{"missing size, trailing slash", "blobs/" + verifC20H32 + "/"},
		{"missing hash", "blobs/42"},
		{"unknown function name", "blobs/sha3/" + verifC20H64 + "/42"},
		{"name of an unnamed function", "blobs/md5/" + verifC20H32 + "/42"},
		{"function name in upper case", "blobs/SHA256TREE/" + verifC20H64 + "/42"},
		{"function name without hash", "blobs/sha256tree/42"},
		{"unknown compressor", "compressed-blobs/gzip/" + verifC20H32 + "/42"},
		{"identity as a compressor name", "compressed-blobs/identity/" + verifC20H32 + "/42"},
		{"compressor in upper case", "compressed-blobs/ZSTD/" + verifC20H32 + "/42"},
		{"compressor missing", "compressed-blobs/" + verifC20H32 + "/42"},
		{"compressor without digest", "compressed-blobs/zstd"},
		{"compressor and function without digest", "compressed-blobs/zstd/blake3"},
		{"keyword misspelt", "blob/" + verifC20H32 + "/42"},
		{"keyword in upper case", "BLOBS/" + verifC20H32 + "/42"},
		{"empty", ""},
		{"only slashes", "///"},
	}
	k := vnd.Choose(len(cases))
	tc := cases[k]
	prefix := []string{"", "a/", "a/b-1/", "/"}[vnd.Choose(4)]
	if vnd.Choose(2) == 0 {
		_, _, err := NewDigestFromByteStreamReadPath(prefix + tc.path)
		vnd.Assert(err != nil, "malformed read path accepted: "+tc.what)
		vnd.Cover("bad-read-rejected")
	} else {
		_, _, err := NewDigestFromByteStreamWritePath(prefix + "uploads/" + verifC20U + "/" + tc.path)
		vnd.Assert(err != nil, "malformed write path accepted: "+tc.what)
		_, _, err = NewDigestFromByteStreamWritePath(prefix + "uploads/" + verifC20U + "/" + tc.path + "/blobs/f")
		vnd.Assert(err != nil, "malformed write path with a trailing file name accepted: "+tc.what)
		vnd.Cover("bad-write-rejected")
	}
}

// Verif_C20_D3_ReservedInstanceNames: a reserved keyword as an instance-name
// component of a resource name (where it is not the keyword the grammar expects)
// is rejected; and a write path without uploads, a read path without blobs.
func Verif_C20_D3_ReservedInstanceNames() {
	kw := verifC20ReservedKeywords[vnd.Choose(len(verifC20ReservedKeywords))]
	pos := vnd.Choose(3)
	comps := []string{"a", "b"}
	comps = append(comps[:pos], append([]string{kw}, comps[pos:]...)...)
	inst := verifC20Join(comps...)
	_, err := NewInstanceName(inst)
	vnd.Assert(err != nil, "instance name with a reserved component accepted")
	_, err = NewInstanceNameFromComponents(comps)
	vnd.Assert(err != nil, "instance name components with a reserved component accepted")
	// in a write path every keyword before "uploads" is part of the instance name
	if kw != "uploads" {
		_, _, err := NewDigestFromByteStreamWritePath(inst + "/uploads/" + verifC20U + "/blobs/" + verifC20H32 + "/42")
		vnd.Assert(err != nil, "write path whose instance name has a reserved component accepted")
		vnd.Cover("reserved-write")
	}
	// in a read path every keyword before blobs/compressed-blobs is part of the instance name
	if kw != "blobs" && kw != "compressed-blobs" {
		_, _, err := NewDigestFromByteStreamReadPath(inst + "/blobs/" + verifC20H32 + "/42")
		vnd.Assert(err != nil, "read path whose instance name has a reserved component accepted")
		vnd.Cover("reserved-read")
	}
	// redundant slashes in instance names
	for _, bad := range []string{"/", "/a", "a/", "a//b", "//", "a/b/", "/a/b"} {
		_, err := NewInstanceName(bad)
		vnd.Assert(err != nil, "instance name with redundant slashes accepted")
	}
}

// Verif_C20_D3_NewDigestRejects: NewDigest / NewDigestFromProto / GetDigestFunction
// with one arbitrary NON-lowercase-hex byte anywhere interesting, any negative
// size, any unsupported function number, nil message: error, no panic.
func Verif_C20_D3_NewDigestRejects() {
	fs := verifC20SymFuncs()
	f := fs[vnd.Choose(len(fs))]
	in, _ := NewInstanceName("a")
	fn, err := in.GetDigestFunction(f.enum, 0)
	vnd.Assert(err == nil, "supported function rejected")
	switch vnd.Choose(5) {
	case 0:
		b := []byte(verifC20Hash(f.hexLen, nil))
		c := verifC20AnyByte()
		vnd.Assume(vnd.Not(verifC20IsLowerHex(c)))
		b[[]int{0, f.hexLen / 2, f.hexLen - 1}[vnd.Choose(3)]] = c
		_, err := fn.NewDigest(string(b), 42)
		vnd.Assert(err != nil, "hash with a character that is not lowercase hexadecimal accepted")
		_, err = fn.NewDigestFromProto(&remoteexecution.Digest{Hash: string(b), SizeBytes: 42})
		vnd.Assert(err != nil, "REv2 message with a bad hash accepted")
		vnd.Cover("bad-char")
	case 1:
		size := vnd.I64()
		vnd.Assume(size < 0)
		_, err := fn.NewDigest(verifC20Hash(f.hexLen, nil), size)
		vnd.Assert(err != nil, "negative size accepted")
		_, err = fn.NewDigestFromProto(&remoteexecution.Digest{Hash: verifC20Hash(f.hexLen, nil), SizeBytes: size})
		vnd.Assert(err != nil, "REv2 message with a negative size accepted")
		vnd.Cover("negative-size")
	case 2:
		// every length other than the function's own, up to 130
		n := vnd.Choose(131)
		_, err := fn.NewDigest(verifC20Hash(n, nil), 42)
		vnd.Assert((err == nil) == (n == f.hexLen), "hash length check wrong")
		vnd.Cover("length")
	case 3:
		_, err := fn.NewDigestFromProto(nil)
		vnd.Assert(err != nil, "nil REv2 message accepted")
		vnd.Cover("nil-proto")
	case 4:
		e := vnd.I32()
		supported := false
		for _, g := range verifC20Funcs {
			supported = vnd.Or(supported, e == int32(g.enum))
		}
		vnd.Assume(vnd.Not(supported))
		vnd.Assume(e != 0)
		_, err := in.GetDigestFunction(remoteexecution.DigestFunction_Value(e), 0)
		vnd.Assert(err != nil, "unsupported digest function number accepted")
		// UNKNOWN with a length no function has
		n := vnd.Choose(131)
		_, err = in.GetDigestFunction(remoteexecution.DigestFunction_UNKNOWN, n)
		vnd.Assert((err == nil) == (n == 32 || n == 40 || n == 64 || n == 96 || n == 128), "function inference from the hash length wrong")
		vnd.Cover("unknown-function")
	}
}
